"""Scenario generators.  A scenario is plain JSON (see runner.py).  Every random choice comes from the
`random.Random` passed in, so a (family, seed, index) triple replays exactly.

Dispatch graphs are *ranked*: a handler registered for a type of rank r dispatches only types of lower rank
(wildcard handlers dispatch nothing unless `wild_dispatch`), so scenarios terminate.
Durations are multiples of 1/64 s, timeouts are odd multiples of 1/128 s: no timer ties.
"""
RANK = {'A': 3, 'B': 2, 'C': 1, 'D': 0}
SLEEPS = [0, 1 / 64, 2 / 64, 8 / 64, 24 / 64]
TIMEOUTS = [9 / 128, 33 / 128, 65 / 128]

DEFAULT = dict(
    nb=(1, 3), p_parallel=0.2, maxh=[50, 50, 50, None, 2, 3, 4], p_timeout=0.0, p_forward=0.12, p_sync=0.2,
    nh=(1, 6), proglen=(0, 5), ntasks=(1, 2), tasklen=(1, 6), p_wild=0.15, p_raise=0.05, p_readbus=0.04,
    p_redispatch=0.03, p_multikey=0.05, wild_dispatch=False, p_waitidle=0.1, p_parent=0.03, p_wal=0.0,
    p_stop=0.0, p_expect=0.0, p_cancelrl=0.0, p_notimeout=0.1, p_walfault=0.0, p_payload=0.0, p_cleanup=0.15, p_samenames=0.0, p_dupnames=0.15, p_retry=0.1, p_late=0.12, p_existing=0.0, p_rtype=0.0, par_timeouts=False,
)

PAYLOADS = [
    {'text': 'héllo wörld ✓ \u2028 "quoted" \\ back\nslash', 'n': 3},
    {'nested': {'a': [1, 2, {'b': None}], 'c': {'d': 1.5}}, 'flag': True},
    {'items': [], 'empty': {}, 'zero': 0, 'neg': -7},
    {'when': '2026-01-02T03:04:05+00:00', 'big': 12345678901234567890},
    # typed fields (the class declares the field with the type named here; the value is converted when the class is made)
    {'blob': {'__type__': 'bytes', 'v': 'PNG:https://example.com/0'}, 'n': 1},
    {'stamp': {'__type__': 'datetime', 'v': '2026-01-02T03:04:05+00:00'}, 'tags': {'__type__': 'set_int', 'v': [3, 1, 2]}},
    {'maybe': {'__type__': 'opt_float', 'v': None}, 'ratio': {'__type__': 'opt_float', 'v': 2.5}},
    {'handle': {'__type__': 'opaque'}, 'n': 2},          # not serialisable: the WAL write of such an event fails
]


def gen_prog(rng, o, ty, nb, kind):
    lower = [t for t in RANK if RANK[t] < RANK[ty]] if ty != '*' else (['D', 'C'] if o['wild_dispatch'] else [])
    prog = []
    nslots = 0
    for _ in range(rng.randint(*o['proglen'])):
        r = rng.random()
        if kind == 'sync':
            if r < 0.6 and lower:
                prog.append(['dispatch', rng.randrange(nb), rng.choice(lower), nslots])
                nslots += 1
            elif r > 1 - o['p_raise']:
                x = rng.random()
                prog.append(['return_exc'] if x < 0.25 else ['raise_timeout'] if x < 0.4 else ['raise'])
                break
            continue
        if r < 0.28:
            prog.append(['sleep', rng.choice(SLEEPS)])
        elif r < 0.62 and lower:
            if o['p_parent'] and rng.random() < 2 * o['p_parent']:
                # the handler writes the parent link itself: its own event, or (rarely) the first event of the scenario
                prog.append(['dispatch_with_parent', rng.randrange(nb), rng.choice(lower), nslots, rng.choice(['self', 'self', 0])])
            else:
                prog.append(['dispatch', rng.randrange(nb), rng.choice(lower), nslots])
            nslots += 1
        elif r < 0.88 and nslots:
            prog.append(['await', rng.randrange(nslots)])
        elif r < 0.88 + o['p_readbus']:
            prog.append(['readbus'])
        elif r < 0.88 + o['p_readbus'] + o['p_redispatch'] and nslots:
            prog.append(['redispatch', rng.randrange(nslots), rng.randrange(nb)])
        elif o['p_existing'] and 0.88 + o['p_readbus'] + o['p_redispatch'] <= r < 0.88 + o['p_readbus'] + o['p_redispatch'] + o['p_existing']:
            prog.append(['dispatch_existing', rng.choice([0, 0, 1, 2]), rng.randrange(nb)])
        elif r > 1 - o['p_raise']:
            # (one raise in five is a CancelledError the handler lets escape from a cancelled helper task it awaits, one an
            #  exception object that is returned instead of raised)
            x = rng.random()
            prog.append(['raise_cancelled'] if x < 0.2 else ['return_exc'] if x < 0.4 else ['raise_timeout'] if x < 0.55 else ['raise'])
            break
    return prog


def gen_task(rng, o, nb, main):
    prog = []
    nslots = 0
    for _ in range(rng.randint(*o['tasklen'])):
        r = rng.random()
        if rng.random() < o['p_expect']:
            prog.append(['expect', rng.randrange(nb), rng.choice(['A', 'B', 'C', 'D', 'C', 'D', '*']), rng.choice([0, 0, 1, 2, 3, 4]),
                         rng.choice([None, 0, 5 / 128, 21 / 128, 67 / 128]), rng.choice([None, None, None, 3 / 128, 19 / 128])])
            continue
        if rng.random() < o['p_stop']:
            prog.append(['stop', rng.randrange(nb), rng.random() < 0.2])
            continue
        if rng.random() < o['p_cancelrl']:
            prog.append(['cancelrl', rng.randrange(nb)])
            continue
        if nslots and rng.random() < o['p_redispatch']:
            prog.append(['redispatch', rng.randrange(nslots), rng.randrange(nb)])
            continue
        if r < 0.55 or nslots == 0:
            if rng.random() < o['p_parent'] and nslots:
                prog.append(['dispatch_with_parent', rng.randrange(nb), rng.choice('ABC'), nslots, 0])
            else:
                prog.append(['dispatch', rng.randrange(nb), rng.choice('ABC'), nslots])
            nslots += 1
        elif r < 0.68:
            prog.append(['sleep', rng.choice([0, 2 / 64, 16 / 64])])
        elif r < 0.86:
            prog.append(['await', rng.randrange(nslots)])
        elif r < 0.86 + o['p_waitidle']:
            prog.append(['waitidle', rng.randrange(nb)])
    if not main:
        prog.insert(0, ['sleep', rng.choice([0, 1 / 64, 3 / 64, 9 / 64])])
    return prog


def gen_core(rng, **over):
    o = dict(DEFAULT)
    o.update(over)
    nb = rng.randint(*o['nb'])
    sc = {'buses': [], 'types': {}, 'handlers': [], 'tasks': []}
    for _ in range(nb):
        sc['buses'].append({'parallel': rng.random() < o['p_parallel'], 'maxh': rng.choice(o['maxh']),
                            'wal': rng.random() < o['p_wal']})
    for n in RANK:
        sc['types'][n] = {'timeout': rng.choice(TIMEOUTS) if rng.random() < o['p_timeout'] else
                          ('none' if rng.random() < o['p_notimeout'] else None)}
        if rng.random() < o['p_payload']:
            sc['types'][n]['payload'] = rng.choice(PAYLOADS)
        if rng.random() < o['p_rtype']:
            sc['types'][n]['rtype'] = rng.choice(['str', 'strnone', 'int'])
    if o['p_walfault'] > 0:
        sc['walfaults'] = [[i, rng.choice(['open', 'write', 'mkdir'])] for i in range(12) if rng.random() < o['p_walfault']]
    if o['p_timeout'] > 0 and not o.get('par_timeouts'):
        # (streams that combine handler timeouts with parallel_handlers buses ask for it explicitly)
        for b in sc['buses']:
            b['parallel'] = False
    for _ in range(rng.randint(*o['nh'])):
        ty = rng.choice('ABCD')
        key = '*' if rng.random() < o['p_wild'] else ty
        r = rng.random()
        if r < o['p_forward'] and nb > 1:
            sc['handlers'].append({'bus': rng.randrange(nb), 'key': key, 'kind': 'forward', 'target': rng.randrange(nb), 'prog': []})
            continue
        kind = 'sync' if r < o['p_forward'] + o['p_sync'] else 'async'
        h = {'bus': rng.randrange(nb), 'key': key, 'kind': kind, 'prog': gen_prog(rng, o, key, nb, kind)}
        if kind == 'async' and o['p_timeout'] > 0 and rng.random() < o['p_cleanup']:
            h['cleanup'] = rng.choice([1 / 64, 9 / 64, 17 / 64])    # time spent in its own cleanup when cancelled
        if rng.random() < o['p_multikey'] and key != '*':
            h['keys'] = [key, '*']
            h['prog'] = gen_prog(rng, o, '*', nb, kind)
        if key != '*' and rng.random() < 0.3:
            h['byclass'] = True          # registered with the event class instead of the type name
        if kind in ('async', 'sync') and rng.random() < 0.35 and not (h['prog'] and h['prog'][-1][0] in ('raise', 'raise_cancelled', 'return_exc', 'raise_timeout')):
            h['prog'].append(['return', {f"k{len(sc['handlers'])}": len(sc['handlers']), 'shared': len(sc['handlers']) % 2}])      # (non-empty dict values: the flat-dict accessor merges them)
        if kind == 'async' and rng.random() < o['p_retry']:
            h['retry'] = True            # decorated with bubus.helpers.retry (no retries, no semaphore, a far per-attempt timeout)
        if rng.random() < 0.15:
            h['method'] = rng.choice([True, True, 'own', 'other'])   # registered as a bound method of an object / of a bus object
        sc['handlers'].append(h)
    for x in range(rng.randint(*o['ntasks'])):
        sc['tasks'].append(gen_task(rng, o, nb, x == 0))
    if o['p_late'] and rng.random() < o['p_late'] and sc['handlers'] and sc['tasks'] and sc['tasks'][0]:
        # one handler is registered late, by the main task, which then dispatches one of its events again
        cand = [k for k, h in enumerate(sc['handlers']) if h['kind'] in ('async', 'sync')]
        slots = [op[3] for op in sc['tasks'][0] if op[0] == 'dispatch']
        if cand and slots:
            k = rng.choice(cand)
            sc['handlers'][k]['late'] = True
            pos = rng.randint(1, len(sc['tasks'][0]))
            sc['tasks'][0][pos:pos] = [['on', k]]
            prior = [op[3] for op in sc['tasks'][0][:pos] if op[0] == 'dispatch']
            if prior:
                s0 = rng.choice(prior)
                sc['tasks'][0][pos + 1:pos + 1] = [['sleep', rng.choice([0, 2 / 64, 16 / 64])], ['redispatch', s0, sc['handlers'][k]['bus']]]
    if o['p_samenames'] and rng.random() < o['p_samenames']:
        sc['same_names'] = True
    if o['p_dupnames'] and rng.random() < o['p_dupnames']:
        sc['dup_names'] = True           # all handlers share one function name (same-factory closures; `on()` only warns)
    return sc


def gen_chain(rng, p_timeout=0.5, p_await=0.8, p_parallel=0.0, nb=(1, 2), maxh=(50, 50, None, 3), p_unrelated=0.3, p_raise=0.05, min_depth=2, p_selfparent=0.0, **_):
    """nested chains A -> B -> C -> D: each level's handler dispatches the next level (to any bus) and mostly
    awaits it; every level may have a second handler; timeouts on random levels (then serial buses only)"""
    n = rng.randint(*nb)
    with_to = rng.random() < p_timeout
    sc = {'buses': [{'parallel': (not with_to) and rng.random() < p_parallel, 'maxh': rng.choice(maxh), 'wal': False} for _ in range(n)],
          'types': {}, 'handlers': [], 'tasks': []}
    order = ['A', 'B', 'C', 'D']
    depth = rng.randint(min_depth, 4)
    for t in order:
        sc['types'][t] = {'timeout': rng.choice(TIMEOUTS) if (with_to and rng.random() < 0.5) else None}
    if with_to and rng.random() < p_selfparent:
        sc['types']['A']['selfparent'] = True      # the root event names itself as its parent (client-supplied cycle)
    home = {t: rng.randrange(n) for t in order}
    for li, t in enumerate(order[:depth]):
        last = li == depth - 1
        prog = []
        if rng.random() < 0.5:
            prog.append(['sleep', rng.choice(SLEEPS)])
        if not last:
            nxt = order[li + 1]
            prog.append(['dispatch', home[nxt], nxt, 0])
            if rng.random() < 0.3:
                prog.append(['sleep', rng.choice(SLEEPS)])
            if rng.random() < p_unrelated:
                prog.append(['dispatch', rng.randrange(n), 'D', 1])
            if rng.random() < p_await:
                prog.append(['await', 0])
        if rng.random() < 0.5:
            prog.append(['sleep', rng.choice(SLEEPS)])
        if rng.random() < p_raise:
            prog.append(['raise'])
        sc['handlers'].append({'bus': home[t], 'key': t, 'kind': 'async', 'prog': prog})
        if with_to and rng.random() < 0.15:
            sc['handlers'][-1]['cleanup'] = rng.choice([1 / 64, 9 / 64, 17 / 64])
        for _ in range(rng.choice([0, 0, 1, 1, 2])):
            kind = rng.choice(['async', 'async', 'sync'])
            p2 = [] if kind == 'sync' else [['sleep', rng.choice(SLEEPS)]]
            sc['handlers'].append({'bus': home[t], 'key': rng.choice([t, t, '*']), 'kind': kind, 'prog': p2})
    rng.shuffle(sc['handlers'])
    main = [['dispatch', home['A'], 'A', 0]]
    if rng.random() < 0.4:
        main.append(['dispatch', rng.randrange(n), rng.choice('BCD'), 1])
    main.append(['await', 0])
    if rng.random() < 0.3:
        main.append(['waitidle', rng.randrange(n)])
    sc['tasks'].append(main)
    if rng.random() < 0.3:
        sc['tasks'].append([['sleep', rng.choice([1 / 64, 5 / 64, 17 / 64])], ['dispatch', rng.randrange(n), rng.choice('ABCD'), 0]])
    return sc


def gen_deep(rng, **_):
    """a 3-4 level chain of awaits on one or two serial buses in which a middle level's timeout fires while the first of the
    leaf's serial handlers is still running (so later ones are still pending), with unrelated events arriving from outside"""
    n = rng.randint(1, 2)
    depth = rng.choice([3, 4, 4])
    order = ['A', 'B', 'C', 'D'][:depth]
    sc = {'buses': [{'parallel': False, 'maxh': 50, 'wal': False} for _ in range(n)],
          'types': {t: {'timeout': None} for t in 'ABCD'}, 'handlers': [], 'tasks': []}
    tl = rng.randrange(1, depth - 1)               # the level whose handler times out: neither root nor leaf
    sc['types'][order[tl]]['timeout'] = rng.choice([33 / 128, 65 / 128])
    home = {t: rng.randrange(n) for t in 'ABCD'}
    for li, t in enumerate(order):
        if li < depth - 1:
            prog = [['dispatch', home[order[li + 1]], order[li + 1], 0]]
            if rng.random() < 0.3:
                prog.append(['sleep', 1 / 64])
            prog.append(['await', 0])
            if rng.random() < 0.3:
                prog.append(['sleep', 1 / 64])
            sc['handlers'].append({'bus': home[t], 'key': t, 'kind': 'async', 'prog': prog})
            if rng.random() < 0.25:
                sc['handlers'].append({'bus': home[t], 'key': t, 'kind': rng.choice(['async', 'sync']), 'prog': []})
        else:
            for j in range(rng.choice([1, 2, 2, 3])):
                d = rng.choice([3 / 8, 3 / 4]) if j == 0 else rng.choice([0, 1 / 64, 3 / 8])
                sc['handlers'].append({'bus': home[t], 'key': t, 'kind': 'async', 'prog': [['sleep', d]]})
    sc['tasks'].append([['dispatch', home['A'], 'A', 0], ['await', 0]])
    other = [['sleep', rng.choice([1 / 64, 9 / 64, 17 / 64, 35 / 64])], ['dispatch', rng.randrange(n), rng.choice(order), 0]]
    if rng.random() < 0.5:
        other += [['sleep', rng.choice([1 / 64, 17 / 64])], ['dispatch', rng.randrange(n), rng.choice(order), 1]]
    sc['tasks'].append(other)
    return sc


def gen_sibling(rng, **_):
    """an event with several serial handlers: an earlier one dispatches a child without awaiting it, a later one dispatches
    and awaits its own child and thereby runs the sibling's child inline; the event's timeout fires while the first of that
    child's handlers runs (later ones still pending)"""
    n = rng.randint(1, 2)
    sc = {'buses': [{'parallel': False, 'maxh': 50, 'wal': False} for _ in range(n)],
          'types': {t: {'timeout': None} for t in 'ABCD'}, 'handlers': [], 'tasks': []}
    sc['types']['A']['timeout'] = rng.choice([33 / 128, 65 / 128])
    home = {t: rng.randrange(n) for t in 'ABCD'}
    # first handler of A: fire-and-forget child D (optionally a second one)
    p1 = [['dispatch', home['D'], 'D', 0]]
    if rng.random() < 0.3:
        p1.append(['dispatch', home['C'], 'C', 1])
    sc['handlers'].append({'bus': home['A'], 'key': 'A', 'kind': rng.choice(['async', 'sync']), 'prog': p1})
    if rng.random() < 0.3:
        sc['handlers'].append({'bus': home['A'], 'key': 'A', 'kind': 'async', 'prog': [['sleep', 1 / 64]]})
    # a later handler of A: dispatches its own child and awaits it
    p2 = [['dispatch', home['B'], 'B', 0]]
    if rng.random() < 0.3:
        p2.append(['sleep', 1 / 64])
    p2.append(['await', 0])
    sc['handlers'].append({'bus': home['A'], 'key': 'A', 'kind': 'async', 'prog': p2})
    if rng.random() < 0.4:
        sc['handlers'].append({'bus': home['A'], 'key': 'A', 'kind': 'async', 'prog': []})
    sc['handlers'].append({'bus': home['B'], 'key': 'B', 'kind': 'async', 'prog': [['sleep', rng.choice([0, 1 / 64])]]})
    for j in range(rng.choice([2, 2, 3])):
        d = rng.choice([3 / 8, 3 / 4]) if j == 0 else rng.choice([0, 1 / 64, 3 / 8])
        sc['handlers'].append({'bus': home['D'], 'key': 'D', 'kind': 'async', 'prog': [['sleep', d]]})
    sc['handlers'].append({'bus': home['C'], 'key': 'C', 'kind': 'async', 'prog': []})
    main = [['dispatch', home['A'], 'A', 0], ['await', 0]]
    if rng.random() < 0.4:
        main.append(['waitidle', home['A']])
    sc['tasks'].append(main)
    if rng.random() < 0.4:
        sc['tasks'].append([['sleep', rng.choice([1 / 64, 17 / 64, 35 / 64])], ['dispatch', rng.randrange(n), rng.choice('BCD'), 0]])
    return sc


def gen_errnest(rng, **_):
    """nested awaits with failures inside the await window: a handler dispatches a child and awaits it, a handler of the child
    (or of a grandchild) raises, lets a CancelledError escape, returns an exception or runs into its timeout, and the awaiting
    handler goes on afterwards - dispatches further events, reads event_bus, awaits again; other handlers of the same events
    and an unrelated stream run around it"""
    n = rng.choice([1, 1, 2])
    sc = {'buses': [{'parallel': rng.random() < 0.2, 'maxh': 50, 'wal': False} for _ in range(n)],
          'types': {t: {'timeout': None} for t in 'ABCD'}, 'handlers': [], 'tasks': []}
    home = {t: rng.randrange(n) for t in 'ABCD'}

    def fail():
        x = rng.random()
        return ['raise'] if x < 0.6 else ['raise_cancelled'] if x < 0.75 else ['return_exc'] if x < 0.85 else ['sleep', 3 / 4]

    if rng.random() < 0.4:
        sc['types'][rng.choice('BC')]['timeout'] = rng.choice([9 / 128, 33 / 128])
        for b_ in sc['buses']:
            b_['parallel'] = False          # (handler timeouts on parallel buses are outside the modelled envelope)
    # A: dispatch B, await it, go on
    after = []
    slot = 1
    for _ in range(rng.randint(1, 3)):
        x = rng.random()
        if x < 0.55:
            after.append(['dispatch', home[rng.choice('CD')], rng.choice('CD'), slot])
            slot += 1
        elif x < 0.7:
            after.append(['readbus'])
        elif x < 0.85 and slot > 1:
            after.append(['await', rng.randrange(1, slot)])
        else:
            after.append(['sleep', rng.choice([0, 1 / 64])])
    pa = ([['readbus']] if rng.random() < 0.3 else []) + [['dispatch', home['B'], 'B', 0], ['await', 0]] + after
    sc['handlers'].append({'bus': home['A'], 'key': 'A', 'kind': 'async', 'prog': pa})
    if rng.random() < 0.4:
        sc['handlers'].append({'bus': home['A'], 'key': rng.choice(['A', '*']), 'kind': rng.choice(['async', 'sync']),
                               'prog': [['dispatch', home['D'], 'D', 0]] if rng.random() < 0.5 else []})
    # B: one of its handlers fails (maybe after dispatching / awaiting a grandchild), others do not
    nbh = rng.randint(1, 3)
    bad = rng.randrange(nbh)
    for j in range(nbh):
        kind = rng.choice(['async', 'async', 'sync'])
        prog = []
        if rng.random() < 0.5:
            prog.append(['dispatch', home['C'], 'C', 0])
            if kind == 'async' and rng.random() < 0.6:
                prog.append(['await', 0])
        if j == bad:
            f = fail()
            if kind == 'sync' and f[0] in ('raise_cancelled', 'sleep'):
                f = ['raise']
            prog.append(f)
        elif kind == 'async' and rng.random() < 0.5:
            prog.append(['sleep', rng.choice([0, 1 / 64, 1 / 8])])
        sc['handlers'].append({'bus': home['B'], 'key': 'B', 'kind': kind, 'prog': prog})
    # C: sometimes fails too, sometimes dispatches D
    for j in range(rng.randint(0, 2)):
        prog = [['dispatch', home['D'], 'D', 0]] if rng.random() < 0.4 else []
        if rng.random() < 0.4:
            prog.append(['raise'])
        sc['handlers'].append({'bus': home['C'], 'key': 'C', 'kind': rng.choice(['async', 'sync']), 'prog': prog})
    if rng.random() < 0.6:
        sc['handlers'].append({'bus': home['D'], 'key': 'D', 'kind': 'async', 'prog': [['sleep', rng.choice([0, 1 / 64])]]})
    main = [['dispatch', home['A'], 'A', 0]]
    if rng.random() < 0.5:
        main.append(['dispatch', home['A'], 'A', 1])
    main.append(['await', 0])
    if rng.random() < 0.5:
        main.append(['waitidle', home['A']])
    sc['tasks'].append(main)
    if rng.random() < 0.3:
        sc['tasks'].append([['sleep', rng.choice([0, 1 / 64, 5 / 64])], ['dispatch', rng.randrange(n), rng.choice('BCD'), 0]])
    return sc


def gen_parraise(rng, idle=False, wal=False, **_):
    """a parallel_handlers bus on which one handler raises (or returns an exception object) while sibling handlers of the same
    event are mid-flight - sleeping, or awaiting a child on a serial bus whose first of several handlers is running"""
    sc = {'buses': [{'parallel': True, 'maxh': 50, 'wal': wal}, {'parallel': rng.random() < 0.2, 'maxh': 50, 'wal': wal}],
          'types': {t: {'timeout': None} for t in 'ABCD'}, 'handlers': [], 'tasks': []}
    cb = rng.choice([1, 1, 0])                      # where the child lives
    hs = []
    late = cb == 1 and rng.random() < 0.3
    hs.append({'bus': 0, 'key': 'A', 'kind': 'async', 'prog': ([['sleep', 1 / 8]] if late else []) +
               [['dispatch', cb, 'C', 0], ['await', 0], ['sleep', rng.choice([0, 1 / 64])]]})
    hs.append({'bus': 0, 'key': 'A', 'kind': 'async', 'prog': [['sleep', rng.choice([1 / 64, 1 / 32, 3 / 64])], ['raise']]})
    if rng.random() < 0.5:
        hs.append({'bus': 0, 'key': 'A', 'kind': 'async', 'prog': [['sleep', rng.choice([1 / 64, 1 / 16])]]})
    if rng.random() < 0.3:
        hs.append({'bus': 0, 'key': 'A', 'kind': 'sync', 'prog': [['raise']]})
    rng.shuffle(hs)
    sc['handlers'] += hs
    for j in range(rng.choice([2, 2, 3])):
        sc['handlers'].append({'bus': cb, 'key': 'C', 'kind': 'async',
                               'prog': [['sleep', rng.choice([1 / 16, 1 / 8]) if j == 0 else rng.choice([0, 1 / 64])]]})
    if rng.random() < 0.5:
        # the event with the raising handler is itself a child awaited inside a handler (of D, on the other bus)
        prog = [['dispatch', 0, 'A', 0], ['await', 0], ['sleep', rng.choice([0, 1 / 64])]]
        if rng.random() < 0.5:
            # an unrelated event is queued behind the awaited one (fire-and-forget, on either bus)
            prog.insert(1, ['dispatch', rng.choice([0, 1]), 'B', 1])
            sc['handlers'].append({'bus': prog[1][1], 'key': 'B', 'kind': 'async', 'prog': [['sleep', rng.choice([0, 1 / 64])]]})
        sc['handlers'].append({'bus': 1, 'key': 'D', 'kind': 'async', 'prog': prog})
        main = [['dispatch', 1, 'D', 0], ['await', 0]]
    else:
        main = [['dispatch', 0, 'A', 0], ['await', 0]]
    if rng.random() < 0.5:
        main += [['dispatch', 0, 'A', 1], ['await', 1]]
    if late:
        # the sibling awaits its child late; meanwhile the child's bus gets an event of its own with a slow handler
        sc['handlers'].append({'bus': 1, 'key': 'B', 'kind': 'async', 'prog': [['sleep', rng.choice([1 / 8, 1 / 4])]]})
        sc['tasks'].append([['sleep', rng.choice([1 / 16, 3 / 32])], ['dispatch', 1, 'B', 0]])
    if idle:
        # a small history on the parallel bus, later events that evict the first one, then wait_until_idle()
        sc['buses'][0]['maxh'] = rng.choice([2, 3])
        main = [['dispatch', 0, 'A', 0]] + [['dispatch', 0, 'B', 1 + j] for j in range(rng.randint(1, 3))] + [['waitidle', 0]]
    sc['tasks'].append(main)
    return sc


def gen_partimeout(rng, **_):
    """handler timeouts on a parallel_handlers bus whose only executor is its run loop (no in-handler awaits, so no
    executor is ever cancelled under a parallel activation - the situation the model leaves out): several handlers per
    event, some overrun the event's timeout, some finish, some raise"""
    sc = {'buses': [{'parallel': True, 'maxh': 50, 'wal': False}],
          'types': {t: {'timeout': rng.choice([None, 9 / 128, 33 / 128])} for t in 'ABCD'}, 'handlers': [], 'tasks': []}
    for _ in range(rng.randint(2, 6)):
        prog = [['sleep', rng.choice([0, 1 / 64, 4 / 64, 16 / 64, 40 / 64])] for _ in range(rng.randint(1, 3))]
        key = rng.choice(['A', 'A', 'B', '*'])
        if key != '*' and rng.random() < 0.3:
            prog.insert(rng.randrange(len(prog) + 1), ['dispatch', 0, 'D', 0])      # fire and forget (D is only handled by '*')
        if rng.random() < 0.1:
            prog.append(['raise'])
        h = {'bus': 0, 'key': key, 'kind': 'async', 'prog': prog}
        if rng.random() < 0.3:
            h['cleanup'] = rng.choice([1 / 64, 9 / 64])
        sc['handlers'].append(h)
    if rng.random() < 0.5:
        sc['handlers'].append({'bus': 0, 'key': 'A', 'kind': 'sync', 'prog': []})
    main = []
    for i in range(rng.randint(1, 3)):
        main.append(['dispatch', 0, rng.choice('AB'), i])
        if rng.random() < 0.5:
            main.append(['await', i])
    if rng.random() < 0.4:
        main.append(['waitidle', 0])
    sc['tasks'].append(main)
    return sc


def gen_cycle(rng, **_):
    """a handler dispatches the parent of the event it is handling (to the same or another bus): the child relation of the
    events becomes cyclic; followed by wait_until_idle() on every bus"""
    nb = rng.randint(1, 2)
    sc = {'buses': [{'parallel': rng.random() < 0.2, 'maxh': 50, 'wal': False} for _ in range(nb)],
          'types': {t: {'timeout': None} for t in 'ABCD'}, 'handlers': [], 'tasks': []}
    cb = rng.randrange(nb)
    sc['handlers'].append({'bus': 0, 'key': 'A', 'kind': 'async',
                           # (not awaited: awaiting a child that makes its own parent its child is a dependency cycle of the client's making)
                           'prog': [['dispatch', cb, 'B', 0], ['sleep', rng.choice([0, 1 / 64])]]})
    sc['handlers'].append({'bus': cb, 'key': 'B', 'kind': rng.choice(['async', 'sync']),
                           'prog': [['redispatch_parent', rng.randrange(nb)]]})
    for b in range(nb):
        if rng.random() < 0.6:
            sc['handlers'].append({'bus': b, 'key': rng.choice(['A', '*']), 'kind': 'async', 'prog': [['sleep', rng.choice([0, 1 / 64])]]})
    main = [['dispatch', 0, 'A', 0]]
    if rng.random() < 0.5:
        main.append(['await', 0])
    main += [['waitidle', b] for b in range(nb)]
    sc['tasks'].append(main)
    return sc


def gen_parshare(rng, **_):
    """two or three handlers of one event on a parallel_handlers bus await the SAME child: one dispatches it, the others pick
    it up from `event.event_children`; the child's handlers have several suspension points"""
    nb = rng.randint(1, 2)
    sc = {'buses': [{'parallel': True, 'maxh': 50, 'wal': False}] + [{'parallel': False, 'maxh': 50, 'wal': False}] * (nb - 1),
          'types': {t: {'timeout': None} for t in 'ABCD'}, 'handlers': [], 'tasks': []}
    cb = rng.randrange(nb)
    hs = [{'bus': 0, 'key': 'A', 'kind': 'async',
           'prog': [['dispatch', cb, 'C', 0]] + ([['dispatch', cb, 'D', 1]] if rng.random() < 0.4 else []) + [['await', 0]]}]
    for _ in range(rng.randint(1, 2)):
        hs.append({'bus': 0, 'key': 'A', 'kind': 'async',
                   'prog': [['sleep', rng.choice([0, 0, 1 / 64])], ['await_sibling_child'], ['sleep', rng.choice([0, 1 / 64])]]})
    sc['handlers'] += hs
    for j in range(rng.randint(1, 2)):
        sc['handlers'].append({'bus': cb, 'key': 'C', 'kind': 'async',
                               'prog': [['sleep', rng.choice([0, 1 / 64, 1 / 16])] for _ in range(rng.randint(1, 4))]})
    sc['handlers'].append({'bus': cb, 'key': 'D', 'kind': 'async', 'prog': [['sleep', rng.choice([0, 1 / 64])]]})
    main = [['dispatch', 0, 'A', 0], ['await', 0]]
    if rng.random() < 0.4:
        main = [['dispatch', cb, 'D', 5]] + main
    sc['tasks'].append(main)
    return sc


def gen_deepfwd(rng, **_):
    """a chain of 3-5 nested events all dispatched on one bus that forwards everything ('*') to other buses (which may forward
    on, or back), each level awaited or not; only per-type handlers besides the forwards"""
    n = rng.randint(2, 3)
    depth = rng.choice([3, 4, 4, 5])
    order = ['A', 'B', 'C', 'D', 'E'][:depth]
    sc = {'buses': [{'parallel': False, 'maxh': 50, 'wal': False} for _ in range(n)],
          'types': {t: {'timeout': None} for t in 'ABCDE'}, 'handlers': [], 'tasks': []}
    for li, t in enumerate(order):
        prog = []
        if li < depth - 1:
            prog = [['dispatch', 0, order[li + 1], 0]]
            if rng.random() < 0.7:
                prog.append(['await', 0])
            if rng.random() < 0.3:
                prog.append(['sleep', 1 / 64])
        sc['handlers'].append({'bus': 0, 'key': t, 'kind': 'async', 'prog': prog})
        if rng.random() < 0.5:
            sc['handlers'].append({'bus': rng.randrange(1, n), 'key': t, 'kind': rng.choice(['async', 'sync']), 'prog': []})
    sc['handlers'].insert(rng.randrange(len(sc['handlers']) + 1), {'bus': 0, 'key': '*', 'kind': 'forward', 'target': 1, 'prog': []})
    if n == 3:
        sc['handlers'].append({'bus': rng.choice([0, 1]), 'key': '*', 'kind': 'forward', 'target': 2, 'prog': []})
    if rng.random() < 0.4:
        sc['handlers'].append({'bus': n - 1, 'key': '*', 'kind': 'forward', 'target': 0, 'prog': []})
    sc['tasks'].append([['dispatch', 0, 'A', 0], ['await', 0]])
    return sc


def gen_fwdfail(rng, **_):
    """a forwarding chain or ring of 2-4 buses ('*' forwards, registered after - sometimes before - the ordinary handlers of
    the bus), one or two of whose ordinary handlers fail: raise, let a CancelledError escape, return an exception object, or
    run into the event's timeout; several events enter at different buses"""
    n = rng.randint(2, 4)
    sc = {'buses': [{'parallel': rng.random() < 0.15, 'maxh': 50, 'wal': False} for _ in range(n)],
          'types': {t: {'timeout': None} for t in 'ABCD'}, 'handlers': [], 'tasks': []}
    ring = rng.random() < 0.5
    slow = rng.random() < 0.25
    if slow:
        sc['types']['A']['timeout'] = rng.choice([9 / 128, 33 / 128])
        for b_ in sc['buses']:
            b_['parallel'] = False          # (handler timeouts on parallel buses are outside the modelled envelope)
    nbad = rng.choice([1, 1, 2])
    badbus = [rng.randrange(n) for _ in range(nbad)]
    for b in range(n):
        hs = []
        for _ in range(rng.randint(0, 2)):
            hs.append({'bus': b, 'key': rng.choice(['A', 'A', '*']), 'kind': rng.choice(['async', 'async', 'sync']),
                       'prog': [['sleep', rng.choice([0, 1 / 64])]] if rng.random() < 0.4 else []})
            if hs[-1]['kind'] == 'sync':
                hs[-1]['prog'] = []
        for _ in range(badbus.count(b)):
            x = rng.random()
            kind = 'async' if x < 0.8 else 'sync'
            if slow and kind == 'async' and rng.random() < 0.5:
                prog = [['sleep', 3 / 4]]
            elif kind == 'sync':
                prog = [rng.choice([['raise'], ['return_exc']])]
            else:
                prog = ([['sleep', rng.choice([0, 1 / 64])]] if rng.random() < 0.5 else []) + \
                       [rng.choice([['raise'], ['raise'], ['raise_cancelled'], ['raise_cancelled'], ['return_exc']])]
            hs.insert(rng.randrange(len(hs) + 1), {'bus': b, 'key': rng.choice(['A', 'A', '*']), 'kind': kind, 'prog': prog})
        fwd = None
        if b < n - 1:
            fwd = {'bus': b, 'key': '*', 'kind': 'forward', 'target': b + 1, 'prog': []}
        elif ring:
            fwd = {'bus': b, 'key': '*', 'kind': 'forward', 'target': 0, 'prog': []}
        if fwd:
            if rng.random() < 0.8:
                hs.append(fwd)
            else:
                hs.insert(0, fwd)
        sc['handlers'] += hs
    main = []
    k = rng.randint(1, 3)
    for j in range(k):
        main.append(['dispatch', rng.randrange(n) if (ring or rng.random() < 0.3) else 0, 'A', j])
        if rng.random() < 0.5:
            main.append(['await', j])
    for b in range(n):
        if rng.random() < 0.5:
            main.append(['waitidle', b])
    sc['tasks'].append(main)
    return sc


def gen_evictgap(rng, **_):
    """a small history that is full of completed children of an event still in flight, while another task dispatches a run
    of events one loop iteration apart, timed to the moments at which a handler of the in-flight event finishes and the
    next one starts (or the event's processing ends)"""
    N = rng.choice([2, 3, 4, 5, 6])
    sc = {'buses': [{'parallel': rng.random() < 0.15, 'maxh': N, 'wal': False}],
          'types': {t: {'timeout': None} for t in 'ABCD'}, 'handlers': [], 'tasks': []}
    nkids = rng.randint(max(1, N - 2), N)
    d = rng.choice([1 / 64, 1 / 32])
    p1 = []
    for j in range(nkids):
        p1 += [['dispatch', 0, 'D', j]] + ([['await', j]] if rng.random() < 0.85 else [])
    p1.append(['sleep', d])
    hs = [{'bus': 0, 'key': 'A', 'kind': 'async', 'prog': p1}]
    for _ in range(rng.randint(1, 3)):
        hs.append({'bus': 0, 'key': rng.choice(['A', 'A', '*']), 'kind': rng.choice(['async', 'async', 'sync']), 'prog': []})
        if hs[-1]['kind'] == 'async' and rng.random() < 0.5:
            hs[-1]['prog'] = [['sleep', rng.choice([0, d])]]
    if rng.random() < 0.3:
        rng.shuffle(hs)
    sc['handlers'] += hs
    if rng.random() < 0.7:
        sc['handlers'].append({'bus': 0, 'key': 'D', 'kind': rng.choice(['async', 'sync']), 'prog': []})
    main = [['dispatch', 0, 'A', 0]]
    if rng.random() < 0.4:
        main.append(['dispatch', 0, 'A', 1])
    main.append(['await', 0])
    if rng.random() < 0.5:
        main.append(['waitidle', 0])
    sc['tasks'].append(main)
    tick = [['sleep', d * rng.choice([1, 1, 1, 2])]]
    for j in range(rng.randint(2, 6)):
        tick += [['dispatch', 0, rng.choice('BC'), j]] + [['sleep', 0]] * rng.choice([1, 1, 1, 2])
    sc['tasks'].append(tick)
    return sc


def gen_expects(rng, **_):
    """several tasks block in expect() on one bus at overlapping times - the same key or different keys, different filters and
    deadlines, some cancelled - while a stream of events of those types is dispatched: the calls begin and end in every order"""
    n = rng.choice([1, 1, 2])
    sc = {'buses': [{'parallel': rng.random() < 0.2, 'maxh': rng.choice([50, 50, 3]), 'wal': False} for _ in range(n)],
          'types': {t: {'timeout': None} for t in 'ABCD'}, 'handlers': [], 'tasks': []}
    keys = rng.choice([['A'], ['A', 'A', 'B'], ['A', '*'], ['A', 'B', '*']])
    for _ in range(rng.randint(0, 3)):
        sc['handlers'].append({'bus': 0, 'key': rng.choice(['A', 'B', '*']), 'kind': rng.choice(['async', 'sync']),
                               'prog': []})
        if sc['handlers'][-1]['kind'] == 'async' and rng.random() < 0.5:
            sc['handlers'][-1]['prog'] = [['sleep', rng.choice([0, 1 / 64, 3 / 64])]]
    # (a late first event lets the short deadlines expire while calls with longer ones on the same key are still pending)
    main = [['sleep', rng.choice([0, 1 / 64, 5 / 64, 9 / 64])]]
    for j in range(rng.randint(2, 6)):
        main.append(['dispatch', 0, rng.choice('AAB'), j])
        main.append(['sleep', rng.choice([0, 1 / 64, 2 / 64, 5 / 64])])
    sc['tasks'].append(main)
    for _ in range(rng.randint(2, 4)):
        t = [['sleep', rng.choice([0, 0, 1 / 64, 3 / 64])]]
        for _ in range(rng.randint(1, 2)):
            t.append(['expect', 0, rng.choice(keys), rng.choice([0, 0, 1, 2, 3, 4]),
                      rng.choice([None, 0, 5 / 128, 21 / 128, 67 / 128]), rng.choice([None, None, None, 3 / 128, 19 / 128])])
            if rng.random() < 0.4:
                t.append(['sleep', rng.choice([0, 1 / 64])])
        sc['tasks'].append(t)
    return sc


def gen_outbox(rng, **_):
    """event objects are built in one place and dispatched in another: a handler prepares follow-up events (an outbox) that
    ordinary code, or the handler of another event, dispatches later; ordinary code prepares events that a handler dispatches"""
    n = rng.choice([1, 1, 2])
    sc = {'buses': [{'parallel': rng.random() < 0.2, 'maxh': 50, 'wal': False} for _ in range(n)],
          'types': {t: {'timeout': None} for t in 'ABCD'}, 'handlers': [], 'tasks': []}
    kind = rng.choice(['async', 'async', 'sync'])
    pa = [['make', 'D', 'k0']]
    if rng.random() < 0.6:
        pa.append(['make', 'C', 'k1'])
    if rng.random() < 0.5:
        pa.append(['dispatch', rng.randrange(n), 'D', 0])
    if kind == 'async' and rng.random() < 0.4:
        pa.append(['sleep', rng.choice([0, 1 / 64])])
    if rng.random() < 0.3:
        pa.append(['dispatch_made', rng.randrange(n), 'k0'])          # built and dispatched by the same handler
    sc['handlers'].append({'bus': 0, 'key': 'A', 'kind': kind, 'prog': pa})
    # the handler of another event flushes (part of) the outbox, and whatever ordinary code prepared
    pb = [['dispatch_made', rng.randrange(n), rng.choice(['k1', 'k0', 'x0'])]]
    if rng.random() < 0.5:
        pb.append(['dispatch_made', rng.randrange(n), rng.choice(['k1', 'x0'])])
    sc['handlers'].append({'bus': rng.randrange(n), 'key': 'B', 'kind': rng.choice(['async', 'sync']), 'prog': pb})
    for t in 'CD':
        if rng.random() < 0.6:
            sc['handlers'].append({'bus': rng.randrange(n), 'key': t, 'kind': 'async', 'prog': [['sleep', rng.choice([0, 1 / 64])]]})
    main = [['make', 'C', 'x0']] if rng.random() < 0.5 else []
    main += [['dispatch', 0, 'A', 0], ['await', 0]]
    rest = [['dispatch_made', rng.randrange(n), 'k0', 1], ['dispatch', sc['handlers'][1]['bus'], 'B', 2], ['await', 2]]
    if rng.random() < 0.5:
        rest = [rest[1], rest[2], rest[0]]
    main += rest
    if rng.random() < 0.5:
        main.append(['await', 1])
    for b in range(n):
        if rng.random() < 0.5:
            main.append(['waitidle', b])
    sc['tasks'].append(main)
    return sc


def gen_retrychain(rng, **_):
    """one handler (a wildcard one, or one registered for every type) serves every level of a chain A -> B -> C -> D: it
    dispatches the event of the next level - fire-and-forget or awaited - and then fails (a retry that re-dispatches on
    failure) or succeeds; ordinary handlers beside it"""
    n = rng.choice([1, 1, 2])
    sc = {'buses': [{'parallel': rng.random() < 0.15, 'maxh': rng.choice([50, 50, None]), 'wal': False} for _ in range(n)],
          'types': {t: {'timeout': None} for t in 'ABCD'}, 'handlers': [], 'tasks': []}
    kind = rng.choice(['async', 'async', 'sync'])
    prog = [['dispatch_lower', 0, 0]]
    if kind == 'async' and rng.random() < 0.35:
        prog.append(['await', 0])
    if kind == 'async' and rng.random() < 0.3:
        prog.insert(0, ['sleep', rng.choice([0, 1 / 64])])
    x = rng.random()
    if x < 0.55:
        prog.append(['raise'])
    elif x < 0.65 and kind == 'async':
        prog.append(['raise_cancelled'])
    elif x < 0.75:
        prog.append(['raise_timeout'])
    if rng.random() < 0.7:
        sc['handlers'].append({'bus': 0, 'key': '*', 'kind': kind, 'prog': prog})
    else:
        sc['handlers'].append({'bus': 0, 'key': 'A', 'keys': ['A', 'B', 'C', 'D'], 'kind': kind, 'prog': prog})
    for _ in range(rng.randint(0, 2)):
        sc['handlers'].append({'bus': 0, 'key': rng.choice('ABCD'), 'kind': 'async', 'prog': [['sleep', rng.choice([0, 1 / 64])]]})
    if n == 2 and rng.random() < 0.5:
        sc['handlers'].append({'bus': 0, 'key': '*', 'kind': 'forward', 'target': 1, 'prog': []})
    main = [['dispatch', 0, rng.choice('AAB'), 0]]
    if rng.random() < 0.6:
        main.append(['await', 0])
    main.append(['waitidle', 0])
    if rng.random() < 0.4:
        main += [['dispatch', 0, 'A', 1], ['waitidle', 0]]
    sc['tasks'].append(main)
    return sc


def gen_fanin(rng, **_):
    """several buses forward everything to one hub (an audit bus) with a short history; bursts of events are dispatched to the
    sources without awaiting, so that the hub's queue fills up far beyond its history size (but below the queue limit)"""
    k = rng.choice([2, 3, 3])
    hub = k
    sc = {'buses': [{'parallel': False, 'maxh': rng.choice([50, 50, None, 20]), 'wal': False} for _ in range(k)] +
                   [{'parallel': rng.random() < 0.15, 'maxh': rng.choice([2, 3, 5, 10, 10, 50]), 'wal': False}],
          'types': {t: {'timeout': None} for t in 'ABCD'}, 'handlers': [], 'tasks': []}
    for b in range(k):
        if rng.random() < 0.7:
            sc['handlers'].append({'bus': b, 'key': rng.choice(['A', '*']), 'kind': rng.choice(['async', 'sync']), 'prog': []})
        sc['handlers'].append({'bus': b, 'key': '*', 'kind': 'forward', 'target': hub, 'prog': []})
    sc['handlers'].append({'bus': hub, 'key': '*', 'kind': rng.choice(['async', 'sync']), 'prog': []})
    if rng.random() < 0.3:
        sc['handlers'].append({'bus': hub, 'key': 'A', 'kind': 'async', 'prog': [['sleep', rng.choice([0, 1 / 64])]]})
    m = rng.randint(3, 8)
    main = []
    slot = 0
    order = [b for b in range(k) for _ in range(m)]
    if rng.random() < 0.5:
        rng.shuffle(order)
    for b in order:
        main.append(['dispatch', b, 'A', slot])
        slot += 1
    for b in range(k + 1):
        main.append(['waitidle', b])
    if rng.random() < 0.5:
        main.append(['await', rng.randrange(slot)])
    sc['tasks'].append(main)
    return sc


def gen_cleanup(rng, **_):
    """a handler that overruns its event's timeout and whose cleanup code (run while the cancellation is delivered) reports the
    abort with an event of its own - dispatched, and mostly awaited, from inside the `finally`; other handlers of the event and
    later events are queued behind it. There is exactly one timeout in the scenario (a second cancellation arriving inside the
    cleanup's await is outside the modelled envelope)"""
    n = rng.choice([1, 1, 2])
    sc = {'buses': [{'parallel': False, 'maxh': 50, 'wal': False} for _ in range(n)],
          'types': {t: {'timeout': 'none'} for t in 'ABCD'}, 'handlers': [], 'tasks': []}
    sc['types']['A']['timeout'] = rng.choice([9 / 128, 33 / 128])
    slow = {'bus': 0, 'key': 'A', 'kind': 'async', 'prog': [['sleep', 3 / 4]],
            'cleanup_event': [rng.randrange(n), 'D', rng.random() < 0.8]}
    if rng.random() < 0.4:
        slow['prog'].insert(0, ['dispatch', rng.randrange(n), 'C', 0])
    if rng.random() < 0.3:
        slow['cleanup'] = 1 / 64
    hs = [slow]
    for _ in range(rng.randint(0, 2)):
        hs.append({'bus': 0, 'key': rng.choice(['A', '*']), 'kind': rng.choice(['async', 'sync']), 'prog': []})
    if rng.random() < 0.3:
        rng.shuffle(hs)
    sc['handlers'] += hs
    for t in 'CD':
        if rng.random() < 0.7:
            sc['handlers'].append({'bus': rng.randrange(n), 'key': t, 'kind': 'async', 'prog': [['sleep', rng.choice([0, 1 / 64])]]})
    main = [['dispatch', 0, 'A', 0]]
    if rng.random() < 0.6:
        main.append(['dispatch', 0, rng.choice('BC'), 1])
    main.append(['await', 0])
    for b in range(n):
        if rng.random() < 0.5:
            main.append(['waitidle', b])
    sc['tasks'].append(main)
    return sc


def gen_idle(rng, **_):
    """wait_until_idle() racing a sequential producer (`await bus.dispatch(...)` in a loop) at every phase offset,
    counted in zero-sleeps, plus external bursts: the re-check loop of wait_until_idle is exercised"""
    n = rng.randint(1, 2)
    sc = {'buses': [{'parallel': rng.random() < 0.2, 'maxh': rng.choice([50, 50, None, 3]), 'wal': False} for _ in range(n)],
          'types': {t: {'timeout': None} for t in RANK}, 'handlers': [], 'tasks': []}
    for _ in range(rng.randint(0, 3)):
        kind = rng.choice(['sync', 'async', 'async'])
        prog = [] if kind == 'sync' else [['sleep', rng.choice([0, 0, 1 / 64])] for _ in range(rng.randint(0, 2))]
        key = rng.choice(['A', 'B', '*'])
        if key != '*' and rng.random() < 0.3:       # a wildcard handler that dispatches would never terminate
            prog.append(['dispatch', rng.randrange(n), 'D', 0])
        sc['handlers'].append({'bus': rng.randrange(n), 'key': key, 'kind': kind, 'prog': prog})
    target = rng.randrange(n)
    producer = []
    for i in range(rng.randint(2, 7)):
        producer.append(['dispatch', target, rng.choice('AB'), i])
        if rng.random() < 0.8:
            producer.append(['await', i])
        for _ in range(rng.choice([0, 0, 1, 2])):
            producer.append(['sleep', 0])
    sc['tasks'].append(producer)
    for _ in range(rng.randint(1, 2)):
        waiter = [['sleep', 0] for _ in range(rng.randint(0, 12))]
        waiter.append(['waitidle', target])
        if rng.random() < 0.4:
            waiter += [['sleep', 0] for _ in range(rng.randint(0, 3))] + [['waitidle', target]]
        sc['tasks'].append(waiter)
    return sc


def gen_parcancel(rng):
    """the run-loop task of a parallel_handlers bus is cancelled (as asyncio.run() does at exit) while several handlers of one
    event are mid-flight. What becomes of the orphaned sibling handler tasks is outside the model: the history is followed up
    to the cancellation and then only the termination of the run-loop task is observed"""
    sc = {'buses': [{'parallel': True, 'maxh': 50, 'wal': False}],
          'types': {t: {'timeout': None} for t in RANK}, 'handlers': [], 'tasks': []}
    for _ in range(rng.randint(2, 4)):
        sc['handlers'].append({'bus': 0, 'key': rng.choice(['A', 'A', '*']), 'kind': 'async',
                               'prog': [['sleep', rng.choice([8 / 64, 16 / 64, 24 / 64])]]})
    sc['handlers'].append({'bus': 0, 'key': 'A', 'kind': 'async', 'prog': [['sleep', 16 / 64]]})
    main = [['dispatch', 0, 'A', i] for i in range(rng.randint(1, 3))]
    main.append(['sleep', rng.choice([1 / 64, 4 / 64, 7 / 64])])
    main.append(['cancelrl', 0, 'observe'])
    sc['tasks'].append(main)
    return sc


def gen_stop(rng, p_cancel=0.3, p_wal=0.0, **_):
    if rng.random() < 0.06 and not p_wal:
        return gen_parcancel(rng)
    """bus 0 is stopped (or its run-loop task cancelled) at a random moment while idle / with a backlog / with a
    handler mid-flight; only the main task dispatches to bus 0 and only before the stop (dispatching to a bus during or
    after stop() is outside the modelled envelope); other buses have awaiting handlers that may drain bus 0's queue"""
    n = rng.randint(1, 3)
    sc = {'buses': [{'parallel': rng.random() < 0.2, 'maxh': rng.choice([50, 50, None, 4]), 'wal': rng.random() < p_wal} for _ in range(n)],
          'types': {t: {'timeout': None} for t in RANK}, 'handlers': [], 'tasks': []}
    sc['buses'][0]['parallel'] = False   # cancelling a parallel activation orphans its sibling handler tasks: not modelled
    others = list(range(1, n))
    for _ in range(rng.randint(1, 3)):
        ty = rng.choice('AB')
        prog = []
        for _ in range(rng.randint(0, 3)):
            r = rng.random()
            if r < 0.5:
                prog.append(['sleep', rng.choice(SLEEPS)])
            elif others and r < 0.8:
                prog.append(['dispatch', rng.choice(others), rng.choice('CD'), len(prog)])
        kind = rng.choice(['async', 'async', 'sync'])
        if kind == 'sync':
            prog = [p for p in prog if p[0] != 'sleep']
        sc['handlers'].append({'bus': 0, 'key': rng.choice([ty, ty, '*']), 'kind': kind, 'prog': prog})
        if kind == 'async' and rng.random() < 0.15:
            sc['handlers'][-1]['cleanup'] = rng.choice([1 / 64, 9 / 64, 17 / 64])
    inline = rng.random() < 0.3
    if inline:
        # the first handler of the first event dispatched to bus 0 dispatches a child at once (before the stop begins) and awaits
        # it; the child has several slow handlers, so that the stop can arrive while the first of them runs inside the await
        cb = rng.choice([0] + others)
        ct = rng.choice('CD')
        for b_ in sc['buses']:
            b_['parallel'] = False                # (as for bus 0: an orphaned parallel activation is not modelled, and the
                                                  #  awaiting handler may be processing an event of any bus when the stop arrives)
        for h in sc['handlers']:
            if h['key'] == 'A':
                h['key'] = 'B'
        sc['handlers'].insert(0, {'bus': 0, 'key': 'A', 'kind': 'async',
                                  'prog': [['dispatch', cb, ct, 0], ['await', 0], ['sleep', rng.choice([0, 1 / 64])]]})
        for j in range(rng.choice([2, 2, 3])):
            sc['handlers'].append({'bus': cb, 'key': ct, 'kind': 'async', 'prog': [['sleep', rng.choice([1 / 64, 3 / 64, 9 / 64])]]})
    for b in others:
        for _ in range(rng.randint(0, 2)):
            if rng.random() < 0.6:
                sc['handlers'].append({'bus': b, 'key': 'C', 'kind': 'async',
                                       'prog': [['sleep', rng.choice(SLEEPS)], ['dispatch', rng.choice(others), 'D', 0], ['sleep', rng.choice(SLEEPS)], ['await', 0]]})
            else:
                sc['handlers'].append({'bus': b, 'key': rng.choice('CD'), 'kind': 'async', 'prog': [['sleep', rng.choice(SLEEPS)]]})
    main = []
    for i in range(rng.randint(0, 6)):
        main.append(['dispatch', 0, rng.choice('AB'), i])
        if rng.random() < 0.2:
            main.append(['sleep', rng.choice([0, 1 / 64, 4 / 64])])
    if inline:
        main = [['dispatch', 0, 'A', 0]] + [[op[0], op[1], 'B', op[3] + 1] if op[0] == 'dispatch' else op for op in main]
    if others and rng.random() < 0.6:
        main.append(['dispatch', rng.choice(others), 'C', 10])
    main.append(['sleep', rng.choice([0, 0, 1 / 64, 3 / 64, 9 / 64, 40 / 64]) if not inline else rng.choice([1 / 64, 2 / 64, 3 / 64, 5 / 64, 9 / 64])])
    cancelled = rng.random() < p_cancel
    if cancelled:
        if rng.random() < 0.25 and not inline:
            main.pop()                      # no suspension since the dispatches: the run-loop task is cancelled before its first step
        main.append(['cancelrl', 0])
    else:
        main.append(['stop', 0, rng.random() < 0.2])
    main.append(['sleep', rng.choice([0, 10 / 64, 40 / 64])])
    if cancelled and rng.random() < 0.4:
        # the bus is used again after its run-loop task was cancelled (and has had time to finish): a new run loop starts
        main[-1] = ['sleep', rng.choice([10 / 64, 40 / 64])]
        main += [['dispatch', 0, rng.choice('AB'), 20], ['sleep', 4 / 64]]
    if others and rng.random() < 0.5:
        main.append(['dispatch', rng.choice(others), 'C', 11])
        if rng.random() < 0.5:
            main.append(['await', 11])
    sc['tasks'].append(main)
    if others and rng.random() < 0.5:
        sc['tasks'].append([['sleep', rng.choice([1 / 64, 5 / 64, 20 / 64])], ['dispatch', rng.choice(others), 'C', 0]])
    return sc


def features(sc):
    """coarse feature vector of a scenario, for the evidence files"""
    f = {'buses': len(sc['buses']), 'parallel': sum(1 for b in sc['buses'] if b.get('parallel')),
         'small_hist': sum(1 for b in sc['buses'] if b.get('maxh') not in (None, 50)),
         'handlers': len(sc['handlers']),
         'forward': sum(1 for h in sc['handlers'] if h['kind'] == 'forward'),
         'sync': sum(1 for h in sc['handlers'] if h['kind'] == 'sync'),
         'wild': sum(1 for h in sc['handlers'] if h['key'] == '*'),
         'awaits': sum(1 for h in sc['handlers'] for i in h['prog'] if i[0] == 'await'),
         'timeouts': sum(1 for t in sc['types'].values() if t.get('timeout')),
         'tasks': len(sc['tasks'])}
    return f
