"""C19 / C20: the @retry decorator (bubus/helpers.py) against the sibling model lean/Bubus/Model/Retry.lean.

C19: generated (retries, wait, backoff, timeout, retry_on, per-attempt outcomes) cases are run on the real decorator
     under the virtual clock; call count, the waits between attempts (exactly) and the final outcome (by exception
     identity) must equal what the Lean `retryLoop` computes for the same inputs.
C20: generated caller populations (limit, scope, lax, acquisition timeout, durations, failures, cancellations, two
     successive event loops) are run on the real decorator with a traced asyncio.Semaphore; the label stream
     (call / acquired / acqTimeout / bodyStart / bodyEnd / finish) must be accepted by the Lean bookkeeping model,
     whose monitors check the limit and the slot accounting; the real semaphore value must equal the model's.
"""
import asyncio
import json
import os
import random
import sys
import time
from collections import Counter

HERE = os.path.dirname(os.path.abspath(__file__))
sys.path.insert(0, HERE)
REPO = os.environ.get('BUBUS_REPO', '/repo')
if REPO not in sys.path:
    sys.path.insert(0, REPO)

import evid  # noqa: E402
import pool  # noqa: E402


# ------------------------------------------------------------------------------------------------ real runs (worker side)
def _setup():
    import logging
    import warnings
    warnings.simplefilter('ignore')
    logging.disable(logging.CRITICAL)
    import bubus.helpers as hlp
    hlp._check_system_overload_if_needed = lambda: None
    return hlp


class ListedErr(Exception):
    pass


class UnlistedErr(Exception):
    pass


class BareTimeout(TimeoutError):
    """raised without arguments by the wrapped function itself"""


def run_c19(case):
    """returns observation dict"""
    from vloop import VLoop
    hlp = _setup()
    retry_on = {None: None, 'L': (ListedErr,), 'LT': (ListedErr, TimeoutError), 'E': ()}[case['retry_on']]
    atts = case['atts']
    obs = {'starts': [], 'ends': [], 'raised': {}}
    caller = {}

    # the semaphore side of the decorator must not change what the retry loop delivers: without a semaphore, with a
    # free slot, and in lax mode after the acquisition timed out because another call holds the only slot
    sem = case.get('sem')
    semkw = {}
    if sem:
        semkw = dict(semaphore_limit=1, semaphore_name=f"c19_{id(obs)}", semaphore_lax=True, semaphore_timeout=0.25)

    @hlp.retry(wait=0, retries=0, timeout=100000, **semkw)
    async def holder():
        await asyncio.sleep(50000)

    @hlp.retry(wait=case['wait'], retries=case['retries'], timeout=case['timeout'], retry_on=retry_on,
               backoff_factor=case['bf'], **semkw)
    async def work():
        k = len(obs['starts'])
        loop = asyncio.get_event_loop()
        obs['starts'].append(loop.time())
        kind, dur = atts[k] if k < len(atts) else ('ok', 0)
        if kind == 'C':
            loop.call_later(min(dur, 1 / 128), caller['task'].cancel)
        try:
            if kind == 'O':
                await asyncio.sleep(case['timeout'] + 0.25)
            elif dur:
                await asyncio.sleep(dur)
            elif kind == 'C':
                await asyncio.sleep(1)
        finally:
            obs['ends'].append(loop.time())
        if kind == 'ok':
            return k
        if kind == 'L':
            e = ListedErr(k)
            obs['raised'][k] = e
            raise e
        if kind == 'U':
            e = UnlistedErr(k)
            obs['raised'][k] = e
            raise e
        if kind == 'B':
            # the function's own timeout: a TimeoutError (subclass) without arguments, as an inner wait_for / asyncio.timeout
            # raises it - an exception of the function like any other, not a cut-off of the attempt
            e = BareTimeout()
            obs['raised'][k] = e
            raise e
        return k

    async def main():
        caller['task'] = asyncio.current_task()
        if sem == 'held':
            ht = asyncio.ensure_future(holder())
            await asyncio.sleep(0)
            await asyncio.sleep(0)
            try:
                return await main2()
            finally:
                ht.cancel()
        return await main2()

    async def main2():
        wc = case.get('wait_cancel')
        if wc is not None:
            # cancel the caller in the middle of the backoff wait that follows attempt number wc
            async def canceller():
                while len(obs['ends']) <= wc:
                    await asyncio.sleep(1 / 256)
                await asyncio.sleep(case['wait'] * (case['bf'] ** wc) / 2)
                caller['task'].cancel()
            asyncio.ensure_future(canceller())
        try:
            v = await work()
            return ('ret', v)
        except asyncio.CancelledError:
            return ('cancelled', None)
        except (ListedErr, UnlistedErr, BareTimeout) as e:
            idx = next((k for k, x in obs['raised'].items() if x is e), None)
            return ('raised', idx)
        except TimeoutError as e:
            return ('timeout', None)
        except BaseException as e:  # noqa: BLE001
            return ('other', type(e).__name__)

    loop = VLoop()
    asyncio.set_event_loop(loop)
    try:
        final = loop.run_until_complete(main())
    finally:
        try:
            loop.close()
        except BaseException:
            pass
        asyncio.set_event_loop(None)
    waits = [obs['starts'][k + 1] - obs['ends'][k] for k in range(len(obs['starts']) - 1)]
    return {'calls': len(obs['starts']), 'waits': waits, 'final': final}


def gen_c19(rng):
    retries = rng.randint(0, 4)
    timeout = rng.choice([0.25, 0.5, 1.0])
    wait = rng.choice([0, 1 / 64, 1 / 16, 1 / 4, 1 / 2, 1.0])
    bf = rng.choice([1.0, 1.0, 2.0, 1.5, 0.5])
    retry_on = rng.choice([None, 'L', 'LT', None, 'L', 'LT', 'E'])    # 'E': the empty tuple - nothing is listed
    atts = []
    for k in range(retries + 2):
        kinds = ['ok', 'L', 'L', 'L', 'O', 'O', 'B']
        if retry_on is not None:
            kinds += ['U']
        if rng.random() < 0.06:
            kinds = ['C']
        kind = rng.choice(kinds)
        dur = rng.choice([0, 0, 1 / 64, timeout - 1 / 64, timeout - 1 / 8, timeout / 2])
        atts.append((kind, dur))
    case = {'retries': retries, 'timeout': timeout, 'wait': wait, 'bf': bf, 'retry_on': retry_on, 'atts': atts,
            'sem': rng.choice([None, None, 'free', 'held'])}
    if rng.random() < 0.08 and wait > 0:
        case['wait_cancel'] = rng.randint(0, retries)
    return case


def model_line_c19(i, case):
    def tok(a):
        kind = a[0]
        if kind == 'L' and case['retry_on'] == 'E':
            return 'U0'         # with an empty retry_on no exception type is listed
        if kind == 'B':
            # a TimeoutError of the function's own is retried when every exception is (retry_on None) or TimeoutError is listed
            return 'L0' if case['retry_on'] in (None, 'LT') else 'U0'
        return {'ok': 'ok0', 'L': 'L0', 'U': 'U0', 'O': 'O', 'C': 'C'}[kind]
    toks = []
    for k, a in enumerate(case['atts']):
        t = tok(a)
        if t.endswith('0') and t != 'O':
            t = t[:-1] + str(k)
        toks.append(t)
    tl = 1 if case['retry_on'] in (None, 'LT') else 0
    return f"T retry {i} {case['retries']} {tl} {','.join(toks) or '-'}"


def _c19_job(job):
    i, case = job
    try:
        return i, run_c19(case), None
    except BaseException as e:  # noqa: BLE001
        return i, None, f'{type(e).__name__}: {e}'


def compare_c19(case, real, mline):
    """mline: 'TR i calls=.. waits=.. final=..' → list of mismatch strings"""
    f = dict(x.split('=') for x in mline.split()[2:])
    mcalls = int(f['calls'])
    mwaits = [] if f['waits'] == '-' else [int(x) for x in f['waits'].split(',')]
    mfinal = f['final']
    wc = case.get('wait_cancel')
    bad = []
    if wc is not None:
        # cancellation during the wait after attempt wc: only meaningful if the model says that wait happens
        if wc < len(mwaits):
            if real['final'][0] != 'cancelled':
                bad.append(f"cancelled during the backoff wait after attempt {wc} but the call ended with {real['final']}")
            if real['calls'] != wc + 1:
                bad.append(f"cancelled during the backoff wait after attempt {wc}: {real['calls']} calls, expected {wc + 1}")
            return bad
    if real['calls'] != mcalls:
        bad.append(f"calls: real {real['calls']}, model {mcalls}")
    rf = real['final']
    want = {'ret': 'ret', 'raised': 'raised', 'timeout': 'timeout', 'cancelled': 'cancelled'}.get(rf[0], rf[0])
    got = want + ('' if rf[1] is None else str(rf[1]))
    if got != mfinal:
        bad.append(f'final: real {got}, model {mfinal}')
    exp = [case['wait'] * (case['bf'] ** k) for k in mwaits]
    if len(exp) == len(real['waits']):
        for k, (a, b) in enumerate(zip(real['waits'], exp)):
            if abs(a - b) > 1e-9:
                bad.append(f'wait before attempt {k + 2}: real {a}, promised wait*backoff**{mwaits[k]} = {b}')
    elif not bad:
        bad.append(f"number of waits: real {len(real['waits'])}, model {len(exp)}")
    if real['calls'] > case['retries'] + 1:
        bad.append(f"called {real['calls']} times with retries={case['retries']}")
    return bad


# ------------------------------------------------------------------------------------------------ C20
def run_c20(case):
    from vloop import VLoop
    hlp = _setup()
    log = []
    real_sem = asyncio.locks.Semaphore

    class TSem(real_sem):
        async def acquire(self):
            r = await super().acquire()
            key = next((k for k, v in hlp.GLOBAL_RETRY_SEMAPHORES.items() if v is self), '?')
            c = who()
            log.append(('acquired', key, c))
            ACQ.add(c)
            return r

        def release(self):
            key = next((k for k, v in hlp.GLOBAL_RETRY_SEMAPHORES.items() if v is self), '?')
            c = who()
            REL.add(c)
            super().release()

    CUR, ACQ, REL = {}, set(), set()
    import contextvars
    CURV = contextvars.ContextVar('verif_c20_caller', default=-1)

    def who():
        # the caller on whose behalf the current task works: the caller's own task, or a helper task the caller created
        # (a task inherits a copy of its creator's context) - an acquisition made through a helper task is the caller's
        c = CUR.get(asyncio.current_task())
        return CURV.get() if c is None else c
    hlp.GLOBAL_RETRY_SEMAPHORES.clear()
    if hasattr(hlp, 'GLOBAL_RETRY_SEMAPHORE_LOOPS'):
        hlp.GLOBAL_RETRY_SEMAPHORE_LOOPS.clear()
    asyncio.Semaphore = TSem
    L = case['L']
    out_phases = []
    try:
        cid = [0]
        for phase in case['phases']:
            callers = phase['callers']

            class Owner:
                pass
            OwnerA = type('OwnerA', (Owner,), {})
            OwnerB = type('OwnerB', (Owner,), {})
            owners = [OwnerA(), OwnerA(), OwnerB()]

            def mk(scope):
                @hlp.retry(wait=1 / 64, retries=case['retries'], timeout=case['timeout'], semaphore_limit=L,
                           semaphore_name=case['name'], semaphore_lax=case['lax'], semaphore_scope=scope,
                           semaphore_timeout=case['semto'])
                async def work(owner, c, spec):
                    log.append(('bodyStart', KEY[c], c, asyncio.get_event_loop().time()))
                    try:
                        await asyncio.sleep(spec['dur'])
                        if spec['fail']:
                            raise ValueError('fail')
                        return 1
                    finally:
                        log.append(('bodyEnd', KEY[c], c))
                return work
            work = mk(case['scope'])
            KEY = {}

            async def call(c, spec):
                await asyncio.sleep(spec['start'])
                CUR[asyncio.current_task()] = c
                CURV.set(c)
                owner = owners[spec['owner']]
                key = _semkey(hlp, getattr(work, '__wrapped__', work), case['name'], case['scope'], (owner, c, spec))
                KEY[c] = key
                log.append(('call', key, c, int(case['lax']), asyncio.get_event_loop().time()))
                res = 'ok'
                try:
                    await work(owner, c, spec)
                except TimeoutError as e:
                    res = 'semtimeout' if 'semaphore' in str(e) else 'timeout'
                except ValueError:
                    res = 'fail'
                except asyncio.CancelledError:
                    res = 'cancelled'
                except BaseException as e:  # noqa: BLE001
                    res = 'error:' + type(e).__name__
                log.append(('end', key, c, res, int(c in REL), asyncio.get_event_loop().time()))
                return res

            async def main():
                base = cid[0]
                tasks = []
                for j, spec in enumerate(callers):
                    tasks.append(asyncio.ensure_future(call(base + j, spec)))
                cid[0] += len(callers)
                loop = asyncio.get_event_loop()
                for t, spec in zip(tasks, callers):
                    if spec['cancel'] is not None:
                        loop.call_later(spec['start'] + spec['cancel'], t.cancel)
                res = await asyncio.gather(*tasks, return_exceptions=True)
                vals = {k: (v._value, len([w for w in (v._waiters or []) if not w.done()])) for k, v in hlp.GLOBAL_RETRY_SEMAPHORES.items()}
                log.append(('phaseEnd', vals))
                return res
            loop = VLoop()
            asyncio.set_event_loop(loop)
            try:
                out_phases.append([str(x) for x in loop.run_until_complete(main())])
            finally:
                try:
                    loop.close()
                except BaseException:
                    pass
                asyncio.set_event_loop(None)
    finally:
        asyncio.Semaphore = real_sem
    return {'log': log, 'results': out_phases}


def gen_c20(rng):
    L = rng.randint(1, 3)
    case = {'L': L, 'lax': rng.random() < 0.5, 'semto': rng.choice([None, 0.25, 1.0, 3.0]), 'timeout': rng.choice([0.25, 0.5, 2.0]),
            'retries': rng.randint(0, 1), 'scope': rng.choice(['global', 'global', 'class', 'self']), 'name': f's{rng.randrange(10**6)}', 'phases': []}
    for ph in range(rng.choice([1, 1, 2])):
        callers = []
        for _ in range(rng.randint(2, 6)):
            callers.append({'start': rng.choice([0, 0, 1 / 16, 1 / 8]), 'dur': rng.choice([1 / 16, 1 / 4, 1.0]), 'fail': rng.random() < 0.2,
                            'cancel': rng.choice([None, None, None, 0.1, 0.3]), 'owner': rng.randrange(3)})
        case['phases'].append({'callers': callers})
    return case


def translate_c20(sid, case, real):
    """label lines for the Lean bookkeeping model"""
    lines = [f'#scenario {sid}']
    seen = set()
    state = {}       # c -> 'waiting' | 'holding' | 'lax' | 'done'
    L = case['L']
    for rec in real['log']:
        k = rec[0]
        if k == 'phaseEnd':
            for key, (val, nw) in rec[1].items():
                if key in seen:
                    lines.append(f'T semValue {key} {val}')
            # a new event loop starts with fresh semaphores
            seen = set()
            continue
        key, c = rec[1], rec[2]
        if key not in seen:
            seen.add(key)
            lines.append(f'T semInit {key} {L}')
        if k == 'call':
            state[c] = 'waiting'
            lines.append(f'T sem {key} call {c} {rec[3]}')
        elif k == 'acquired':
            state[c] = 'holding'
            lines.append(f'T sem {key} acquired {c}')
        elif k == 'bodyStart':
            if state.get(c) == 'waiting':
                state[c] = 'lax'
                lines.append(f'T sem {key} acqTimeout {c}')
            lines.append(f'T sem {key} bodyStart {c}')
        elif k == 'bodyEnd':
            lines.append(f'T sem {key} bodyEnd {c}')
        elif k == 'end':
            res, released = rec[3], rec[4]
            if state.get(c) == 'waiting':
                if res in ('semtimeout', 'timeout'):
                    # a TimeoutError for a caller that never got a slot and never entered the function is the acquisition
                    # timeout, whatever its message says
                    lines.append(f'T sem {key} acqTimeout {c}')
                    if case['lax']:
                        lines.append(f'T semNote laxCallerGotTimeoutError {c}')
                elif res == 'cancelled':
                    lines.append(f'T sem {key} cancelWaiting {c}')
                else:
                    lines.append(f'T semUnexpected {key} {c} {res}')
            else:
                if res.startswith('error'):
                    lines.append(f'T semUnexpected {key} {c} {res}')
                lines.append(f'T sem {key} finish {c} {released}')
            state[c] = 'done'
    return lines


def _c20_job(job):
    i, case = job
    try:
        return i, run_c20(case), None
    except BaseException as e:  # noqa: BLE001
        import traceback
        return i, None, f'{type(e).__name__}: {e} {traceback.format_exc()[-400:]}'


def semkey_cases(rng, n):
    out = []
    for i in range(n):
        scope = rng.choice(['global', 'class', 'self', 'multiprocess'])
        out.append({'scope': scope, 'name': rng.randrange(5), 'hasArgs': rng.random() < 0.8, 'cls': rng.randrange(3), 'inst': rng.randrange(4)})
    return out


def _semkey(hlp, func, name, scope, args):
    """`_get_semaphore_key` for the decorated function `func` (the library takes the function's name; should it take the
    function itself, hand that over)"""
    try:
        return hlp._get_semaphore_key(func.__name__, name, scope, args)
    except (AttributeError, TypeError):
        return hlp._get_semaphore_key(func, name, scope, args)


def check_semkeys(cases):
    """pure differential of `_get_semaphore_key` against the model's `semKey`: equal keys iff equal model keys"""
    hlp = _setup()

    class KBase:
        def f(self):            # the decorated method is written once, in a base class, and inherited
            return None
    classes = [type(f'K{i}', (KBase,), {}) for i in range(3)]
    insts = [[cls() for _ in range(4)] for cls in classes]
    lines = []
    real = []
    for i, c in enumerate(cases):
        args = (insts[c['cls']][c['inst']],) if c['hasArgs'] else ()
        real.append(_semkey(hlp, KBase.f, f"n{c['name']}", c['scope'], args))
        lines.append(f"T semkey {i} {c['scope']} {c['name']} {int(c['hasArgs'])} {c['cls']} {c['cls'] * 10 + c['inst']}")
    out = [l for l in evid.drive(lines) if l.startswith('TK ')]
    model = [l.split()[2] for l in out]
    bad = []
    for i in range(len(cases)):
        for j in range(i):
            if (real[i] == real[j]) != (model[i] == model[j]):
                bad.append((cases[i], cases[j], real[i], real[j], model[i], model[j]))
    return bad


# ------------------------------------------------------------------------------------------------ decide
def decide(prop, tier, seed, gate, my_thms, known, t0, replay):
    import multiprocessing as mp
    n = {'quick': 1500, 'thorough': 30000}[tier] if prop == 'C19' else {'quick': 500, 'thorough': 10000}[tier]
    rng = random.Random(f'{prop}:{seed}')
    ctx = mp.get_context('fork')
    violations = []
    diverged = []
    stats = Counter()
    samples = []
    distinct = set()
    if prop == 'C19':
        cases = [json.load(open(replay))['case']] if replay else [gen_c19(rng) for _ in range(n)]
        with ctx.Pool(pool.NPROC, maxtasksperchild=500) as p:
            res = p.map(_c19_job, list(enumerate(cases)), chunksize=50)
        out = {int(l.split()[1]): l for l in evid.drive([model_line_c19(i, c) for i, c in enumerate(cases)]) if l.startswith('TR ')}
        for (i, real, err), case in zip(res, cases):
            if err:
                stats['harness_error'] += 1
                diverged.append((case, [err]))
                continue
            bad = compare_c19(case, real, out[i])
            stats['final_' + real['final'][0]] += 1
            stats[f'calls_{real["calls"]}'] += 1
            key = (case['retries'], case['retry_on'], tuple(a[0] for a in case['atts'][:real['calls']]), case.get('wait_cancel'))
            if real['calls'] >= 2:
                distinct.add(key)
            if bad:
                violations.append((case, bad, real, out[i]))
        if cases:
            samples.append({'case': cases[0], 'model': out.get(0)})
        rule = ('random (retries 0-4, wait, backoff in {1,2,1.5,0.5}, timeout, retry_on in {None, (Listed,), (Listed, TimeoutError), ()}) x per-attempt '
                'outcomes (ok / listed / unlisted / overrun / cancelled, durations up to just below the timeout) + cancellation during a backoff wait; '
                'non-trivial: at least two calls; distinct: (retries, retry_on, outcome prefix)')
        nval = len(cases) - len(violations) - len(diverged)
    else:
        cases = [json.load(open(replay))['case']] if replay else [gen_c20(rng) for _ in range(n)]
        with ctx.Pool(pool.NPROC, maxtasksperchild=200) as p:
            res = p.map(_c20_job, list(enumerate(cases)), chunksize=20)
        lines = []
        for (i, real, err), case in zip(res, cases):
            if err:
                stats['harness_error'] += 1
                diverged.append((case, [err]))
                continue
            lines += translate_c20(i, case, real)
        outl = evid.drive(lines)
        rej = {}
        vio = {}
        for l in outl:
            p = l.split(' ', 3)
            if p[0] in ('REJ', 'OBS'):
                rej.setdefault(int(p[1]), []).append(l)
            elif p[0] == 'VIO':
                vio.setdefault(int(p[1]), []).append(l)
            elif p[0] == 'COV':
                stats[p[1]] += int(p[2])
        # the property's own clauses on the real values, independent of the model: when every caller of an event loop has
        # finished, each semaphore is back at its limit (every acquired slot released exactly once, nothing acquired by a
        # task that is no caller)
        own = {}
        for (i, real, err), case in zip(res, cases):
            if err or not real:
                continue
            # an acquisition timeout is the expiry of the documented waiting time (semaphore_timeout; by default the time the
            # other slots' holders can take, at least one attempt timeout): a caller that runs without a slot (lax) or is
            # refused with TimeoutError has waited that long, counted from its call
            t_acq = (case['semto'] if case['semto'] else 0.01) if case['semto'] is not None else max(case['timeout'], case['timeout'] * (case['L'] - 1))
            t_call, waiting = {}, set()
            for rec in real['log']:
                if rec[0] == 'call':
                    t_call[rec[2]] = rec[4]
                    waiting.add(rec[2])
                elif rec[0] == 'acquired':
                    waiting.discard(rec[2])
                elif rec[0] in ('bodyStart', 'end') and rec[2] in waiting:
                    waiting.discard(rec[2])
                    gave_up = rec[0] == 'bodyStart' or rec[3] in ('semtimeout', 'timeout')
                    waited = rec[-1] - t_call[rec[2]]
                    if gave_up and waited < t_acq - 1e-9:
                        own.setdefault(i, []).append(f'semaphore {rec[1]}: caller {rec[2]} ' + ('ran without a slot' if rec[0] == 'bodyStart' else 'was refused with TimeoutError') +
                                                     f' after waiting {waited} s for one; the acquisition timeout is {t_acq} s')
            for rec in real['log']:
                if rec[0] == 'phaseEnd':
                    for key, (val, nw) in rec[1].items():
                        if val != case['L']:
                            own.setdefault(i, []).append(f'semaphore {key}: value {val} after all callers finished, limit {case["L"]} (capacity leaked or over-released)')
                elif rec[0] == 'acquired' and rec[2] == -1:
                    own.setdefault(i, []).append(f'semaphore {rec[1]}: a slot was acquired by a task that belongs to no caller')
                elif rec[0] == 'end' and str(rec[3]).startswith('error:'):
                    # a call ends in one of: the function ran (with a slot, or without one under lax after an acquisition
                    # timeout) and its outcome came back, TimeoutError, or the caller's own cancellation - the function of
                    # these cases raises nothing but ValueError, so any other exception came out of the semaphore machinery
                    own.setdefault(i, []).append(f'semaphore {rec[1]}: caller {rec[2]} got {rec[3][6:]} out of the decorator: the function was neither run '
                                                 f'nor refused with TimeoutError')
        for i, case in enumerate(cases):
            if i in own:
                violations.append((case, own[i][:3], None, None))
            elif i in vio:
                violations.append((case, vio[i], None, None))
            elif i in rej:
                diverged.append((case, rej[i]))
            if len(case['phases'][0]['callers']) > case['L']:
                distinct.add(json.dumps(case, sort_keys=True))
        bad = check_semkeys(semkey_cases(rng, 150))
        stats['semkey_pairs_checked'] = 150 * 149 // 2
        for b in bad[:3]:
            violations.append(({'semkey': b[0], 'other': b[1]}, [f'scope keys: real {b[2]} vs {b[3]}, model {b[4]} vs {b[5]}'], None, None))
        if cases:
            samples.append({'case': cases[0]})
        rule = ('random populations: limit 1-3, 2-6 callers per event loop, 1-2 successive event loops, scope global/class/self over 3 owners of 2 classes, lax or not, '
                'acquisition timeout, durations, failures, cancellation while waiting or running; non-trivial: more callers than slots; distinct: the case itself')
        nval = len(cases) - len(violations) - len(diverged)
    code = 0
    out_lines = []
    if violations:
        case, bad, real, ml = violations[0]
        rp = evid.write_replay(prop, '', {'property': prop, 'kind': 'violation', 'case': case, 'mismatch': bad, 'real': real, 'model': ml})
        out_lines.append(f'VIOLATION property={prop} replay={rp}')
        code = 1
    elif diverged:
        case, why = diverged[0]
        rp = evid.write_replay(prop, 'corr-', {'property': prop, 'kind': 'broken-correspondence', 'case': case, 'obligation': why,
                                               'theorems_no_longer_tied_to_the_code': sorted(my_thms)})
        out_lines.append(f'VIOLATION property={prop} replay={rp} no-failing-input-found')
        code = 1
    evid.write_evidence(prop, tier, seed, my_thms, t0, evaluations=len(cases), distinct_nontrivial=len(distinct), rule=rule,
                        samples=samples, validated=nval, violations=len(violations) + (1 if diverged and not violations else 0),
                        extra={'distribution': dict(stats)}, gate=gate)
    for l in out_lines:
        print(l)
    print(f'{prop} {tier}: {len(cases)} cases, {nval} agree with the model, {len(distinct)} distinct non-trivial, {len(my_thms)} theorems, '
          f'{len(violations)} violations, {len(diverged)} divergences, {round(time.time() - t0, 1)} s')
    return code
