"""Run a scenario on the REAL bubus (imported from /repo's working tree) under virtual time and record
a totally ordered log of atomic actions.  Everything here is harness-side: subclasses of EventBus and
CleanShutdownQueue and a wrapper around BaseEvent.event_result_update; no bubus source is changed.
"""
import asyncio
import contextvars
import inspect
import datetime as dt
import signal
import traceback
import gc
import logging
import os
import sys
import warnings
import weakref

REPO = os.environ.get('BUBUS_REPO', '/repo')
if REPO not in sys.path:
    sys.path.insert(0, REPO)
warnings.simplefilter('ignore')
logging.disable(logging.CRITICAL)

from vloop import VLoop, Deadlock, Budget  # noqa: E402

import bubus.service as svc  # noqa: E402
import bubus.models as mdl  # noqa: E402
import bubus.helpers as hlp  # noqa: E402
from bubus import EventBus, BaseEvent  # noqa: E402

BASE_TIME = dt.datetime(2026, 1, 1, tzinfo=dt.UTC)
WALDIR = os.path.join(os.environ.get('TMPDIR', '/tmp'), f'bubus_verif_wal_{os.getpid()}')


def py_expect_match(pred, e):
    """must agree with `expectMatch` in lean/Bubus/Model/Step.lean; None = the predicate raises"""
    if pred == 0:
        return True
    if pred == 1:
        return e % 2 == 0
    if pred == 2:
        return e % 3 != 0
    if pred == 3:
        return None if e % 4 == 1 else True
    return False


class Rt:
    """per-scenario tracing state"""

    def __init__(self, sc):
        self.sc = sc
        self.log = []
        self.eid = {}        # event_id -> index
        self.evobj = {}      # index -> event
        self.busidx = {}     # bus -> index
        self.buses = []
        self.hidx = {}       # (bus idx, id(handler callable)) -> handler index k
        self.hfn = {}        # (bus idx, handler index k) -> the registered callable
        self.inst_real = {}  # instance -> (event object it handles, bus idx, handler index)
        self.hkind = {}      # k -> kind
        self.inst_of_task = {}
        self.rl_entered = set()
        self.outbox = {}     # key -> event object built by some handler or task, to be dispatched later by whoever
        self.syncstack = {}
        self.act = {}        # (b, e) -> [executor procs]
        self.pending_inst = {}  # (b, e, k) -> [instance ids scheduled, body not yet started]
        self.last_inst = {}  # (b, e, k) -> last instance id
        self.ninst = 0
        self.types = {}
        self.xtasks = []
        self.keepalive = []
        self.selfraised = set()   # instances whose body raised CancelledError on its own account
        self.orig_err = {}        # instance -> the exception object its body raised or returned
        self.dup_names = bool(sc.get('dup_names'))
        self.blocked = {}        # external task index -> (hang record kind, fields) while it is blocked in a bus call
        self.xid = {}            # asyncio task -> external task index
        self.next_expect = {}    # asyncio task -> handler index for the expect() it is about to call
        self.expect_x = {}       # expect handler index -> external task number
        self.expect_fut = {}     # expect handler index -> the call's future (from the temporary handler's closure)
        self.expect_dead = set() # expect handler indices whose future was seen cancelled
        self.expect_creq = set() # expect handler indices whose calling task the harness cancelled
        self.expect_cur = {}     # external task number -> handler index of its current expect() call
        self.nextra = 0          # extra (expect) handler indices allocated
        self.cur_pe = {}         # asyncio task -> stack of (b, e) being processed
        self.wal = {}            # bus idx -> list of lines
        self.walseq = 0
        self.walfaults = set()

    def now(self):
        return asyncio.get_event_loop().time()

    def rec(self, kind, **kw):
        kw['k'] = kind
        kw['t'] = self.now()
        # consecutive empty passes of one instance's inline polling loop are recorded as one entry with a count
        if kind == 'pollYield' and self.log and self.log[-1]['k'] == 'pollYield' and self.log[-1]['i'] == kw['i'] \
                and self.log[-1]['t'] == kw['t']:
            self.log[-1]['n'] += 1
            return self.log[-1]
        self.log.append(kw)
        return kw


class _Sink:
    """absorbs anything"""

    def __getattr__(self, name):
        return _Sink()

    def __call__(self, *a, **k):
        return _Sink()

    def __getitem__(self, k):
        return _Sink()

    def __setitem__(self, k, v):
        pass

    def __contains__(self, k):
        return False

    def __iter__(self):
        return iter(())

    def __bool__(self):
        return False


class _NullRt(_Sink):
    """stands in between scenarios: records made by coroutines that are finalised late go nowhere"""

    def rec(self, kind, **kw):
        return kw

    def now(self):
        return 0.0


RT: Rt | None = None


def eid(ev):
    i = RT.eid.get(ev.event_id)
    if i is None:
        # event created outside mk_event (should not happen)
        i = len(RT.eid)
        RT.eid[ev.event_id] = i
        RT.evobj[i] = ev
        RT.rec('new', e=i, ty=ev.event_type, parent=None, timeout=ev.event_timeout, foreign=True)
    return i


def mk_event(tyname, parent=None):
    cls = RT.types[tyname]
    i = len(RT.eid)
    kw = {'event_created_at': BASE_TIME + dt.timedelta(milliseconds=i)}
    selfparent = parent is None and RT.sc['types'].get(tyname, {}).get('selfparent')
    if parent is not None:
        kw['event_parent_id'] = parent.event_id
    elif selfparent:
        # a client-supplied cyclic parent chain (the event names itself as its parent)
        from uuid_extensions import uuid7str
        kw['event_id'] = uuid7str()
        kw['event_parent_id'] = kw['event_id']
    ev = cls(**kw)
    RT.eid[ev.event_id] = i
    RT.evobj[i] = ev
    RT.rec('new', e=i, ty=tyname, parent=(RT.eid[parent.event_id] if parent is not None else (i if selfparent else None)), timeout=ev.event_timeout)
    return ev


def proc(bus=None):
    t = asyncio.current_task()
    st = RT.syncstack.get(t)
    if st:
        return f'I{st[-1]}'
    if t in RT.inst_of_task:
        return f'I{RT.inst_of_task[t]}'
    if t in RT.xid:
        return f'X{RT.xid[t]}'
    # a helper task created inside a handler body (by the library on the handler's behalf, e.g. a shielded call) acts for
    # that handler instance: the context it inherited names it; run-loop tasks created inside a handler do not
    i = INST.get()
    if i is not None and not any(b._runloop_task is t for b in RT.busidx):
        return f'I{i}'
    if bus is not None:
        return f'R{RT.busidx[bus]}'
    for b, i in RT.busidx.items():
        if b._runloop_task is t:
            return f'R{i}'
    return 'X'


def errkind(err):
    if err is None:
        return None
    if isinstance(err, TimeoutError):
        # a TimeoutError that escaped a handler's own body (recorded by the handler wrapper, compared by identity) is the
        # handler's; otherwise bubus' own timeout errors say so - and so does any TimeoutError that carries a message the
        # harness did not write (the wording of the library's message is not part of any property)
        if any(err is x for x in RT.orig_err.values()):
            return 'TimeoutError-raised-by-handler'
        st = str(err)
        return 'timeout' if ('timed out after' in st or (st and 'an operation inside the handler timed out' not in st)) else 'TimeoutError-raised-by-handler'
    if isinstance(err, asyncio.CancelledError):
        # bubus' own cancellation errors carry a message; a bare CancelledError is one a handler let escape by itself
        return 'cancelled' if str(err) else 'CancelledError-raised-by-handler'
    return type(err).__name__


def evsnap(ev):
    sig = bool(ev._event_completed_signal and ev._event_completed_signal.is_set())
    res = []
    for r in ev.event_results.values():
        b = next((i for bb, i in RT.busidx.items() if str(id(bb)) == r.eventbus_id), -1)
        hid = r.handler_id.split('.')[-1]
        k = next((kk for (bi, hh), kk in RT.hidx.items() if bi == b and str(hh) == hid), -1)
        res.append([b, k, r.status, errkind(r.error), [RT.eid.get(c.event_id, -1) for c in r.event_children]])
    return {'st': ev.event_status, 'sig': sig, 'res': res,
            'parent': (RT.eid.get(ev.event_parent_id, -2) if ev.event_parent_id else None),
            'path': [next((i for bb, i in RT.busidx.items() if bb.name == n), -1) for n in ev.event_path]}


def valsnap(ev):
    """everything a client can read of a completed event, by value"""
    sig = bool(ev._event_completed_signal and ev._event_completed_signal.is_set())
    out = {'status': ev.event_status, 'signal': sig, 'n': len(ev.event_results)}
    for hid, r in ev.event_results.items():
        out['result ' + hid.split('.')[-1][-6:]] = [r.status, repr(r.result), repr(r.error), r.handler_name,
                                                    str(r.started_at), str(r.completed_at), len(r.event_children)]
    return out


def briefsnap():
    return {i: [e.event_status, bool(e._event_completed_signal and e._event_completed_signal.is_set()), len(e.event_results)]
            for i, e in RT.evobj.items()}


def bussnap(b):
    q = b.event_queue
    return {'hist': [RT.eid.get(i, -1) for i in b.event_history],
            'q': [RT.eid.get(e.event_id, -1) for e in (q._queue if q else [])],
            'idle': bool(b._on_idle and b._on_idle.is_set()),
            'unf': (q._unfinished_tasks if q else 0),
            'running': b._is_running,
            'nh': sum(len(v) for v in b.handlers.values())}


class TQ(svc.CleanShutdownQueue):
    bus = None

    def get_nowait(self):
        item = super().get_nowait()
        RT.rec('take', p=proc(self.bus), b=RT.busidx[self.bus], e=eid(item))
        return item


class TIdle(asyncio.Event):
    """the bus's _on_idle flag, traced"""
    bus = None

    def set(self):
        was = self.is_set()
        super().set()
        if not was:
            RT.rec('idleSet', b=RT.busidx[self.bus], p=proc(self.bus), was=was)

    def clear(self):
        was = self.is_set()
        super().clear()
        RT.rec('idleClear', b=RT.busidx[self.bus], p=proc(self.bus), was=was)


class FakeWalFile:
    def __init__(self, b, fail_write):
        self.b = b
        self.fail_write = fail_write

    async def __aenter__(self):
        return self

    async def __aexit__(self, *a):
        return False

    async def write(self, line):
        await asyncio.sleep(0)
        t = asyncio.current_task()
        be = (RT.cur_pe.get(t) or [(self.b, -1)])[-1]
        if self.fail_write:
            RT.rec('walWrite', p=proc(RT.buses[self.b]), b=self.b, e=be[1], ok=False, why='write')
            raise OSError('injected WAL write fault')
        ok, why = True, ''
        try:
            back = BaseEvent.model_validate_json(line)
            live = RT.evobj.get(be[1])
            if live is None or back.event_id != live.event_id:
                ok, why = False, 'id'
            else:
                a = back.model_dump(mode='json')
                c = live.model_dump(mode='json')
                for key in set(a) | set(c):
                    # C17 names id, type, parent, path and payload; the remaining event_* metadata (processed-at stamp,
                    # results ...) of the live event may have moved on while the write was suspended
                    if key.startswith('event_') and key not in ('event_id', 'event_type', 'event_parent_id', 'event_path',
                                                                'event_created_at', 'event_timeout', 'event_schema'):
                        continue
                    if key == 'event_path':
                        # the line was serialised before the write suspended; the event may have been dispatched on since
                        if a.get(key) != (c.get(key) or [])[:len(a.get(key) or [])]:
                            ok, why = False, f'field {key}'
                        continue
                    if a.get(key) != c.get(key):
                        ok, why = False, f'field {key}'
                # the payload once more, validated back with the event's own class and compared as Python values (a declared
                # bytes / datetime / set field has to come back as the same value, not merely as the same JSON text)
                back2 = type(live).model_validate_json(line)
                for key in type(live).model_fields:
                    if not key.startswith('event_') and getattr(back2, key) != getattr(live, key):
                        ok, why = False, f'payload field {key} comes back as another value'
            if not line.endswith('\n') or '\n' in line[:-1]:
                ok, why = False, 'not one line'
        except Exception as ex:  # noqa: BLE001
            ok, why = False, f'parse {type(ex).__name__}'
        RT.wal.setdefault(self.b, []).append(line)
        RT.rec('walWrite', p=proc(RT.buses[self.b]), b=self.b, e=be[1], ok=True, faithful=ok, why=why)


class FaultyDir:
    def __init__(self, b):
        self.b = b

    def mkdir(self, parents=False, exist_ok=False):
        seq = RT.walseq
        if [seq, 'mkdir'] in RT.sc.get('walfaults', []):
            RT.walseq += 1
            t = asyncio.current_task()
            be = (RT.cur_pe.get(t) or [(self.b, -1)])[-1]
            RT.rec('walWrite', p=proc(RT.buses[self.b]), b=self.b, e=be[1], ok=False, why='mkdir')
            raise OSError('injected WAL mkdir fault')


class FaultyWalPath:
    """stands in for EventBus.wal_path: lets the harness inject a failure of the parent-directory creation"""

    def __init__(self, b):
        self.b = b
        self.parent = FaultyDir(b)

    def __str__(self):
        return os.path.join(WALDIR, f'wal_{self.b}.jsonl')

    def __fspath__(self):
        return str(self)


async def fake_open_file(path, mode='r', encoding=None):
    await asyncio.sleep(0)
    b = int(str(path).rsplit('_', 1)[1].split('.')[0])
    seq = RT.walseq
    RT.walseq += 1
    if (seq, 'open') in RT.walfaults or [seq, 'open'] in RT.sc.get('walfaults', []):
        t = asyncio.current_task()
        be = (RT.cur_pe.get(t) or [(b, -1)])[-1]
        RT.rec('walWrite', p=proc(RT.buses[b]), b=b, e=be[1], ok=False, why='open')
        raise OSError('injected WAL open fault')
    return FakeWalFile(b, [seq, 'write'] in RT.sc.get('walfaults', []))


svc.anyio.open_file = fake_open_file


class TBus(EventBus):
    def on(self, event_pattern, handler):
        r = super().on(event_pattern, handler)
        t = None
        try:
            t = asyncio.current_task()
        except RuntimeError:
            pass
        if t is not None and t in RT.next_expect:
            k = RT.next_expect.pop(t)
            RT.hidx[(RT.busidx[self], id(handler))] = k
            RT.hkind[k] = 'expect'
            RT.expect_x[k] = RT.xid.get(t)
            RT.expect_cur[RT.xid.get(t)] = k
            for c in (getattr(handler, '__closure__', None) or ()):
                try:
                    if isinstance(c.cell_contents, asyncio.Future):
                        RT.expect_fut[k] = c.cell_contents
                except ValueError:
                    pass
            RT.keepalive.append(handler)   # ids of temporary handlers must not be reused within a scenario
        return r

    async def _default_wal_handler(self, event):
        if not self.wal_path:
            return await super()._default_wal_handler(event)
        n0 = len(RT.log)
        try:
            return await super()._default_wal_handler(event)
        finally:
            if not any(r['k'] == 'walWrite' for r in RT.log[n0:]):
                # the write was given up before any file operation: the event could not be serialised
                b = RT.busidx[self]
                e = eid(event)
                opaque = any(isinstance(v, dict) and v.get('__type__') == 'opaque'
                             for v in (RT.sc['types'].get(type(event).__name__, {}).get('payload') or {}).values())
                RT.rec('walWrite', p=proc(self), b=b, e=e, ok=False, why='serialise', expected=opaque)

    async def execute_handler(self, event, handler, *a, **kw):       # (extra / renamed parameters are handed through untouched)
        # a forwarding handler is the library's own bound method `other.dispatch` - no body of ours runs for it: note which
        # registration is being executed, so that the dispatch it makes can be attributed to its instance
        k_ = RT.hidx.get((RT.busidx.get(self), id(handler)))
        # (with the task: the handler tasks of a parallel bus share one context)
        tok_ = FWD.set((RT.busidx.get(self), k_, asyncio.current_task())) if k_ is not None and RT.hkind.get(k_) == 'forward' else None
        try:
            return await super().execute_handler(event, handler, *a, **kw)
        except RuntimeError as ex:
            # `execute_handler` refuses a handler whose result is no longer pending (it was cancelled by a timeout cleanup
            # while the activation was under way): the activation passes over it
            if 'has already been executed' in str(ex):
                b = RT.busidx[self]
                e = eid(event)
                k = RT.hidx.get((b, id(handler)), -1)
                x = [EXECUTOR.get()] if EXECUTOR.get() is not None else (RT.act.get((b, e)) or ['?'])
                RT.rec('hSkip', x=x[-1], b=b, e=e, h=k)
            raise
        finally:
            if tok_ is not None:
                try:
                    FWD.reset(tok_)
                except ValueError:
                    pass

    async def _run_loop(self):
        rt = RT
        rt.rl_entered.add(asyncio.current_task())
        try:
            await super()._run_loop()
        finally:
            if rt is RT:      # (a coroutine of an earlier scenario finalised late must not write into this one)
                RT.rec('rlDone', b=RT.busidx[self], idle=bool(self._on_idle and self._on_idle.is_set()))

    def dispatch(self, event):
        e = eid(event)
        p = proc()
        fw = FWD.get()
        if svc.inside_handler_context.get() and fw is not None and fw[2] is asyncio.current_task():
            # a forwarding handler is the bound method `other.dispatch`: no body of ours runs, find its instance
            src, k, _task = fw
            if k is not None and RT.hkind.get(k) == 'forward':
                cur = svc._current_event_context.get()
                ce = RT.eid.get(cur.event_id) if cur is not None else None
                i = RT.last_inst.get((src, ce, k))
                if i is not None:
                    p = f'I{i}'
                    RT.inst_real[i] = (cur, src, k)
        b = RT.busidx[self]

        def lineage():
            # what the real objects say after the call: the event's parent, and how often it occurs among the
            # children of the dispatching handler's own result
            par = RT.eid.get(event.event_parent_id) if event.event_parent_id else None
            n = None
            if p.startswith('I') and int(p[1:]) in RT.inst_real:
                hev, hb, hk = RT.inst_real[int(p[1:])]
                fn = RT.hfn.get((hb, hk))
                if fn is not None:
                    res = hev.event_results.get(mdl.get_handler_id(fn, RT.buses[hb]))
                    if res is not None:
                        n = sum(1 for c in res.event_children if c is event)
            return par, n
        try:
            r = super().dispatch(event)
            par, n = lineage()
            RT.rec('dispatch', p=p, b=b, e=e, res='ok', hist=bussnap(self)['hist'], q=bussnap(self)['q'], same=(r is event),
                   parent=par, nchild=n)
            return r
        except BaseException as ex:
            res = {'RuntimeError': 'capacity', 'QueueFull': 'queueFull', 'QueueShutDown': 'shutDown'}.get(type(ex).__name__, type(ex).__name__)
            _par, n = lineage()
            RT.rec('dispatch', p=p, b=b, e=e, res=res, hist=bussnap(self)['hist'],
                   q=bussnap(self)['q'], nchild=n)
            raise

    def _start(self):
        old_task = self._runloop_task
        had_queue = self.event_queue is not None
        if INST.get() is not None or FWD.get() is not None:
            # started from inside a handler: the run-loop task inherits a copy of that handler's context (bubus' own
            # variables included) - all but the harness's notes of which handler instance / forwarding handler is acting
            ctx = contextvars.copy_context()
            ctx.run(INST.set, None)
            ctx.run(FWD.set, None)
            ctx.run(super()._start)
        else:
            super()._start()
        if not had_queue and self.event_queue is not None:
            q = TQ(maxsize=self.event_queue.maxsize)
            q.bus = self
            self.event_queue = q
            idle = TIdle()
            idle.bus = self
            self._on_idle = idle
        if self._runloop_task is not None and self._runloop_task is not old_task:
            RT.rec('rlcreate', b=RT.busidx[self], p=proc(), holds=svc.holds_global_lock.get())
            task = self._runloop_task
            rt = RT

            def _never_ran(t, bus=self):
                # a run-loop task that was cancelled before its first step never enters _run_loop(): its end is recorded here
                if rt is RT and t.cancelled() and t not in rt.rl_entered:
                    RT.rec('rlDone', b=RT.busidx[bus], idle=bool(bus._on_idle and bus._on_idle.is_set()), never=True)
            if task is not None:
                task.add_done_callback(_never_ran)

    async def process_event(self, event, *a, **kw):                  # (extra / renamed parameters are handed through untouched)
        rt = RT
        p = proc(self)
        e = eid(event)
        b = RT.busidx[self]
        # which executor runs this activation: inherited by the handler tasks a parallel bus creates for it (two activations
        # of one event on one bus can be open at the same time)
        exec_token = EXECUTOR.set(p)
        RT.rec('peBegin', p=p, b=b, e=e)
        RT.act.setdefault((b, e), []).append(p)
        task = asyncio.current_task()
        RT.cur_pe.setdefault(task, []).append((b, e))
        ok = False
        try:
            r = await super().process_event(event, *a, **kw)
            ok = True
            return r
        except GeneratorExit:
            raise               # the coroutine is being finalised (scenario teardown), not a library action
        except BaseException as ex:
            if rt is RT:
                RT.rec('peAbort', p=p, b=b, e=e, why=type(ex).__name__)
            raise
        finally:
            try:
                EXECUTOR.reset(exec_token)
            except ValueError:
                pass
            # (a coroutine of an earlier scenario finalised late must not touch this scenario's tables)
            if rt is RT:
                rt.act[(b, e)].pop()
                rt.cur_pe[task].pop()
                if ok:
                    RT.rec('peEnd', p=p, b=b, e=e, snap=evsnap(event), all=briefsnap(), bus=bussnap(self))


_orig_update = BaseEvent.event_result_update
class TBusA(TBus):
    """an application's own bus class (nothing overridden)"""


class TBusB(TBus):
    """another one"""


EXECUTOR = contextvars.ContextVar('verif_harness_executor', default=None)
INST = contextvars.ContextVar('verif_harness_instance', default=None)
FWD = contextvars.ContextVar('verif_harness_forward', default=None)    # (bus, registration) of the forwarding handler being executed


def traced_event_result_update(self, handler, eventbus=None, **kwargs):
    if RT is None or eventbus is None or eventbus not in RT.busidx:
        return _orig_update(self, handler, eventbus, **kwargs)
    b = RT.busidx[eventbus]
    k = RT.hidx.get((b, id(handler)), -1)
    e = eid(self)
    existed = mdl.get_handler_id(handler, eventbus) in self.event_results
    r = _orig_update(self, handler, eventbus, **kwargs)
    if 'result' in kwargs or 'error' in kwargs:
        i = RT.last_inst.get((b, e, k))
        what = 'result' if 'result' in kwargs else 'error'
        retexc = 'result' in kwargs and isinstance(kwargs['result'], BaseException)
        ek = errkind(r.error)
        if ek == 'cancelled' and i in RT.selfraised and r.error is not None and not str(r.error):
            ek = 'CancelledError-raised-by-handler'      # (bubus' own cancellation errors carry a message)
        RT.rec('resFinish', b=b, e=e, h=k, i=i, what=what, status=r.status, err=ek, retexc=retexc)
    elif kwargs.get('status') == 'started':
        i = RT.ninst
        RT.ninst += 1
        RT.pending_inst.setdefault((b, e, k), []).append(i)
        RT.last_inst[(b, e, k)] = i
        x = [EXECUTOR.get()] if EXECUTOR.get() is not None else (RT.act.get((b, e)) or ['?'])
        if RT.hkind.get(k) == 'expect' and k not in RT.expect_dead:
            # the call's future was cancelled (deadline fired / caller cancelled) before its temporary handler runs:
            # reported at the moment it becomes observable
            fut = RT.expect_fut.get(k)
            if fut is not None and fut.cancelled():
                RT.expect_dead.add(k)
                if k not in RT.expect_creq and RT.expect_cur.get(RT.expect_x.get(k)) == k:
                    RT.rec('expectTimeout', x=RT.expect_x.get(k))
        RT.rec('hSched', x=x[-1], i=i, b=b, e=e, h=k, hk=RT.hkind.get(k, '?'))
    elif kwargs.get('status') == 'pending':
        RT.rec('resPending', b=b, e=e, h=k, existed=existed)
    return r


BaseEvent.event_result_update = traced_event_result_update


class _AsyncioForModels:
    """stands in for the `asyncio` module inside bubus.models: its only `sleep(0)` is the yield of an empty pass of the
    inline polling loop in BaseEvent.__await__, which is recorded (label pollYield) before it is performed"""

    def __getattr__(self, name):
        return getattr(asyncio, name)

    async def sleep(self, delay, *a, **k):
        if delay == 0:
            try:
                t = asyncio.current_task()
            except RuntimeError:
                t = None
            i = RT.inst_of_task.get(t) if t is not None else None
            if i is not None:
                RT.rec('pollYield', i=i, n=1)
        return await asyncio.sleep(delay, *a, **k)


mdl.asyncio = _AsyncioForModels()


def mk_types(sc):
    types = {}
    for name, spec in sc['types'].items():
        to = spec.get('timeout')
        # 'none' = event_timeout None (no deadline at all); None = the library default (300 s, never reached here)
        ns = {'__annotations__': {'event_timeout': float | None},
              'event_timeout': (None if to == 'none' else (to if to else 300.0)), '__module__': __name__}
        rt = spec.get('rtype')
        if rt:
            # a declared result type (class-level field): a class, or a PEP 604 union
            ns['__annotations__']['event_result_type'] = object
            ns['event_result_type'] = {'str': str, 'strnone': str | None, 'int': int}[rt]
        for fk, fv in (spec.get('payload') or {}).items():
            if isinstance(fv, dict) and fv.get('__type__') == 'opaque':
                # a payload value that cannot be serialised to JSON (legal: arbitrary types are allowed); its WAL write fails
                ns['__annotations__'][fk] = object
                ns[fk] = object()
                continue
            if isinstance(fv, dict) and '__type__' in fv:
                # a declared, typed payload field
                ty, v = fv['__type__'], fv['v']
                if ty == 'bytes':
                    ns['__annotations__'][fk] = bytes
                    ns[fk] = v.encode()
                elif ty == 'datetime':
                    ns['__annotations__'][fk] = dt.datetime
                    ns[fk] = dt.datetime.fromisoformat(v)
                elif ty == 'set_int':
                    ns['__annotations__'][fk] = set[int]
                    ns[fk] = set(v)
                else:
                    ns['__annotations__'][fk] = float | None
                    ns[fk] = v
                continue
            ns['__annotations__'][fk] = object
            ns[fk] = fv
        types[name] = type(name, (BaseEvent,), ns)
    return types


async def run_prog(i, bi, event, prog, sync):
    """interpret a handler program; `sync` programs contain no suspending instruction"""
    slots = {}
    made = {}        # every event object the program created, accepted or refused (a refused one may be dispatched again)
    ret = None
    strict = False   # does the handler let the exception of a refused dispatch escape (instead of carrying on)
    for ins in prog:
        op = ins[0]
        if op == 'sleep':
            await asyncio.sleep(ins[1])
        elif op == 'strict':
            strict = True
        elif op == 'dispatch':
            ev = mk_event(ins[2])
            made[ins[3]] = ev
            try:
                slots[ins[3]] = RT.buses[ins[1]].dispatch(ev)
            except Exception:
                slots[ins[3]] = None
                if strict:
                    raise
        elif op == 'make':
            # the handler only builds an event object (an outbox, a prepared follow-up); whoever dispatches it does so later
            RT.outbox[ins[2]] = mk_event(ins[1])
        elif op == 'dispatch_made':
            ev = RT.outbox.pop(ins[2], None)
            if ev is not None and ev is not event:
                try:
                    RT.buses[ins[1]].dispatch(ev)
                except Exception:
                    if strict:
                        raise
        elif op == 'dispatch_lower':
            # dispatch a new event of the type ranked just below the type of the event being handled (none below the lowest):
            # one handler (typically a wildcard one) serving every level of a chain, e.g. a retry that re-dispatches on failure
            order = sorted(RT.sc['types'])
            ty = type(event).__name__
            if ty in order and order.index(ty) + 1 < len(order):
                ev = mk_event(order[order.index(ty) + 1])
                made[ins[2]] = ev
                try:
                    slots[ins[2]] = RT.buses[ins[1]].dispatch(ev)
                except Exception:
                    slots[ins[2]] = None
                    if strict:
                        raise
        elif op == 'redispatch':
            ev = slots.get(ins[1]) or made.get(ins[1])
            if ev is not None:
                try:
                    RT.buses[ins[2]].dispatch(ev)
                except Exception:
                    pass
        elif op == 'dispatch_existing':
            # the handler dispatches an event object that already exists (one of the first events of the scenario, typically a
            # root dispatched by ordinary code): a replay / retry from inside a handler
            old = RT.evobj.get(ins[1])
            if old is not None and old is not event:
                try:
                    RT.buses[ins[2]].dispatch(old)
                except Exception:
                    pass
        elif op == 'redispatch_parent':
            # the handler dispatches the parent of the event it is handling (an ancestor becomes a child of its own descendant)
            par = RT.evobj.get(RT.eid.get(event.event_parent_id)) if event.event_parent_id else None
            if par is not None:
                try:
                    RT.buses[ins[1]].dispatch(par)
                except Exception:
                    pass
        elif op == 'dispatch_with_parent':
            par = event if ins[4] == 'self' else (RT.evobj.get(ins[4]) if ins[4] is not None else None)
            ev = mk_event(ins[2], parent=par)
            try:
                slots[ins[3]] = RT.buses[ins[1]].dispatch(ev)
            except Exception:
                slots[ins[3]] = None
        elif op in ('await', 'await_sibling_child'):
            if op == 'await':
                ev = slots.get(ins[1])
            else:
                # the first child of the handled event, dispatched by whichever handler of it (a sibling on a parallel bus)
                kids = list(event.event_children)
                ev = kids[0] if kids else None
            if ev is not None:
                c = eid(ev)
                RT.rec('awaitBegin', i=i, e=c)
                try:
                    r = await ev
                except asyncio.CancelledError:
                    raise
                except Exception as ex:
                    RT.rec('awaitRaise', i=i, e=c, why=type(ex).__name__)
                    raise
                RT.rec('awaitEnd', i=i, e=c, snap=evsnap(ev), same=(r is ev))
        elif op == 'readbus':
            try:
                got = RT.busidx.get(event.event_bus, -1)
            except Exception as ex:
                got = type(ex).__name__
            RT.rec('readbus', i=i, got=got, want=bi)
        elif op == 'raise_cancelled':
            # the handler awaits a helper task that has been cancelled: a CancelledError escapes the handler although nobody
            # cancelled the handler itself
            helper = asyncio.ensure_future(asyncio.sleep(3600))
            helper.cancel()
            RT.selfraised.add(i)
            await helper
        elif op == 'raise_timeout':
            # a TimeoutError of the handler's own (an inner wait_for, a socket timeout): nobody's deadline for the handler passed
            raise TimeoutError(f'handler instance {i}: an operation inside the handler timed out')
        elif op == 'raise':
            # the ways application code raises: plainly, chained (`from`), or while handling another exception
            if i % 3 == 1:
                raise ValueError(f'handler instance {i} raises') from KeyError('cause')
            if i % 3 == 2:
                try:
                    raise KeyError('context')
                except KeyError:
                    raise ValueError(f'handler instance {i} raises')
            raise ValueError(f'handler instance {i} raises')
        elif op == 'return':
            ret = ins[1]
        elif op == 'return_exc':
            # the handler returns an exception object instead of raising it
            ret = ValueError(f'handler instance {i} returns this exception object')
            RT.orig_err[i] = ret
            break
    return ret


def run_prog_sync(i, bi, event, prog):
    co = run_prog(i, bi, event, prog, True)
    try:
        co.send(None)
    except StopIteration as st:
        return st.value
    raise RuntimeError('sync program suspended')


def hname(k):
    return 'h' if RT.dup_names else f'h{k}'


def make_bus_method_handler(inner, sync, k, owner):
    if sync:
        def run(self, event):
            return inner(event)
    else:
        async def run(self, event):
            return await inner(event)
    run.__name__ = hname(k)
    import types
    m = types.MethodType(run, owner)
    RT.keepalive.append(m)
    return m


def make_method_handler(inner, sync, k):
    if sync:
        class Holder:
            def run(self, event):
                return inner(event)
    else:
        class Holder:
            async def run(self, event):
                return await inner(event)
    Holder.run.__name__ = hname(k)
    holder = Holder()
    RT.keepalive.append(holder)
    return holder.run


def make_handler(bi, k, h):
    prog = h['prog']

    def claim(e):
        lst = RT.pending_inst.get((bi, e, k))
        if lst:
            return lst.pop(0)
        i = RT.ninst
        RT.ninst += 1
        RT.rec('unscheduledStart', i=i, b=bi, e=e, h=k)
        return i

    rt = RT

    if h['kind'] == 'sync':
        def hs(event):
            t = asyncio.current_task()
            e = eid(event)
            i = claim(e)
            RT.rec('hStart', i=i, b=bi, e=e, h=k)
            RT.syncstack.setdefault(t, []).append(i)
            RT.inst_real[i] = (event, bi, k)
            try:
                v = run_prog_sync(i, bi, event, prog)
                RT.rec('hEnd', i=i, out='ret')
                return v
            except Exception as ex:
                RT.orig_err[i] = ex
                RT.rec('hEnd', i=i, out='raise')
                raise
            finally:
                if rt is RT:
                    RT.syncstack[t].pop()
        hs.__name__ = hname(k)
        hs.__qualname__ = hname(k)
        return hs

    async def ha(event):
        e = eid(event)
        i = claim(e)
        RT.inst_of_task[asyncio.current_task()] = i
        INST.set(i)
        RT.inst_real[i] = (event, bi, k)
        RT.rec('hStart', i=i, b=bi, e=e, h=k)
        try:
            v = await run_prog(i, bi, event, prog, False)
            RT.rec('hEnd', i=i, out='ret')
            return v
        except asyncio.CancelledError:
            if i in RT.selfraised:
                # nobody cancelled this handler: it let the CancelledError of a task it awaited escape - a raise like any other
                RT.rec('hEnd', i=i, out='raise')
                raise
            RT.rec('hCancel', i=i)
            try:
                if h.get('cleanup'):
                    # the handler's own cleanup after being cancelled (it does not swallow the cancellation);
                    # a second cancellation (e.g. its own deadline passing meanwhile) cuts the cleanup short
                    await asyncio.sleep(h['cleanup'])
                if h.get('cleanup_event'):
                    # ... which reports the abort with an event of its own (`finally: await bus.dispatch(Aborted())`)
                    ev2 = mk_event(h['cleanup_event'][1])
                    try:
                        ev2 = RT.buses[h['cleanup_event'][0]].dispatch(ev2)
                    except Exception:
                        ev2 = None
                    if ev2 is not None and h['cleanup_event'][2]:
                        c2 = eid(ev2)
                        RT.rec('awaitBegin', i=i, e=c2)
                        r2 = await ev2
                        RT.rec('awaitEnd', i=i, e=c2, snap=evsnap(ev2), same=(r2 is ev2))
            finally:
                RT.rec('hEnd', i=i, out='cancelled')
            raise
        except Exception as ex:
            RT.orig_err[i] = ex
            RT.rec('hEnd', i=i, out='raise')
            raise
    ha.__name__ = hname(k)
    ha.__qualname__ = hname(k)
    return ha


HORIZON = 30.0


async def _await_event(ev):
    return await ev


async def ext_task(x, prog, slots):
    """an external (non-handler) task"""
    RT.xid[asyncio.current_task()] = x
    for op in prog:
        o = op[0]
        if o == 'stop':
            b = RT.buses[op[1]]
            clear = bool(op[2]) if len(op) > 2 else False
            if b._is_running:
                RT.rec('stopBegin', x=x, b=op[1], clear=clear)
                t0 = RT.now()
                await b.stop(clear=clear)
                RT.rec('stopEnd', x=x, b=op[1], took=RT.now() - t0, bus=bussnap(b))
            else:
                RT.rec('stopNoop', x=x, b=op[1])
                await b.stop(clear=clear)
            continue
        if o == 'on':
            # a handler registered while the buses are running
            RT.rec('on', h=op[1])
            register_handler(op[1], RT.sc['handlers'][op[1]])
            continue
        if o == 'cancelrl':
            b = RT.buses[op[1]]
            if b._runloop_task is not None and not b._runloop_task.done():
                observe = len(op) > 2 and op[2] == 'observe'
                RT.rec('cancelRl', x=x, b=op[1], observe=observe)
                task = b._runloop_task
                task.cancel()
                if observe:
                    # longer than every handler of the scenario sleeps: has the cancelled run-loop task terminated?
                    await asyncio.sleep(1.0)
                    RT.rec('rlTaskDone', b=op[1], done=bool(task.done()))
            continue
        if o == 'expect':
            bi, key, pred, to = op[1], op[2], op[3], op[4]
            cancel_after = op[5] if len(op) > 5 else None
            b = RT.buses[bi]
            k = len(RT.sc['handlers']) + RT.nextra
            RT.nextra += 1

            def include(ev, pred=pred):
                m = py_expect_match(pred, eid(ev))
                if m is None:
                    raise ValueError('predicate raises')
                return m

            async def do_expect():
                RT.next_expect[asyncio.current_task()] = k
                RT.xid[asyncio.current_task()] = x
                # recorded here: atomic with the registration of the temporary handler inside expect()
                RT.rec('expectBegin', x=x, b=bi, key=key, h=k, pred=pred, timeout=to, bus=bussnap(b))
                try:
                    # the filter is handed over as include, as the deprecated predicate, as a (negated) exclude, or split
                    # between them; the type as a name or as the class
                    mode = k % 6
                    kw = ({'include': include} if mode == 0 else {'predicate': include} if mode == 1 else
                          {'exclude': (lambda ev: not include(ev))} if mode == 2 else
                          {'include': (lambda ev: True), 'predicate': include, 'exclude': (lambda ev: False)} if mode == 3 else
                          # (both given: an event has to satisfy include AND the deprecated predicate)
                          {'include': include, 'predicate': (lambda ev: True)} if mode == 4 else None)
                    etype = RT.types[key] if (k % 2 == 1 and key != '*') else key
                    if kw is None:
                        # the filters handed over by position: expect(event_type, include, exclude)
                        got = await b.expect(etype, (lambda ev: True), (lambda ev: not include(ev)), timeout=to)
                    else:
                        got = await b.expect(etype, timeout=to, **kw)
                    # recorded here: atomic with the removal of the temporary handler in expect()'s finally
                    RT.expect_cur.pop(x, None)
                    RT.rec('expectEnd', x=x, b=bi, got=eid(got), bus=bussnap(b))
                    return got
                except TimeoutError:
                    RT.expect_cur.pop(x, None)
                    RT.rec('expectEnd', x=x, b=bi, got=None, bus=bussnap(b))
                    raise
                except asyncio.CancelledError:
                    # recorded here: atomic with the removal of the temporary handler in expect()'s finally
                    RT.expect_cur.pop(x, None)
                    RT.rec('expectCancel', x=x, b=bi, bus=bussnap(b))
                    raise
            RT.blocked[x] = ('expectCancel', {'x': x, 'b': bi})
            t = asyncio.ensure_future(do_expect())
            await asyncio.sleep(0)          # let expect() register its temporary handler
            try:
                if cancel_after is not None:
                    done, _ = await asyncio.wait({t}, timeout=cancel_after)
                    if not done:
                        if x in RT.expect_cur:
                            RT.expect_creq.add(RT.expect_cur[x])
                            RT.rec('expectCancelReq', x=x)
                        t.cancel()
                await t
            except TimeoutError:
                pass
            except asyncio.CancelledError:
                if not t.done():
                    if x in RT.expect_cur and RT.expect_cur[x] not in RT.expect_creq:
                        RT.expect_creq.add(RT.expect_cur[x])
                        RT.rec('expectCancelReq', x=x)
                    t.cancel()
                    raise
                if asyncio.current_task().cancelling():
                    raise
            finally:
                RT.blocked.pop(x, None)
                RT.expect_cur.pop(x, None)
            continue
        if o == 'dispatch':
            ev = mk_event(op[2])
            try:
                slots[op[3]] = RT.buses[op[1]].dispatch(ev)
            except Exception:
                slots[op[3]] = None
        elif o == 'dispatch_with_parent':
            par = RT.evobj.get(op[4]) if op[4] is not None else None
            ev = mk_event(op[2], parent=par)
            try:
                slots[op[3]] = RT.buses[op[1]].dispatch(ev)
            except Exception:
                slots[op[3]] = None
        elif o == 'redispatch':
            ev = slots.get(op[1])
            if ev is not None:
                try:
                    RT.buses[op[2]].dispatch(ev)
                except Exception:
                    pass
        elif o == 'make':
            RT.outbox[op[2]] = mk_event(op[1])
        elif o == 'dispatch_made':
            ev = RT.outbox.pop(op[2], None)
            if ev is not None:
                try:
                    slots[op[3]] = RT.buses[op[1]].dispatch(ev)
                except Exception:
                    slots[op[3]] = None
        elif o == 'sleep':
            await asyncio.sleep(op[1])
        elif o == 'await':
            ev = slots.get(op[1])
            if ev is not None:
                c = eid(ev)
                RT.rec('xAwaitBegin', x=x, e=c)
                RT.blocked[x] = ('xAwaitHang', {'x': x, 'e': c})
                try:
                    # no horizon here: a hang is established at quiescence (run_sc), never by elapsed virtual time
                    r = await ev
                    RT.rec('xAwaitEnd', x=x, e=c, snap=evsnap(ev), same=(r is ev))
                except Exception as ex:
                    RT.rec('xAwaitRaise', x=x, e=c, why=type(ex).__name__)
                finally:
                    RT.blocked.pop(x, None)
        elif o == 'waitidle':
            b = RT.buses[op[1]]
            RT.rec('waitIdleBegin', x=x, b=op[1], bus=bussnap(b))
            RT.blocked[x] = ('waitIdleHang', {'x': x, 'b': op[1]})
            try:
                await b.wait_until_idle()
                RT.rec('waitIdleEnd', x=x, b=op[1], bus=bussnap(b),
                       hstat=[e.event_status for e in b.event_history.values()])
            finally:
                RT.blocked.pop(x, None)


def register_handler(k, h):
    """register handler k of the scenario the way its description says (at set-up, or later by a task: `late`)"""
    sc = RT.sc
    bus = RT.buses[h['bus']]
    RT.hkind[k] = h['kind']
    if h['kind'] == 'forward':
        fn = RT.buses[h['target']].dispatch
    else:
        fn = make_handler(h['bus'], k, h)
        if h.get('retry') and h['kind'] == 'async':
            from bubus.helpers import retry
            fn = retry(wait=0, retries=0, timeout=4096)(fn)
        if h.get('method'):
            # registered as a bound method of an object (a new bound-method object on every attribute access)
            if h['method'] in ('own', 'other'):
                # a bound method of a bus object itself (an EventBus subclass handling events with its own methods),
                # or of another bus of the scenario
                owner = RT.buses[h['bus'] if h['method'] == 'own' else (h['bus'] + 1) % len(RT.buses)]
                fn = make_bus_method_handler(fn, h['kind'] == 'sync', k, owner)
            else:
                fn = make_method_handler(fn, h['kind'] == 'sync', k)
    keys = h.get('keys') or [h['key']]
    for key in keys:
        # the three pattern kinds: '*' , the type name, or (byclass) the event class itself
        bus.on(RT.types[key] if h.get('byclass') and key != '*' else key, fn)
    # the id bubus will use for this handler
    RT.hidx[(h['bus'], id(bus.handlers[keys[0]][-1]))] = k
    RT.hfn[(h['bus'], k)] = bus.handlers[keys[0]][-1]


def quiet_window(sc):
    """a stretch of virtual time longer than any silent period a scenario's programs can produce
    (consecutive sleeps of one program, the largest timeout in use), so that "nothing recorded for that long" means rest"""
    longest = 0.0
    progs = [h['prog'] for h in sc['handlers']] + list(sc['tasks'])
    for prog in progs:
        tot = 0.0
        for ins in prog:
            if ins[0] == 'sleep':
                tot += ins[1]
            elif ins[0] == 'expect':
                tot += max([x for x in ins[4:6] if isinstance(x, (int, float))] + [0])
        longest = max(longest, tot)
    tos = [t['timeout'] for t in sc['types'].values() if isinstance(t.get('timeout'), (int, float))]
    return 1.0 + longest + (max(tos) if tos else 0.0)


async def quiesce():
    """let virtual time pass until nothing is recorded any more for a whole quiet window (or the horizon is reached)"""
    t0 = RT.now()
    win = quiet_window(RT.sc)
    while RT.now() - t0 < HORIZON:
        n = len(RT.log)
        await asyncio.sleep(win)
        if len(RT.log) == n:
            return True
    return False


async def run_sc(sc):
    RT.types = mk_types(sc)
    for i, b in enumerate(sc['buses']):
        # (a pool of buses created under one requested name: the library renames all but the first)
        bus = (TBus, TBusA, TBusB)[b.get('cls', 0)]('W' if sc.get('same_names') else f'B{i}', parallel_handlers=b.get('parallel', False), max_history_size=b.get('maxh', 50),
                   wal_path=(os.path.join(WALDIR, f'wal_{i}.jsonl') if b.get('wal') else None))
        RT.busidx[bus] = i
        RT.buses.append(bus)
        if b.get('wal'):
            bus.wal_path = FaultyWalPath(i)
    if isinstance(EventBus.all_instances, OrderedWeakSet):
        EventBus.all_instances.order = sc.get('bus_order')
    RT.rec('init', nb=len(RT.buses))
    for k, h in enumerate(sc['handlers']):
        RT.hkind[k] = h['kind']
        if not h.get('late'):
            register_handler(k, h)
    tasks = []
    for x, prog in enumerate(sc['tasks']):
        tasks.append(asyncio.ensure_future(ext_task(x, prog, {})))
    RT.xtasks = tasks
    done = False
    t0 = RT.now()
    while not done:
        if RT.now() - t0 > 20 * HORIZON:
            raise Budget()       # a scenario that never comes to rest: harness error, not a verdict
        quiet = await quiesce()
        done = quiet and all(t.done() for t in tasks)
        if quiet and not done:
            # nothing has moved for a second of virtual time (longer than every timeout in use) and a task is still
            # blocked in a bus call: it hangs.  Record that and cancel it instead of waiting for the horizon.
            for x, (kind, fields) in sorted(RT.blocked.items()):
                if kind != 'expectCancel':
                    RT.rec(kind, **fields)
                else:
                    RT.rec('expectHang', x=x)      # (legitimate unless its deadline has passed or it was resolved)
            for t in tasks:
                t.cancel()
            for _ in range(4):
                await asyncio.sleep(0)
            done = True
    # C08: reading a completed event through the documented accessors changes nothing of it
    for i, ev in sorted(RT.evobj.items()):
        try:
            sig = bool(ev._event_completed_signal and ev._event_completed_signal.is_set())
            if not (sig and ev.event_status == 'completed'):
                continue
            before = valsnap(ev)
            for name in ('event_results_by_handler_id', 'event_results_by_handler_name', 'event_results_list',
                         'event_results_flat_dict', 'event_results_flat_list', 'event_result'):
                acc = getattr(ev, name, None)
                if acc is None:
                    continue
                params = inspect.signature(acc).parameters
                kw = {k: False for k in ('raise_if_any', 'raise_if_none', 'raise_if_conflicts') if k in params}
                if 'timeout' in params:
                    kw['timeout'] = 0.25
                try:
                    await acc(**kw)
                except (Exception, asyncio.CancelledError):
                    pass       # (an accessor re-raises a handler's recorded error, which may be a CancelledError)
            # C11: the original exception object of a failed handler is re-raised by the accessors exactly when raise_if_any
            errs = [r.error for r in ev.event_results.values() if isinstance(r.error, BaseException)]
            if errs:
                bad = None
                for name in ('event_results_by_handler_id', 'event_results_list', 'event_results_flat_dict',
                             'event_results_flat_list', 'event_result', 'event_results_by_handler_name'):
                    acc = getattr(ev, name, None)
                    if acc is None:
                        continue
                    params = inspect.signature(acc).parameters
                    for ra in (False, True):
                        kw = {}
                        if 'raise_if_any' in params:
                            kw['raise_if_any'] = ra
                        if 'raise_if_none' in params:
                            kw['raise_if_none'] = True
                        if 'timeout' in params:
                            kw['timeout'] = 0.25
                        raised = None
                        try:
                            await acc(**kw)
                        except (Exception, asyncio.CancelledError) as ex:
                            raised = ex
                        original = raised is not None and any(raised is e for e in errs)
                        if not ra and original:
                            bad = bad or f'{name}(raise_if_any=False) re-raised a handler exception'
                        if ra and not original:
                            bad = bad or f'{name}(raise_if_any=True) did not re-raise the original exception object'
                # ... and what is recorded as a handler's error is the very object its body raised or returned
                for hid, r in ev.event_results.items():
                    bidx = next((bi for bb, bi in RT.busidx.items() if str(id(bb)) == r.eventbus_id), -1)
                    kk = next((k2 for (b2, hh), k2 in RT.hidx.items() if b2 == bidx and str(hh) == hid.split('.')[-1]), -1)
                    inst = RT.last_inst.get((bidx, i, kk))
                    if inst in RT.orig_err and r.error is not RT.orig_err[inst]:
                        bad = bad or f'the error recorded for handler {kk} is not the exception object its body raised / returned'
                RT.rec('accessorRaise', e=i, bad=bad or '')
            after = valsnap(ev)
            if after != before:
                diff = [k for k in sorted(set(before) | set(after)) if before.get(k) != after.get(k)]
                RT.rec('accessors', e=i, changed=True, what=f'{diff[0]}: {before.get(diff[0])} -> {after.get(diff[0])}')
            else:
                RT.rec('accessors', e=i, changed=False, what='')
        except Exception as ex:
            RT.rec('accessors', e=i, changed=False, what=f'harness: {type(ex).__name__}')
    RT.rec('final', events={i: evsnap(e) for i, e in RT.evobj.items()}, buses=[bussnap(b) for b in RT.buses],
           sem=_lock_value(),
           tasks_done=[t.done() for t in tasks])
    for t in tasks:
        t.cancel()
    for b in RT.buses:
        try:
            await b.stop()
        except BaseException:
            pass


class OrderedWeakSet:
    """stand-in for EventBus.all_instances (a WeakSet, whose iteration order depends on memory addresses):
    iterates in creation order, or in the permutation the scenario asks for, so that runs replay exactly"""

    def __init__(self):
        self._refs = []
        self.order = None      # list of bus indices (positions in creation order) or None

    def add(self, obj):
        if not any(r() is obj for r in self._refs):
            self._refs.append(weakref.ref(obj))

    def discard(self, obj):
        self._refs = [r for r in self._refs if r() is not None and r() is not obj]

    def __contains__(self, obj):
        return any(r() is obj for r in self._refs)

    def __len__(self):
        return sum(1 for r in self._refs if r() is not None)

    def __iter__(self):
        live = [r() for r in self._refs if r() is not None]
        if self.order:
            idx = getattr(RT, 'busidx', {})
            rank = {b: i for i, b in enumerate(self.order)}
            live.sort(key=lambda o: rank.get(idx.get(o, -1), len(rank)))
        return iter(live)


def _lock_value():
    """value of the global lock's semaphore at rest (1 = free); wherever the library keeps the lock"""
    try:
        getter = getattr(svc, '_get_global_lock', None) or getattr(EventBus, '_get_global_lock')
        sem = getter()._semaphore
        return sem._value if sem else 1
    except Exception:  # noqa: BLE001
        return 1


def reset_globals():
    svc._global_eventbus_lock = None
    for cls in (EventBus, TBus, TBusA, TBusB):
        # (a lock kept on the bus classes instead of the module is per scenario as well)
        if '_global_lock' in cls.__dict__:
            setattr(cls, '_global_lock', None)
    EventBus.all_instances = OrderedWeakSet()
    hlp.GLOBAL_RETRY_SEMAPHORES.clear()
    if hasattr(hlp, 'GLOBAL_RETRY_SEMAPHORE_LOOPS'):
        hlp.GLOBAL_RETRY_SEMAPHORE_LOOPS.clear()
    gc.collect()


class Watchdog(BaseException):
    """wall-clock limit of one scenario exceeded (a synchronous spin is invisible to virtual time)"""


ABORT = []


def _on_alarm(signum, frame):
    st = ''.join(traceback.format_stack(frame)[-8:])
    ABORT.append(st)          # the exception below may be swallowed by the code it interrupts; the flag is not
    raise Watchdog(st)


def run_scenario(sc, budget=300_000, watchdog=20):
    """returns {'sc', 'log', 'err'}; err is None, 'budget', 'deadlock', 'watchdog…' or an exception description"""
    global RT
    reset_globals()
    RT = Rt(sc)
    loop = VLoop(budget)
    asyncio.set_event_loop(loop)
    err = None
    ABORT.clear()
    signal.signal(signal.SIGALRM, _on_alarm)
    # (repeating: the exception may be swallowed by the code it interrupts, which then goes on spinning)
    signal.setitimer(signal.ITIMER_REAL, watchdog, 1.0)
    try:
        loop.run_until_complete(run_sc(sc))
    except Watchdog as e:
        st = str(e)
        err = ('watchdog-in-bubus: ' if '/bubus/' in st else 'watchdog: ') + st
    except Budget:
        err = 'budget'
    except Deadlock:
        err = 'deadlock'
    except BaseException as e:  # noqa: BLE001
        err = f'{type(e).__name__}: {e}'
    finally:
        # the teardown runs library code too (cancellations, timeout logging): it stays under the watchdog
        signal.setitimer(signal.ITIMER_REAL, 5.0, 1.0)
        nlog = len(RT.log)
        try:
            # tear the scenario down completely while its tracing state is still installed: every leftover task gets its
            # cancellation delivered and runs its finally blocks now, not at some garbage collection during a later scenario
            loop._budget = loop._iters + 20000
            for _ in range(3):
                tasks = [t for t in asyncio.all_tasks(loop) if not t.done()]
                if not tasks:
                    break
                for t in tasks:
                    t.cancel()
                try:
                    loop.run_until_complete(asyncio.wait(tasks, timeout=5))
                except BaseException:
                    break
            loop.close()
        except BaseException:
            pass
        signal.setitimer(signal.ITIMER_REAL, 0)
        asyncio.set_event_loop(None)
        del RT.log[nlog:]          # records made by the teardown are not part of the scenario
        gc.collect()
    if ABORT and err is None:
        err = ('watchdog-in-bubus: ' if '/bubus/' in ABORT[0] else 'watchdog: ') + ABORT[0]
    log = RT.log
    RT = _NullRt()
    return {'sc': sc, 'log': log, 'err': err}
