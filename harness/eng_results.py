"""C12: recording of handler return values and the accessor views (bubus/models.py) against the sibling model
lean/Bubus/Model/Results.lean.

For generated (declared result type, list of handler outcomes, include filter, flag combination) cases the real
EventResult objects are built through the real `event_result_update` and the six real accessors are called; the
Lean functions `recordReturn` / `filtered` / `resultsList` / … are evaluated on the same abstract inputs (pydantic's
verdict on each value enters as an oracle, computed here by an independent TypeAdapter call) and every recorded
result and accessor outcome (value sequence or raised error, by identity) must agree.
"""
import asyncio
import json
import os
import random
import sys
import time
from collections import Counter
from typing import Any, Literal, Optional

HERE = os.path.dirname(os.path.abspath(__file__))
sys.path.insert(0, HERE)
REPO = os.environ.get('BUBUS_REPO', '/repo')
if REPO not in sys.path:
    sys.path.insert(0, REPO)

import evid  # noqa: E402
import pool  # noqa: E402

TYPES = ['none', 'int', 'str', 'dict', 'list_int', 'int_or_none', 'opt_str', 'literal', 'model', 'any',
         'list_str', 'dict_str_int', 'dict_str_str', 'opt_int']     # (several parametrisations of one container in one process)
VALUES = ['none', 'int', 'zero', 'intstr', 'str', 'empty_str', 'float_int', 'float_frac', 'dict_a', 'dict_b', 'dict_ab', 'dict_empty',
          'dict_bad', 'list', 'list_empty', 'list_bad', 'event', 'exc', 'lit_a', 'model_ok']


def mk_value(kind, i, helpers):
    return {
        'none': None, 'int': i + 1, 'zero': 0, 'intstr': str(i + 10), 'str': f'v{i}', 'empty_str': '', 'float_int': float(i + 2),
        'float_frac': i + 0.5, 'dict_a': {'a': i}, 'dict_b': {'b': i + 1}, 'dict_ab': {'a': i, 'b': i}, 'dict_empty': {},
        'dict_bad': {'a': 'x'}, 'list': [i, i + 1], 'list_empty': [], 'list_bad': ['x'], 'lit_a': 'a', 'model_ok': {'x': i, 'y': 'p'},
    }.get(kind)


def san(s):
    return ''.join(ch if ch.isalnum() or ch in '._-' else '_' for ch in str(s))


def enc(v, evmap, excmap):
    from bubus import BaseEvent
    if v is None:
        return 'N'
    if isinstance(v, BaseEvent):
        return f'E{evmap.get(id(v), 0)}'
    if isinstance(v, BaseException):
        return f'X{excmap.get(id(v), 999)}'
    if isinstance(v, bool):
        return f'I{int(v)}'
    if isinstance(v, int):
        return f'I{v}'
    if isinstance(v, str):
        return 'S' + san(v)
    if isinstance(v, dict) and all(isinstance(k, str) and isinstance(x, int) and not isinstance(x, bool) for k, x in v.items()):
        return 'D' + ';'.join(f'{san(k)}={x}' for k, x in v.items())
    if isinstance(v, list) and all(isinstance(x, int) and not isinstance(x, bool) for x in v):
        return 'L' + ';'.join(str(x) for x in v)
    return 'S' + san(repr(v))


def run_batch(cases):
    """worker side: run the real code for a batch of cases; returns per case (model input line, real outcome dict)"""
    import logging
    import warnings
    warnings.simplefilter('ignore')
    logging.disable(logging.CRITICAL)
    from pydantic import BaseModel, TypeAdapter
    from bubus import BaseEvent, EventBus
    from vloop import VLoop

    class M(BaseModel):
        x: int
        y: str

    class Child(BaseEvent):
        pass

    tymap = {'none': None, 'int': int, 'str': str, 'dict': dict, 'list_int': list[int], 'int_or_none': int | None,
             'opt_str': Optional[str], 'literal': Literal['a', 'b'], 'model': M, 'any': Any,
             'list_str': list[str], 'dict_str_int': dict[str, int], 'dict_str_str': dict[str, str], 'opt_int': Optional[int]}
    out = []

    async def one(ci, case):
        T = tymap[case['type']]
        # the ways a class declares its result type: constructor argument, generic parameter, class-level field,
        # a field overriding the generic parameter of an (already instantiated) parent, plain inheritance from one
        decl = case.get('decl', 'inst')
        if T is None or T is Any:
            decl = 'inst'
        name = f'Ev{ci}'
        ns = {'__module__': __name__}
        fld = {'__module__': __name__, '__annotations__': {'event_result_type': Any}, 'event_result_type': T}
        if decl == 'inst':
            ev = type(name, (BaseEvent,), ns)(event_result_type=T)
        elif decl == 'generic':
            ev = type(name, (BaseEvent[T],), ns)()
        elif decl == 'field':
            ev = type(name, (BaseEvent,), fld)()
        elif decl == 'sub_field':
            par = type(name + 'P', (BaseEvent[str if T is not str else int],), dict(ns))
            par()
            ev = type(name, (par,), fld)()
        elif decl == 'sub_first':
            # a grouping base class that is never instantiated itself (and a second level below it)
            par = type(name + 'P', (BaseEvent[T],), dict(ns))
            mid = type(name + 'M', (par,), dict(ns)) if ci % 2 else par
            ev = type(name, (mid,), ns)()
        else:
            par = type(name + 'P', (BaseEvent[T],), dict(ns))
            par()
            ev = type(name, (par,), ns)()
        _ = ev.event_completed_signal
        bus = BUS
        handlers = []
        specs = []
        evmap, excmap = {}, {}
        errobjs = {}
        # as on a bus: a pending result per handler is created first, in handler order; the outcomes are then recorded in
        # the order the handlers finish (`order`, any permutation) - the recorded results stay in handler order
        n = len(case['results'])
        specs = [None] * n
        for i, (hname, okind, vkind) in enumerate(case['results']):
            def h(e):
                return None
            h.__name__ = f'n{hname}'
            h.__qualname__ = f'n{hname}'
            handlers.append(h)
            ev.event_result_update(handler=h, eventbus=bus, status='pending')
        order = [i for i in (case.get('order') or []) if i < n]
        order += [i for i in range(n) if i not in order]
        for i in order:
            hname, okind, vkind = case['results'][i]
            h = handlers[i]
            if okind in ('e', 'c'):
                # an error result: an ordinary exception, or (c) the CancelledError bubus records for a handler it cancelled
                ex = ValueError(f'raised by {i}') if okind == 'e' else asyncio.CancelledError(f'cancelled {i}')
                excmap[id(ex)] = i
                errobjs[i] = ex
                ev.event_result_update(handler=h, eventbus=bus, error=ex)
                specs[i] = f'{i}:{hname}:e:N:N'
                continue
            if vkind == 'event':
                v = Child()
                evmap[id(v)] = i
            elif vkind == 'exc':
                v = RuntimeError(f'returned by {i}')
                excmap[id(v)] = i
                errobjs[i] = v
            else:
                v = mk_value(vkind, i, None)
            # the oracle: pydantic's own verdict, obtained independently of bubus
            vd = '-'
            if T is not None and v is not None and not isinstance(v, (BaseEvent, BaseException)):
                try:
                    if isinstance(T, type) and issubclass(T, BaseModel):
                        vv = T.model_validate(v)
                    else:
                        vv = TypeAdapter(T).validate_python(v)
                    vd = enc(vv, evmap, excmap)
                except Exception:
                    vd = '-'
            ev.event_result_update(handler=h, eventbus=bus, result=v)
            specs[i] = f'{i}:{hname}:r:{enc(v, evmap, excmap)}:{vd}'
        ev.event_completed_signal.set()
        rl = list(ev.event_results.values())
        for i, r in enumerate(rl):
            if r.error is not None and id(r.error) not in excmap:
                excmap[id(r.error)] = 1000 + i      # library-made error (validation)
        recorded = []
        for i, r in enumerate(rl):
            errs = '-'
            if r.error is not None:
                k = excmap.get(id(r.error), 999)
                errs = 'validation' if k >= 1000 else f'handler{k}'
            recorded.append(f'{i}:{r.status}:{enc(r.result, evmap, excmap)}:{errs}')
        hid_index = {r.handler_id: i for i, r in enumerate(rl)}
        incl = case['incl']
        kw = {'raise_if_any': case['ra'], 'raise_if_none': case['rn']}
        if incl == 'all':
            kw['include'] = lambda r: True
        elif incl == 'ints':
            kw['include'] = lambda r: isinstance(r.result, int)
        elif incl == 'completed':
            kw['include'] = lambda r: r.status == 'completed'

        def errname(ex):
            k = excmap.get(id(ex))
            if k is not None:
                return 'validation' if k >= 1000 else f'handler{k}'
            return type(ex).__name__

        async def call(fn, fmt, **extra):
            try:
                v = await fn(timeout=1, **kw, **extra)
                return 'ok ' + fmt(v)
            except BaseException as ex:  # noqa: BLE001
                return 'raise ' + errname(ex)
        kwn = dict(kw)
        res = {}
        res['list'] = await call(ev.event_results_list, lambda l: ','.join(enc(x, evmap, excmap) for x in l))
        res['first'] = await call(ev.event_result, lambda v: enc(v, evmap, excmap))
        res['byid'] = await call(ev.event_results_by_handler_id, lambda d: ';'.join(f'{hid_index[k]}>{enc(v, evmap, excmap)}' for k, v in d.items()))
        res['byname'] = await call(ev.event_results_by_handler_name, lambda d: ';'.join(f"{k.rsplit('.', 1)[-1][1:]}>{enc(v, evmap, excmap)}" for k, v in d.items()))
        kw_fd = dict(kw)
        kw_fd.pop('raise_if_none')
        saved = kw
        kw = kw_fd
        res['flatdict'] = await call(ev.event_results_flat_dict, lambda d: enc(d, evmap, excmap), raise_if_conflicts=case['rc'])
        kw = saved
        res['flatdictn'] = await call(ev.event_results_flat_dict, lambda d: enc(d, evmap, excmap), raise_if_conflicts=case['rc'])
        res['flatlist'] = await call(ev.event_results_flat_list, lambda l: enc(l, evmap, excmap))
        res['recorded'] = ','.join(recorded)
        # "pure views": reading the results changes nothing of them - the recorded results, and what the first accessor returns,
        # are the same after every accessor has been called once (the flat views last)
        recorded2 = []
        for i, r in enumerate(list(ev.event_results.values())):
            errs = '-'
            if r.error is not None:
                k = excmap.get(id(r.error), 999)
                errs = 'validation' if k >= 1000 else f'handler{k}'
            recorded2.append(f'{i}:{r.status}:{enc(r.result, evmap, excmap)}:{errs}')
        again = await call(ev.event_results_list, lambda l: ','.join(enc(x, evmap, excmap) for x in l))
        flat2 = await call(ev.event_results_flat_list, lambda l: enc(l, evmap, excmap))
        impure = []
        if recorded2 != recorded:
            impure.append(f'recorded results before [{",".join(recorded)}] after [{",".join(recorded2)}]')
        if again != res['list']:
            impure.append(f'event_results_list() first [{res["list"]}] later [{again}]')
        if flat2 != res['flatlist']:
            impure.append(f'event_results_flat_list() first [{res["flatlist"]}] second [{flat2}]')
        res['_impure'] = ' | '.join(impure)
        typed = 0 if T is None else 1
        line = f"T results {ci} {typed} {incl} {int(case['ra'])} {int(case['rn'])} {int(case['rc'])} {','.join(specs) or '-'}"
        return line, res

    async def main():
        global BUS
        BUS = EventBus('c12bus')
        for ci, case in cases:
            try:
                out.append((ci, *(await one(ci, case)), None))
            except BaseException as ex:  # noqa: BLE001
                import traceback
                out.append((ci, None, None, f'{type(ex).__name__}: {ex} {traceback.format_exc()[-300:]}'))
        await BUS.stop()
    loop = VLoop()
    asyncio.set_event_loop(loop)
    try:
        loop.run_until_complete(main())
    finally:
        try:
            loop.close()
        except BaseException:
            pass
        asyncio.set_event_loop(None)
    return out


BUS = None


def gen_case(rng):
    ty = rng.choice(TYPES)
    n = rng.randint(0, 5)
    results = []
    for i in range(n):
        hname = rng.choice([i, i, i, 0])          # sometimes two handlers share a name
        if rng.random() < 0.15:
            results.append((hname, 'c' if rng.random() < 0.25 else 'e', 'none'))
        else:
            vk = rng.choice(VALUES)
            # values the abstract encoding cannot represent as dict / list are only used where validation rejects or converts them
            if vk == 'model_ok' and ty != 'model':
                vk = 'dict_a'
            if vk == 'dict_bad' and ty != 'dict_str_int':
                vk = 'dict_b'
            if vk == 'list_bad' and ty != 'list_int':
                vk = 'list'
            results.append((hname, 'r', vk))
    return {'type': ty, 'results': results, 'incl': rng.choice(['default', 'default', 'all', 'ints', 'completed']),
            'ra': rng.random() < 0.5, 'rn': rng.random() < 0.5, 'rc': rng.random() < 0.5,
            'decl': rng.choice(['inst', 'inst', 'generic', 'field', 'sub_field', 'sub_inherit', 'sub_first']),
            'order': rng.sample(range(n), n) if rng.random() < 0.5 else []}


def parse_tres(line):
    """'TRES id k=[..] k=[..]' → dict"""
    out = {}
    rest = line.split(' ', 2)[2]
    i = 0
    while i < len(rest):
        j = rest.index('=[', i)
        key = rest[i:j].strip()
        k = rest.index(']', j)
        out[key] = rest[j + 2:k]
        i = k + 1
    return out


def typed_clause_violations(case, real):
    """the property's own clauses, checked on the real recorded results (independent of the model's functions)"""
    bad = []
    recs = real['recorded'].split(',') if real['recorded'] else []
    for (hname, okind, vkind), rec in zip(case['results'], recs):
        i, status, val, err = rec.split(':')
        if okind in ('e', 'c'):
            continue
        if case['type'] == 'none' and vkind not in ('exc',):
            if status != 'completed':
                bad.append(f'untyped result {i} ({vkind}) not stored as completed')
        if status == 'error' and val != 'N':
            bad.append(f'error result {i} holds a value {val}')
    return bad


def decide(prop, tier, seed, gate, my_thms, known, t0, replay):
    import multiprocessing as mp
    n = {'quick': 3000, 'thorough': 60000}[tier]
    rng = random.Random(f'C12:{seed}')
    import glob
    # minimised past failures run first (corpus/cases/C12-*.json)
    past = [json.load(open(p))['case'] for p in sorted(glob.glob(os.path.join(evid.ROOT, 'corpus', 'cases', 'C12-*.json')))]
    cases = [json.load(open(replay))['case']] if replay else past + [gen_case(rng) for _ in range(n - len(past))]
    for c in cases:
        c['results'] = [tuple(r) for r in c['results']]
    idx = list(enumerate(cases))
    chunks = [idx[i::pool.NPROC] for i in range(pool.NPROC)] if len(idx) > 32 else [idx]
    ctx = mp.get_context('fork')
    with ctx.Pool(min(pool.NPROC, len(chunks))) as p:
        outs = p.map(run_batch, chunks)
    rows = {}
    for o in outs:
        for ci, line, res, err in o:
            rows[ci] = (line, res, err)
    lines = [rows[i][0] for i in range(len(cases)) if rows[i][0]]
    model = {}
    for l in evid.drive(lines):
        if l.startswith('TRES '):
            model[int(l.split()[1])] = parse_tres(l)
    violations, diverged = [], []
    stats = Counter()
    distinct = set()
    known_sigs = {f['id'] for f in known['findings'] if f['property'] == 'C12'}
    knowns = Counter()
    for i, case in enumerate(cases):
        line, real, err = rows[i]
        if err:
            diverged.append((case, [err]))
            stats['harness_error'] += 1
            continue
        m = model.get(i)
        if m is None:
            diverged.append((case, ['no model output']))
            continue
        impure = real.pop('_impure', '')
        diffs = [f'{k}: real [{real[k]}] model [{m.get(k)}]' for k in real if real[k] != m.get(k)]
        own = typed_clause_violations(case, real)
        if impure:
            own.append('the accessors are not pure views - calling them changed what is recorded / what they return: ' + impure)
        stats['type_' + case['type']] += 1
        stats['decl_' + case.get('decl', 'inst')] += 1
        for k in ('list', 'flatdict'):
            stats[f"{k}_{real[k].split(' ')[0]}"] += 1
        if len(case['results']) >= 2:
            distinct.add(json.dumps(case, sort_keys=True))
        if own:
            violations.append((case, own, real, m))
        elif diffs:
            diverged.append((case, diffs))
    code = 0
    out_lines = []
    if violations:
        case, bad, real, m = violations[0]
        rp = evid.write_replay(prop, '', {'property': prop, 'kind': 'violation', 'case': case, 'mismatch': bad, 'real': real, 'model': m})
        out_lines.append(f'VIOLATION property={prop} replay={rp}')
        code = 1
    elif diverged:
        # the model IS the statement of C12 (values recorded per type verdict, accessors as pure views): a disagreement
        # between model and code on a concrete case is a concrete failing input
        case, why = diverged[0]
        rp = evid.write_replay(prop, '', {'property': prop, 'kind': 'violation', 'case': case, 'mismatch': why,
                                          'note': 'real accessors / recording differ from the reference semantics on this input'})
        out_lines.append(f'VIOLATION property={prop} replay={rp}')
        code = 1
    nval = len(cases) - len(violations) - len(diverged)
    samples = [{'case': cases[0], 'model_input': rows[0][0], 'real': rows[0][1]}] if cases else []
    evid.write_evidence(prop, tier, seed, my_thms, t0, evaluations=len(cases), distinct_nontrivial=len(distinct),
                        rule='random (declared type in none/int/str/dict/list[int]/list[str]/dict[str,int]/dict[str,str]/int|None/Optional[str]/Optional[int]/Literal/pydantic model/Any; declared by constructor argument, generic parameter, class field, field overriding an instantiated generic parent, inheritance from an instantiated / never instantiated generic base) x 0-5 handler outcomes '
                             '(20 value kinds incl. coercible, non-conforming, None, events, returned and raised exceptions; shared handler names) x include '
                             'filter (default/all/ints/completed) x raise_if_any x raise_if_none x raise_if_conflicts; all six accessors; '
                             'non-trivial: at least two results; distinct: the case itself',
                        samples=samples, validated=nval, violations=len(violations) + len(diverged), extra={'distribution': dict(stats)}, gate=gate)
    for l in out_lines:
        print(l)
    print(f'{prop} {tier}: {len(cases)} cases, {nval} agree with the model, {len(distinct)} distinct non-trivial, {len(my_thms)} theorems, '
          f'{len(violations)} violations, {len(diverged)} disagreements, {round(time.time() - t0, 1)} s')
    return code
