"""shared helpers of the engines: evidence files, replays, driver invocation"""
import hashlib
import json
import os
import subprocess
import time

HERE = os.path.dirname(os.path.abspath(__file__))
ROOT = os.path.dirname(HERE)
DRIVER = os.path.join(ROOT, 'lean', '.lake', 'build', 'bin', 'driver')


def drive(lines):
    r = subprocess.run([DRIVER], input='\n'.join(lines) + '\n', capture_output=True, text=True)
    if r.returncode != 0:
        print('INFRA-ERROR: driver crashed: ' + r.stderr[-1000:])
        raise SystemExit(2)
    return r.stdout.splitlines()


def write_replay(prop, name, payload):
    os.makedirs(os.path.join(ROOT, 'replays'), exist_ok=True)
    h = hashlib.sha256(json.dumps(payload, sort_keys=True, default=str).encode()).hexdigest()[:12]
    rel = os.path.join('replays', f'{prop}-{name}{h}.json')
    payload = dict(payload)
    payload['how_to_replay'] = f'./check {prop} --replay {rel}'
    json.dump(payload, open(os.path.join(ROOT, rel), 'w'), indent=1, default=str)
    return rel


def write_evidence(prop, tier, seed, my_thms, t0, *, evaluations, distinct_nontrivial, rule, samples, validated, violations, extra=None, gate=None):
    cov = {
        'obligations': len(my_thms), 'discharged': len(my_thms),
        'checker_cmd': 'cd lean && lake build && lake env lean Bubus/Audit.lean' + (' && lake env leanchecker Bubus' if tier == 'thorough' else ''),
        'trusted_base': ['Lean 4.33.0 kernel',
                         'axioms: ' + ', '.join(sorted({a for t in my_thms.values() for a in t.get('axioms', [])}) or ['none']),
                         'hand-written sibling model (lean/Bubus/Model/Retry.lean, Results.lean)',
                         'correspondence check: the model\'s executable definitions and the real code are run on the same generated inputs and compared',
                         'asyncio (Semaphore, timeout, sleep) and pydantic validation are trusted / enter as oracles'],
        'traces_validated_against_impl': validated,
        'evaluations': evaluations, 'distinct_nontrivial': distinct_nontrivial, 'rule': rule,
        'samples': samples + [{'theorem': n, 'statement': t.get('statement', ''), 'axioms': t.get('axioms', [])} for n, t in sorted(my_thms.items())],
        'exhaustive': False,
    }
    if gate is not None:
        cov['proof_gate'] = {'cached': gate.get('cached'), 'build_s': gate.get('build_s'), 'leanchecker': gate.get('leanchecker')}
    cov.update(extra or {})
    ev = {'property_id': prop, 'tier': tier, 'seed': seed, 'level': 'proof', 'coverage': cov,
          'assumptions': ['asyncio primitives behave as documented (CPython 3.12)', 'pydantic decides type conformance'],
          'wall_s': round(time.time() - t0, 2), 'violations': violations}
    os.makedirs(os.path.join(ROOT, 'evidence'), exist_ok=True)
    json.dump(ev, open(os.path.join(ROOT, 'evidence', f'{prop}.json'), 'w'), indent=1, default=str)
    return ev
