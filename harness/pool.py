"""Worker pool: run scenarios on the real bubus in parallel, translate each log to driver lines."""
import json
import multiprocessing as mp
import os
import sys
import traceback

HERE = os.path.dirname(os.path.abspath(__file__))
if HERE not in sys.path:
    sys.path.insert(0, HERE)

NPROC = int(os.environ.get('VERIF_NPROC', '16'))


def _work(job):
    sid, sc, cfg = job
    import runner
    import translate
    try:
        row = runner.run_scenario(sc)
    except BaseException as e:  # noqa: BLE001
        return {'sid': sid, 'err': f'harness: {type(e).__name__}: {e}\n{traceback.format_exc()}', 'lines': None, 'nrec': 0}
    if row['err']:
        return {'sid': sid, 'err': row['err'], 'lines': None, 'nrec': len(row['log'])}
    try:
        lines = translate.translate(row, sid, cfg)
    except BaseException as e:  # noqa: BLE001
        return {'sid': sid, 'err': f'translate: {type(e).__name__}: {e}\n{traceback.format_exc()}', 'lines': None, 'nrec': len(row['log'])}
    return {'sid': sid, 'err': None, 'lines': lines, 'nrec': len(row['log'])}


def run_jobs(jobs, nproc=None):
    """jobs: list of (sid, scenario, cfg-or-None); returns list of result dicts in job order"""
    nproc = nproc or NPROC
    if nproc <= 1 or len(jobs) < 4:
        return [_work(j) for j in jobs]
    ctx = mp.get_context('fork')
    # recycle workers so that state leaked by one scenario cannot accumulate
    with ctx.Pool(nproc, maxtasksperchild=200) as pool:
        return pool.map(_work, jobs, chunksize=max(1, min(25, len(jobs) // (nproc * 4) or 1)))


if __name__ == '__main__':
    sc = json.load(open(sys.argv[1]))
    r = _work(('replay', sc, None))
    print(r['err'] or '\n'.join(r['lines']))
