"""Worker pool: run scenarios on the real bubus in parallel, translate each log to driver lines."""
import json
import multiprocessing as mp
import os
import sys
import traceback

HERE = os.path.dirname(os.path.abspath(__file__))
if HERE not in sys.path:
    sys.path.insert(0, HERE)

NPROC = int(os.environ.get('VERIF_NPROC', '16'))
MAXREC = 6000


def _work(job):
    sid, sc, cfg = job
    import runner
    import translate
    try:
        row = runner.run_scenario(sc)
    except BaseException as e:  # noqa: BLE001
        return {'sid': sid, 'err': f'harness: {type(e).__name__}: {e}\n{traceback.format_exc()}', 'lines': None, 'nrec': 0}
    if row['err'] in ('budget', 'deadlock') and len(row['log']) <= MAXREC:
        # the run never came to rest: its history up to the point where the harness stopped it is still followed
        try:
            lines = translate.translate(row, sid, cfg)
            lines = [l for l in lines if l != 'rest'] + ['budgetExhausted']
        except BaseException:  # noqa: BLE001
            lines = None
        return {'sid': sid, 'err': row['err'], 'lines': lines, 'nrec': len(row['log'])}
    if row['err']:
        return {'sid': sid, 'err': row['err'], 'lines': None, 'nrec': len(row['log'])}
    if len(row['log']) > MAXREC:
        return {'sid': sid, 'err': 'oversize: scenario produced %d records' % len(row['log']), 'lines': None, 'nrec': len(row['log'])}
    try:
        lines = translate.translate(row, sid, cfg)
    except BaseException as e:  # noqa: BLE001
        return {'sid': sid, 'err': f'translate: {type(e).__name__}: {e}\n{traceback.format_exc()}', 'lines': None, 'nrec': len(row['log'])}
    return {'sid': sid, 'err': None, 'lines': lines, 'nrec': len(row['log'])}


def _work_chunk(chunk):
    return [_work(j) for j in chunk]


def run_jobs(jobs, nproc=None):
    """jobs: list of (sid, scenario, cfg-or-None); returns list of result dicts in job order.
    A worker that dies takes only its chunk with it (those jobs are reported as harness errors)."""
    from concurrent.futures import ProcessPoolExecutor
    from concurrent.futures.process import BrokenProcessPool
    nproc = nproc or NPROC
    if nproc <= 1 or len(jobs) < 4:
        return [_work(j) for j in jobs]
    size = max(1, min(20, len(jobs) // (nproc * 4) or 1))
    chunks = [jobs[i:i + size] for i in range(0, len(jobs), size)]
    out = [None] * len(chunks)
    ctx = mp.get_context('fork')
    pending = list(range(len(chunks)))
    for attempt in range(3):
        if not pending:
            break
        failed = []
        with ProcessPoolExecutor(nproc, mp_context=ctx) as ex:
            futs = {i: ex.submit(_work_chunk, chunks[i]) for i in pending}
            for i, f in futs.items():
                try:
                    out[i] = f.result(timeout=600)
                except (BrokenProcessPool, Exception) as e:  # noqa: BLE001
                    failed.append(i)
        pending = failed
    for i in pending:
        out[i] = [{'sid': j[0], 'err': 'harness: worker died', 'lines': None, 'nrec': 0} for j in chunks[i]]
    return [r for c in out for r in c]


if __name__ == '__main__':
    sc = json.load(open(sys.argv[1]))
    r = _work(('replay', sc, None))
    print(r['err'] or '\n'.join(r['lines']))
