"""Deterministic virtual-time asyncio loop.

The selector never sleeps: when asyncio asks it to wait `timeout` seconds for I/O (because the next
timer is that far away) the virtual clock jumps by that amount.  Being asked to wait forever means
that there is no runnable task and no timer: a deadlock, reported as `Deadlock`.
"""
import asyncio
import selectors


class Deadlock(BaseException):
    pass


class Budget(BaseException):
    """per-scenario budget of loop iterations exhausted (non-terminating scenario)"""


class VSelector(selectors.SelectSelector):
    def __init__(self, ref):
        super().__init__()
        self._ref = ref

    def select(self, timeout=None):
        loop = self._ref[0]
        if timeout is None:
            raise Deadlock('no runnable task and no timer')
        if timeout > 0:
            loop._vtime += timeout
        return super().select(0)


class VLoop(asyncio.SelectorEventLoop):
    def __init__(self, budget=200_000):
        ref = [None]
        self._vtime = 0.0
        self._iters = 0
        self._budget = budget
        super().__init__(VSelector(ref))
        ref[0] = self

    def time(self):
        return self._vtime

    def _run_once(self):
        self._iters += 1
        if self._iters > self._budget:
            raise Budget()
        return super()._run_once()


def run(coro_fn, budget=200_000):
    """run `coro_fn()` to completion on a fresh virtual loop; returns (result, loop)"""
    loop = VLoop(budget)
    asyncio.set_event_loop(loop)
    try:
        return loop.run_until_complete(coro_fn()), loop
    finally:
        try:
            # do not let leftover tasks keep the interpreter busy
            for t in asyncio.all_tasks(loop):
                t.cancel()
            loop.close()
        except BaseException:
            pass
        asyncio.set_event_loop(None)
