"""Translate the record log of one real run into the line protocol of the Lean driver
(labels = atomic actions, o* = observations of the real state).  Purely syntactic."""

TICKS = 1280


def ticks(t):
    return int(round(t * TICKS))


def lst(xs):
    return ','.join(str(x) for x in xs) if xs else '-'


def keyno(sc, key):
    if key == '*':
        return 0
    return sorted(sc['types']).index(key) + 1


def fin_of(r):
    if r['what'] == 'result':
        if r['status'] == 'completed':
            return 'completed'
        return 'errHandler' if r['retexc'] else 'errValidation'
    if r['err'] == 'timeout':
        return 'errTimeout'
    if r['err'] == 'cancelled':
        return 'errCancelled'
    return 'errHandler'


def translate(row, sid, cfg=None):
    """returns list of lines for the driver, or None when the run did not produce a usable log"""
    sc, log = row['sc'], row['log']
    out = [f'#scenario {sid}']
    if cfg:
        out.append('cfg %d %d %d %d' % tuple(cfg))
    for i, b in enumerate(sc['buses']):
        mh = b.get('maxh', 50)
        out.append(f"newBus {i} {int(b.get('parallel', False))} {'-' if mh is None else mh} {int(bool(b.get('wal')))}")
    def on_lines(k, h):
        kind = {'async': 'a', 'sync': 's'}.get(h['kind']) or f"f{h['target']}"
        return [f"on {h['bus']} {keyno(sc, key)} {k} {kind}" for key in (h.get('keys') or [h['key']])]
    for k, h in enumerate(sc['handlers']):
        if not h.get('late'):
            out += on_lines(k, h)
    now = 0
    fwd_inst = {}
    n = len(log)
    skip = set()
    for idx, r in enumerate(log):
        if idx in skip:
            continue
        k = r['k']
        t = ticks(r['t'])
        if t != now and k not in ('final', 'accessors', 'accessorRaise'):
            out.append(f'tick {t}')
            now = t
        if k == 'init':
            pass
        elif k == 'new':
            to = r['timeout']
            tt = 0 if (to is None or to >= 300) else ticks(to)
            out.append(f"newEvent {r['e']} {keyno(sc, r['ty'])} {'-' if r['parent'] is None else r['parent']} {tt}")
        elif k == 'rlcreate':
            out.append(f"rlCreate {r['b']}")
            if r['holds']:
                out.append('note rlcreate-in-holder-context')
        elif k == 'dispatch':
            p = r['p']
            if p.startswith('R'):
                p = 'X'
            out.append(f"dispatch {p} {r['b']} {r['e']} {r['res']}")
            if r['res'] != 'ok':
                out.append(f"oRejected {r['b']} {r['e']} {lst(r['hist'])} {lst(r.get('q', []))}")
                if r.get('nchild') is not None and p.startswith('I'):
                    # a refused dispatch leaves the dispatching handler's list of children as it was
                    out.append(f"oChildCount {p} {r['e']} {r['nchild']} rejected")
            out.append(f"oHist {r['b']} {lst(r['hist'])}")
            if r['res'] == 'ok' and 'q' in r:
                out.append(f"oAccepted {r['b']} {r['e']} {lst(r['q'])}")

            if r['res'] == 'ok' and 'parent' in r:
                out.append(f"oParent {p} {r['e']} {'-' if r['parent'] is None else r['parent']}")
                if r.get('nchild') is not None and p.startswith('I'):
                    out.append(f"oChildCount {p} {r['e']} {r['nchild']}")
            if r['res'] == 'ok' and not r['same']:
                out.append('oIdentity dispatch-returned-another-object')
        elif k == 'take':
            out.append(f"take {r['p']} {r['b']} {r['e']}")
        elif k == 'peBegin':
            # recursion guard: process_event raises before creating any result
            nxt = log[idx + 1] if idx + 1 < n else None
            if nxt and nxt['k'] == 'peAbort' and nxt['why'] == 'RuntimeError' and nxt['p'] == r['p'] and nxt['e'] == r['e']:
                out.append(f"peRecTrip {r['p']} {r['b']} {r['e']}")
                skip.add(idx + 1)
            else:
                out.append(f"peBegin {r['p']} {r['b']} {r['e']}")
                ks = []
                j = idx + 1
                while j < n and log[j]['k'] == 'resPending' and log[j]['e'] == r['e'] and log[j]['b'] == r['b']:
                    ks.append(log[j]['h'])
                    j += 1
                out.append(f"oTodo {r['p']} {lst(ks)}")
        elif k == 'resPending':
            pass
        elif k == 'hSched':
            out.append(f"hSched {r['x']} {r['i']} {r['b']} {r['e']} {r['h']}")
            if r['hk'] in ('forward', 'expect'):
                out.append(f"hStart {r['i']}")
                fwd_inst[r['i']] = True
        elif k == 'hSkip':
            out.append(f"hSkip {r['x']} {r['b']} {r['e']} {r['h']}")
        elif k == 'hStart':
            out.append(f"hStart {r['i']}")
        elif k == 'unscheduledStart':
            out.append(f"unscheduledStart {r['i']}")
        elif k == 'hCancel':
            out.append(f"hCancel {r['i']}")
        elif k == 'hEnd':
            out.append(f"hEnd {r['i']} {r['out']}")
        elif k == 'resFinish':
            if r['i'] is None:
                out.append('resFinishWithoutInstance')
            else:
                if r['i'] in fwd_inst:
                    out.append(f"hEnd {r['i']} {'ret' if r['what'] == 'result' else 'raise'}")
                out.append(f"hFinish {r['i']} {fin_of(r)}")
        elif k == 'peEnd':
            out.append(f"peEnd {r['p']} {r['b']} {r['e']}")
            s = r['snap']
            out.append(f"oEvS {r['e']} {s['st']} {int(s['sig'])} {len(s['res'])}")
            for e2, (st, sg, nr) in r['all'].items():
                out.append(f"oEvS {e2} {st} {int(sg)} {nr}")
            out.append(f"oHist {r['b']} {lst(r['bus']['hist'])}")
            out.append(f"oUnf {r['b']} {r['bus']['unf'] - 1}")   # task_done() follows at once
            if r['p'].startswith('R'):
                nxt = log[idx + 1] if idx + 1 < n else None
                if not (nxt is not None and nxt['k'] == 'idleSet' and nxt['p'] == r['p']):
                    out.append(f"oIdle {r['b']} {int(r['bus']['idle'])}")
        elif k == 'peAbort':
            if r.get('why') not in (None, 'CancelledError', 'RuntimeError'):
                # an exception other than a cancellation escaped process_event
                prev = log[idx - 1] if idx > 0 else None
                wal = int(bool(prev and prev['k'] == 'walWrite' and not prev.get('ok', True) and prev.get('e') == r['e']))
                out.append(f"oProcessRaised {r['b']} {r['e']} {r['why']} {wal}")
            out.append(f"peAbort {r['p']} {r['b']} {r['e']}")
        elif k == 'accessorRaise':
            out.append(f"oAccessorRaise {r['e']} {1 if r['bad'] else 0} {r['bad'].replace(' ', '_') or '-'}")
        elif k == 'accessors':
            out.append(f"oAccessors {r['e']} {int(bool(r['changed']))}")
        elif k == 'on':
            out += on_lines(r['h'], sc['handlers'][r['h']])
        elif k == 'pollYield':
            out.append(f"pollYield {r['i']} {r['n']}")
        elif k == 'awaitBegin':
            out.append(f"awaitBegin {r['i']} {r['e']}")
        elif k == 'awaitEnd':
            out.append(f"awaitEnd {r['i']} {r['e']}")
            s = r['snap']
            out.append(f"oAwaited {r['i']} {r['e']} {int(s['sig'])}")
            out.append(f"oEvS {r['e']} {s['st']} {int(s['sig'])} {len(s['res'])}")
            if not r['same']:
                out.append('oIdentity await-returned-another-object')
        elif k == 'awaitRaise':
            out.append(f"note awaitRaise {r['i']} {r['e']} {r['why']}")
        elif k == 'xAwaitBegin':
            pass
        elif k == 'xAwaitEnd':
            out.append(f"xAwaitEnd {r['e']}")
            s = r['snap']
            out.append(f"oEvS {r['e']} {s['st']} {int(s['sig'])} {len(s['res'])}")
            if not r['same']:
                out.append('oIdentity await-returned-another-object')
        elif k == 'xAwaitHang':
            out.append(f"xAwaitHang {r['e']}")
        elif k == 'xAwaitRaise':
            out.append(f"xAwaitRaise {r['e']} {r['why']}")
        elif k == 'readbus':
            out.append(f"readBus {r['i']} {r['got'] if isinstance(r['got'], int) and r['got'] >= 0 else '-'}")
        elif k == 'waitIdleBegin':
            nxt = log[idx + 1] if idx + 1 < n else None
            if nxt is not None and nxt['k'] == 'rlcreate' and nxt['b'] == r['b']:
                out.append(f"rlCreate {r['b']}")     # wait_until_idle() starts the bus first
                skip.add(idx + 1)
            out.append(f"wiBegin {r['x']} {r['b']}")
        elif k == 'waitIdleEnd':
            out.append(f"wiEnd {r['x']}")
            out.append(f"oQueue {r['b']} {lst(r['bus']['q'])}")
            out.append(f"oIdle {r['b']} {int(r['bus']['idle'])}")
            out.append(f"oUnf {r['b']} {r['bus']['unf']}")
        elif k == 'idleSet':
            p = r['p']
            prev = log[idx - 1] if idx > 0 else None
            nxt = log[idx + 1] if idx + 1 < n else None
            if p.startswith('R'):
                if prev is not None and prev['k'] == 'peEnd' and prev['p'] == p:
                    out.append(f"oIdle {r['b']} 1")      # part of the run loop's peEnd block
                elif prev is not None and prev['k'] == 'idleSet' and prev['p'] == p and prev['t'] == r['t'] and idx >= 2 and log[idx - 2]['k'] == 'peEnd':
                    out.append(f"oIdle {r['b']} 1")
                elif nxt is not None and nxt['k'] == 'rlDone' and nxt['b'] == r['b']:
                    pass                                   # part of rlExit
                else:
                    out.append(f"rlPoll {r['b']}")
                    out.append(f"oIdle {r['b']} 1")
            # set by stop(): part of stopEnd
        elif k == 'idleClear':
            p = r['p']
            if p.startswith('R'):
                out.append(f"rlWake {r['b']}")
            elif p.startswith('X') and len(p) > 1:
                out.append(f"wiRecheck {p[1:]}")
            else:
                out.append(f"unknownIdleClear {p}")
        elif k == 'rlDone':
            out.append(f"rlDone {r['b']}")
            out.append(f"oIdle {r['b']} {int(r['idle'])}")
        elif k == 'stopBegin':
            out.append(f"stopBegin {r['x']} {r['b']} {int(r['clear'])}")
        elif k == 'stopNoop':
            out.append(f"stopNoop {r['x']} {r['b']}")
        elif k == 'stopEnd':
            out.append(f"stopEnd {r['x']}")
            out.append(f"oStopTook {r['x']} {ticks(r['took'])}")
            out.append(f"oIdle {r['b']} {int(r['bus']['idle'])}")
            out.append(f"oHist {r['b']} {lst(r['bus']['hist'])}")
        elif k == 'cancelRl':
            out.append(f"cancelRl {r['b']}")
            if r.get('observe'):
                # cancellation of a parallel activation mid-flight: the orphaned sibling handler tasks are outside the model.
                # Only the termination of the cancelled run-loop task is observed from here on.
                nxt = next((q for q in log[idx + 1:] if q['k'] == 'rlTaskDone'), None)
                if nxt is not None:
                    out.append(f"oRlTaskDone {nxt['b']} {int(bool(nxt['done']))}")
                break
        elif k in ('expectTimeout', 'expectCancelReq'):
            out.append(f"{k} {r['x']}")
        elif k == 'expectBegin':
            out.append(f"expectBegin {r['x']} {r['b']} {keyno(sc, r['key'])} {r['h']} {r['pred']} {'-' if r['timeout'] is None else ticks(r['timeout'])}")
            out.append(f"oNHandlers {r['b']} {r['bus']['nh'] + 1}")
        elif k == 'expectEnd':
            out.append(f"expectEnd {r['x']} {'-' if r['got'] is None else r['got']}")
            out.append(f"oAfterExpect {r['b']} {r['bus']['nh']}")
        elif k == 'expectCancel':
            out.append(f"expectCancel {r['x']}")
            out.append(f"oAfterExpect {r['b']} {r['bus']['nh']}")
        elif k == 'walWrite':
            out.append(f"walWrite {r['p']} {r['b']} {r['e']} {int(r['ok'])}")
            if r['ok'] and not r.get('faithful', True):
                out.append(f"oWalUnfaithful {r['b']} {r['e']} {r['why'].replace(' ', '_')}")
            if not r['ok'] and r.get('why') == 'serialise' and not r.get('expected'):
                # the event's payload is serialisable and no fault was injected, yet no line was written for it
                out.append(f"oWalLineMissing {r['b']} {r['e']}")
        elif k == 'expectHang':
            out.append(f"expectHang {r['x']}")
        elif k == 'waitIdleHang':
            out.append(f"waitIdleHang {r['b']}")
            out.append(f"wiCancel {r['x']}")
        elif k == 'final':
            out.append('rest')
            for e, s in r['events'].items():
                out.append(f"oEv {e} {s['st']} {int(s['sig'])} {'-' if s['parent'] is None else s['parent']} {lst(s['path'])} {len(s['res'])}")
                for j, x in enumerate(s['res']):
                    out.append(f"oRes {e} {j} {x[0]} {x[1]} {x[2]} {x[3] if x[3] in ('timeout', 'cancelled') else ('-' if x[3] is None else ('validation' if x[3] == 'ValueError' and False else 'handler'))} {lst(x[4])}")
            for bi, bs in enumerate(r['buses']):
                out.append(f"oHist {bi} {lst(bs['hist'])}")
                out.append(f"oQueue {bi} {lst(bs['q'])}")
                out.append(f"oUnf {bi} {bs['unf']}")
                out.append(f"oIdle {bi} {int(bs['idle'])}")
                out.append(f"oNHandlers {bi} {bs['nh']}")
            out.append(f"oLock {1 if r['sem'] == 1 else 0}")
            break
        else:
            out.append(f"unknownRecord {k}")
    return out
