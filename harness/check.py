#!/venv/bin/python
"""check CLI: decide one property on /repo's current working tree.

    ./check C05 --tier quick|thorough      (VERIF_SEED, VERIF_TIER honoured)
    ./check C05 --replay replays/C05-….json

exit 0: held on everything explored (KNOWN-FINDING lines for listed findings)
exit 1: `VIOLATION property=<id> replay=<path>` (… ` no-failing-input-found` when only a proof obligation or the
        correspondence broke and the search found no concrete failing input)
exit 2: infrastructure error (Lean build / audit / harness), never a verdict
"""
import argparse
import hashlib
import json
import os
import random
import subprocess
import sys
import time
from collections import Counter, defaultdict

HERE = os.path.dirname(os.path.abspath(__file__))
ROOT = os.path.dirname(HERE)
sys.path.insert(0, HERE)

import families  # noqa: E402
import gen  # noqa: E402
import pool  # noqa: E402

LEAN = os.path.join(ROOT, 'lean')
DRIVER = os.path.join(LEAN, '.lake', 'build', 'bin', 'driver')
ALLOWED_AXIOMS = {'propext', 'Classical.choice', 'Quot.sound'}


def infra(msg):
    print(f'INFRA-ERROR: {msg}')
    sys.exit(2)


# ---------------------------------------------------------------------------------------------- proof gate
def lean_sources_hash():
    h = hashlib.sha256()
    for d, _, fs in sorted(os.walk(LEAN)):
        if '.lake' in d:
            continue
        for f in sorted(fs):
            if f.endswith('.lean') or f.endswith('.toml'):
                h.update(f.encode())
                h.update(open(os.path.join(d, f), 'rb').read())
    return h.hexdigest()


def proof_gate(thorough=False):
    """build the Lean project, audit axioms of every property theorem, grep for escape hatches"""
    t0 = time.time()
    cache = os.path.join(LEAN, '.lake', 'audit-cache.json')
    hsh = lean_sources_hash()
    if os.path.exists(cache) and os.path.exists(DRIVER) and not thorough:
        try:
            c = json.load(open(cache))
            if c.get('hash') == hsh:
                c['cached'] = True
                return c
        except Exception:
            pass
    r = subprocess.run(['lake', 'build'], cwd=LEAN, capture_output=True, text=True)
    if r.returncode != 0:
        infra('lake build failed:\n' + (r.stdout + r.stderr)[-3000:])
    # escape hatches
    bad = []
    for d, _, fs in os.walk(LEAN):
        if '.lake' in d:
            continue
        for f in fs:
            if not f.endswith('.lean'):
                continue
            incomment = False
            for ln, line in enumerate(open(os.path.join(d, f), encoding='utf-8'), 1):
                code = line
                if '/-' in code and '-/' not in code:
                    incomment = True
                    continue
                if incomment:
                    if '-/' in code:
                        incomment = False
                    continue
                code = code.split('--')[0]
                for w in ('sorry', 'admit', 'native_decide', 'bv_decide', 'implemented_by', 'maxHeartbeats 0'):
                    if w in code:
                        bad.append(f'{f}:{ln}: {w}')
                if code.startswith('axiom ') or ' unsafe ' in (' ' + code):
                    bad.append(f'{f}:{ln}: axiom/unsafe')
    if bad:
        infra('escape hatch in Lean sources: ' + '; '.join(bad[:10]))
    r = subprocess.run(['lake', 'env', 'lean', 'Bubus/Audit.lean'], cwd=LEAN, capture_output=True, text=True)
    if r.returncode != 0:
        infra('axiom audit failed:\n' + (r.stdout + r.stderr)[-3000:])
    thms = {}
    for line in r.stdout.splitlines():
        if line.startswith('AXIOMS '):
            name, _, axs = line[7:].partition(' : ')
            thms.setdefault(name.strip(), {})['axioms'] = [a for a in axs.strip().split(',') if a]
        elif line.startswith('STMT '):
            name, _, st = line[5:].partition(' : ')
            thms.setdefault(name.strip(), {})['statement'] = st.strip()
    for n, t in thms.items():
        extra = set(t.get('axioms', [])) - ALLOWED_AXIOMS
        if extra:
            infra(f'theorem {n} depends on non-standard axioms {sorted(extra)}')
    out = {'hash': hsh, 'theorems': thms, 'build_s': round(time.time() - t0, 1), 'cached': False}
    if thorough:
        mods = ['Bubus']
        r = subprocess.run(['lake', 'env', 'leanchecker'] + mods, cwd=LEAN, capture_output=True, text=True)
        out['leanchecker'] = 'ok' if r.returncode == 0 else ('failed: ' + (r.stdout + r.stderr)[-500:])
        if r.returncode != 0:
            infra('leanchecker rejected the compiled modules: ' + out['leanchecker'])
    try:
        json.dump(out, open(cache, 'w'))
    except Exception:
        pass
    return out


# ---------------------------------------------------------------------------------------------- driver
DRIVER_TIMEOUT = int(os.environ.get('VERIF_DRIVER_TIMEOUT', '1800'))


def run_driver(lines):
    if not os.path.exists(DRIVER):
        infra('driver binary missing (run setup_cmd)')
    # split at scenario boundaries into chunks and run the (single-threaded) driver on them in parallel
    blocks, cur = [], []
    for l in lines:
        if l.startswith('#scenario') and cur:
            blocks.append(cur)
            cur = []
        cur.append(l)
    if cur:
        blocks.append(cur)
    nchunks = max(1, min(pool.NPROC, len(blocks)))
    chunks = [[] for _ in range(nchunks)]
    sizes = [0] * nchunks
    for b in sorted(blocks, key=len, reverse=True):
        i = sizes.index(min(sizes))
        chunks[i] += b
        sizes[i] += len(b)
    procs = [subprocess.Popen([DRIVER], stdin=subprocess.PIPE, stdout=subprocess.PIPE, stderr=subprocess.PIPE, text=True) for _ in chunks]
    import threading
    outs = [None] * nchunks

    def feed(i):
        try:
            # (the driver follows a few thousand labels per second: a chunk that takes this long is stuck)
            outs[i] = procs[i].communicate('\n'.join(chunks[i]) + '\n', timeout=DRIVER_TIMEOUT)
        except subprocess.TimeoutExpired:
            procs[i].kill()
            outs[i] = procs[i].communicate()
            outs[i] = (outs[i][0], 'TIMEOUT after %d s' % DRIVER_TIMEOUT)
    ths = [threading.Thread(target=feed, args=(i,)) for i in range(nchunks)]
    for t in ths:
        t.start()
    for t in ths:
        t.join()
    stdout = ''
    for i, p in enumerate(procs):
        if p.returncode != 0:
            infra('driver crashed: ' + (outs[i][1] or '')[-2000:])
        stdout += outs[i][0]

    class R:
        pass
    r = R()
    r.stdout = stdout
    per = defaultdict(lambda: {'rej': [], 'obs': [], 'vio': [], 'vio_after': [], 'end': None})
    cov = {}
    for line in r.stdout.splitlines():
        k, _, rest = line.partition(' ')
        if k == 'COV':
            a, b = rest.rsplit(' ', 1)
            cov[a] = cov.get(a, 0) + int(b)
            continue
        sid, _, rest = rest.partition(' ')
        if k == 'REJ':
            ln, _, rest = rest.partition(' ')
            why, _, raw = rest.partition(' || ')
            per[sid]['rej'].append({'line': int(ln), 'why': why, 'raw': raw})
        elif k == 'OBS':
            ln, _, rest = rest.partition(' ')
            per[sid]['obs'].append({'line': int(ln), 'what': rest})
        elif k == 'VIO':
            ln, prop, clause, sigs, _, detail = (rest.split(' ', 5) + [''] * 6)[:6]
            v = {'line': int(ln), 'prop': prop, 'clause': clause,
                 'sigs': [] if sigs == 'sigs=-' else sigs[5:].split(','), 'detail': detail}
            if sid.endswith('~'):
                # found after the model and the code had already diverged in this scenario: the monitor ran on a
                # resynchronised model state (used only as the concrete failing input of a broken correspondence)
                per[sid[:-1]]['vio_after'].append(v)
            else:
                per[sid]['vio'].append(v)
        elif k == 'END':
            per[sid]['end'] = dict(x.split('=') for x in rest.split())
    return per, cov


# ---------------------------------------------------------------------------------------------- relevance of divergences
def facets_of(div):
    """abstract-state facets a divergence (rejected label or observation mismatch) concerns"""
    s = div.get('why') or div.get('what') or ''
    f = set()
    table = [
        ('dispatch: outcome', 'capacity'), ('dispatch:', 'dispatch'), ('take:', 'queue'), ('lock', 'lock'),
        ('recursion', 'recursion'), ('peBegin:', 'activation'), ('peRecTrip', 'recursion'), ('hSched:', 'handlers'), ('hSkip:', 'handlers'),
        ('hStart:', 'lifecycle'), ('hEnd:', 'lifecycle'), ('hFinish:', 'lifecycle'), ('deadline', 'timeout'),
        ('cancel', 'timeout'), ('tick:', 'timeout'), ('peEnd:', 'activation'), ('peAbort:', 'activation'),
        ('walWrite', 'wal'), ('wal lines', 'wal'), ('awaitBegin', 'await'), ('awaitEnd', 'await'), ('pollYield', 'await'),
        ('xAwaitEnd', 'signal'), ('rest:', 'rest'), ('unparsable', 'harness'),
        ('status', 'results'), ('#results', 'results'), ('error', 'results'), ('signal', 'signal'),
        ('parent', 'lineage'), ('children', 'lineage'), ('path', 'path'), ('history', 'history'), ('queue', 'queue'),
        ('unfinished', 'unfinished'), ('applicable handlers', 'handlers'), ('event_bus', 'eventbus'),
        ('idle', 'idle'), ('#handlers', 'registry'), ('expect', 'expect'), ('stop', 'stop'), ('wi', 'idle'),
        ('rl', 'runloop'),
    ]
    for key, fac in table:
        if key in s:
            f.add(fac)
    return f or {'other'}


# ---------------------------------------------------------------------------------------------- main
def load_known():
    p = os.path.join(ROOT, 'known_findings.json')
    if not os.path.exists(p):
        return {'findings': [], 'fixed': []}
    return json.load(open(p))


def scenario_hash(lines):
    h = hashlib.sha256()
    for l in lines:
        if l.startswith('#scenario') or l.startswith('tick'):
            continue
        h.update(l.encode())
    return h.hexdigest()[:16]


def decide(prop, tier, seed, replay=None):
    t0 = time.time()
    fam = families.FAMILIES[prop]
    gate = proof_gate(thorough=(tier == 'thorough'))
    my_thms = {n: t for n, t in gate['theorems'].items() if n.split('.')[-1].startswith(prop + '_') or
               any(n.split('.')[-1].startswith(s + '_') for s in fam.get('shared_theorems', []))}
    if not my_thms and not os.environ.get('VERIF_ALLOW_NO_THM'):
        infra(f'no theorem registered for {prop}')
    known = load_known()
    known_sigs = {f['id'] for f in known['findings'] if f['property'] == prop}

    if fam.get('engine'):
        # properties decided by a sibling model (C12 results, C19 retry, C20 semaphores): own harness
        import importlib
        eng = importlib.import_module(fam['engine'])
        return eng.decide(prop, tier, seed, gate, my_thms, known, t0, replay)

    jobs = []
    meta = {}
    if replay:
        rp = json.load(open(replay))
        jobs.append(('replay', rp['scenario'], rp.get('cfg')))
        meta['replay'] = {'family': 'replay'}
    else:
        for sid, sc, cfg, src in families.scenarios(prop, tier, seed):
            jobs.append((sid, sc, cfg))
            meta[sid] = {'family': src}
    res = pool.run_jobs(jobs)
    lines = []
    by_sid = {}
    harness_err = Counter()
    liveness_viol = []
    for (sid, sc, cfg), r in zip(jobs, res):
        by_sid[sid] = {'sc': sc, 'cfg': cfg, 'lines': r['lines'], 'err': r['err']}
        if r['err']:
            key = r['err'].split(':')[0]
            harness_err[key] += 1
            if key == 'watchdog-in-bubus':
                liveness_viol.append((sid, r['err']))
            if r['lines']:
                lines += r['lines']      # (a run stopped by the budget: its history so far is followed all the same)
            continue
        lines += r['lines']
    per, cov = run_driver(lines) if lines else ({}, {})

    relevant = set(fam['facets'])
    violations = []      # (sid, vio)
    knowns = Counter()
    diverged = []        # (sid, div)
    diverged_other = []  # (sid, div): divergences on facets this property's theorems do not read
    unrelated = Counter()
    ok_traces = 0
    nontrivial = set()
    all_hashes = set()
    vio_other = Counter()
    for sid, d in per.items():
        info = by_sid[sid]
        h = scenario_hash(info['lines'])
        all_hashes.add(h)
        if families.nontrivial(prop, info['sc'], info['lines']):
            nontrivial.add(h)
        divs = d['rej'] + d['obs']
        rel = [x for x in divs if facets_of(x) & relevant]
        for x in divs:
            if not (facets_of(x) & relevant):
                unrelated[(x.get('why') or x.get('what'))[:60]] += 1
        if rel:
            diverged.append((sid, rel[0]))
        elif divs:
            diverged_other.append((sid, divs[0]))
        elif not divs:
            ok_traces += 1
        for v in d['vio']:
            if v['prop'] != prop:
                vio_other[v['prop']] += 1
                continue
            hit = [s for s in v['sigs'] if s in known_sigs]
            if hit:
                for s in hit:
                    knowns[s] += 1
            else:
                violations.append((sid, v))

    # a scenario in which the real system never comes to rest (the generators only produce terminating programs), or spins
    # synchronously inside bubus, is a liveness failure: it breaks the rest-based part of the correspondence
    for sid, info in by_sid.items():
        err = info['err'] or ''
        key = err.split(':')[0]
        if key == 'watchdog-in-bubus' and 'rest' in relevant:
            # the library froze the event loop on this scenario (a synchronous spin inside bubus that the watchdog had to
            # break after 20 s of real time): nothing is processed any more - the scenario is the concrete failing input
            violations.append((sid, {'line': 0, 'prop': prop, 'clause': 'eventLoopFrozen', 'sigs': [],
                                     'detail': 'a synchronous spin inside bubus froze the event loop: ' + err[:300]}))
        elif err and key not in ('budget', 'watchdog-in-bubus', 'deadlock', 'watchdog', 'oversize') and 'harness' in relevant:
            # ('oversize': a generated scenario produced more records than the harness follows - skipped, as it says nothing about the code)
            # the scenario could not be run or recorded on this code at all (an attribute the tracing wrappers rely on is gone, a
            # wrapper raised): nothing of the correspondence was checked on it - that is a broken tie, not a pass
            diverged.append((sid, {'line': 0, 'why': 'harness: the scenario could not be run and recorded on this code', 'raw': err[:400]}))
        elif key in ('budget', 'watchdog-in-bubus', 'deadlock') and 'rest' in relevant:
            diverged.append((sid, {'line': 0, 'why': f'rest: the real system never comes to rest ({key}: ' +
                                   {'budget': 'loop-iteration budget exhausted while virtual time stands still or work never ends',
                                    'watchdog-in-bubus': 'synchronous spin inside bubus', 'deadlock': 'no runnable task and no timer'}[key] + ')',
                                   'raw': err[:400]}))

    os.makedirs(os.path.join(ROOT, 'replays'), exist_ok=True)
    exit_code = 0
    out_lines = []
    replay_path = None
    if violations:
        sid, v = violations[0]
        info = by_sid[sid]
        sc_min = (families.shrink(prop, info['sc'], info['cfg'], v, known_sigs)
                  if not replay and v['clause'] != 'eventLoopFrozen' else info['sc'])
        replay_path = os.path.join('replays', f"{prop}-{hashlib.sha256(json.dumps(sc_min, sort_keys=True).encode()).hexdigest()[:12]}.json")
        json.dump({'property': prop, 'kind': 'violation', 'clause': v['clause'], 'detail': v['detail'], 'sigs': v['sigs'],
                   'scenario': sc_min, 'cfg': info['cfg'], 'original_scenario': info['sc'], 'found_in': sid,
                   'how_to_replay': f'./check {prop} --replay {replay_path}'}, open(os.path.join(ROOT, replay_path), 'w'), indent=1)
        out_lines.append(f'VIOLATION property={prop} replay={replay_path}')
        exit_code = 1
    elif diverged:
        # correspondence broken on facets this property's theorems read: search for a concrete failing input.
        # 1. the diverging real histories themselves, followed to their end in the driver's degraded mode
        found = None
        for sid_, dv_ in diverged:
            cand = [v for v in per[sid_]['vio_after'] if v['prop'] == prop and not (set(v['sigs']) & known_sigs)]
            if cand:
                found = {'scenario': by_sid[sid_]['sc'], 'cfg': by_sid[sid_]['cfg'], 'clause': cand[0]['clause'],
                         'detail': cand[0]['detail'], 'found_in': sid_,
                         'note': 'the monitor was evaluated on the real history after the model had been resynchronised to the observed state'}
                dv_first = dv_
                break
        # 2. otherwise a wider search with model-independent monitors (if available)
        if not found:
            found = families.search_failing_input(prop, [by_sid[s]['sc'] for s, _ in diverged[:20]], seed, known_sigs)
        sid, dv = diverged[0]
        if found and 'found_in' in found:
            sid, dv = found['found_in'], dv_first
        info = by_sid[sid]
        if found:
            replay_path = os.path.join('replays', f"{prop}-{hashlib.sha256(json.dumps(found['scenario'], sort_keys=True).encode()).hexdigest()[:12]}.json")
            json.dump({'property': prop, 'kind': 'violation-after-divergence', **found,
                       'broken_correspondence': dv, 'how_to_replay': f'./check {prop} --replay {replay_path}'},
                      open(os.path.join(ROOT, replay_path), 'w'), indent=1)
            out_lines.append(f'VIOLATION property={prop} replay={replay_path}')
        else:
            replay_path = os.path.join('replays', f"{prop}-corr-{hashlib.sha256(json.dumps(info['sc'], sort_keys=True).encode()).hexdigest()[:12]}.json")
            json.dump({'property': prop, 'kind': 'broken-correspondence',
                       'obligation': dv, 'facets': sorted(facets_of(dv)),
                       'theorems_no_longer_tied_to_the_code': sorted(my_thms),
                       'scenario': info['sc'], 'cfg': info['cfg'], 'diverging_scenarios': len(diverged),
                       'how_to_replay': f'./check {prop} --replay {replay_path}'}, open(os.path.join(ROOT, replay_path), 'w'), indent=1)
            out_lines.append(f'VIOLATION property={prop} replay={replay_path} no-failing-input-found')
        exit_code = 1
    elif diverged_other:
        # the correspondence broke on facets this property's theorems do not read: they stay tied to the code, but the real
        # histories that left the model are still followed to their end (degraded mode) - if this property fails on one of them,
        # that history is a concrete failing input; if none does, nothing is reported for this property
        for sid_, dv_ in diverged_other:
            cand = [v for v in per[sid_]['vio_after'] if v['prop'] == prop and not (set(v['sigs']) & known_sigs)]
            if cand:
                sc_ = by_sid[sid_]['sc']
                replay_path = os.path.join('replays', f"{prop}-{hashlib.sha256(json.dumps(sc_, sort_keys=True).encode()).hexdigest()[:12]}.json")
                json.dump({'property': prop, 'kind': 'violation-after-divergence', 'scenario': sc_, 'cfg': by_sid[sid_]['cfg'],
                           'clause': cand[0]['clause'], 'detail': cand[0]['detail'], 'found_in': sid_,
                           'note': 'the correspondence broke on a facet outside this property; the monitor was evaluated on the real history after the model had been resynchronised to the observed state',
                           'broken_correspondence': dv_, 'how_to_replay': f'./check {prop} --replay {replay_path}'},
                          open(os.path.join(ROOT, replay_path), 'w'), indent=1)
                out_lines.append(f'VIOLATION property={prop} replay={replay_path}')
                exit_code = 1
                break
        if exit_code == 0 and len(diverged_other) * 4 > max(1, len(by_sid)):
            # more than a quarter of all real histories leave the model (on whatever facet): the model no longer describes this
            # code, and none of the theorems - this property's included - can be said to be about it
            sid_, dv_ = diverged_other[0]
            sc_ = by_sid[sid_]['sc']
            replay_path = os.path.join('replays', f"{prop}-corr-{hashlib.sha256(json.dumps(sc_, sort_keys=True).encode()).hexdigest()[:12]}.json")
            json.dump({'property': prop, 'kind': 'broken-correspondence', 'obligation': dv_,
                       'note': f'{len(diverged_other)} of {len(by_sid)} real histories are not accepted by the model (facets outside this property, but too many to call the model a model of this code)',
                       'theorems_no_longer_tied_to_the_code': sorted(my_thms), 'scenario': sc_, 'cfg': by_sid[sid_]['cfg'],
                       'diverging_scenarios': len(diverged_other), 'how_to_replay': f'./check {prop} --replay {replay_path}'},
                      open(os.path.join(ROOT, replay_path), 'w'), indent=1)
            out_lines.append(f'VIOLATION property={prop} replay={replay_path} no-failing-input-found')
            exit_code = 1
    findings_text = {f['id']: f['what'] for f in known['findings'] if f['property'] == prop}
    for s, n in sorted(knowns.items()):
        out_lines.append(f'KNOWN-FINDING: property={prop} {s} {findings_text.get(s, "")} (seen in {n} checks of this run)')

    # evidence
    sample_sid = next((s for s in per if by_sid[s]['lines'] and families.nontrivial(prop, by_sid[s]['sc'], by_sid[s]['lines'])), None) or next(iter(per), None)
    samples = []
    if sample_sid:
        samples.append({'scenario_id': sample_sid, 'scenario': by_sid[sample_sid]['sc'],
                        'history_head': by_sid[sample_sid]['lines'][:60]})
    samples += [{'theorem': n, 'statement': t.get('statement', ''), 'axioms': t.get('axioms', [])} for n, t in sorted(my_thms.items())]
    feat = Counter()
    for sid, info in by_sid.items():
        for k, v in gen.features(info['sc']).items():
            if v:
                feat[k] += 1
    ev = {
        'property_id': prop, 'tier': tier, 'seed': seed, 'level': 'proof',
        'coverage': {
            'obligations': len(my_thms), 'discharged': len(my_thms),
            'checker_cmd': 'cd lean && lake build && lake env lean Bubus/Audit.lean' + (' && lake env leanchecker Bubus' if tier == 'thorough' else ''),
            'trusted_base': ['Lean 4.33.0 kernel', 'axioms: ' + ', '.join(sorted({a for t in my_thms.values() for a in t.get('axioms', [])}) or ['none']),
                             'hand-written model lean/Bubus/Model (all of bubus is modelled, none verified directly)',
                             'correspondence check: harness/runner.py + translate.py + lean/Driver (real runs under virtual time, accepted label by label)',
                             'asyncio semantics (atomicity between suspension points, context copy at task creation, wait_for cancellation), pydantic validation as an oracle'],
            'traces_validated_against_impl': ok_traces,
            'evaluations': len(jobs),
            'distinct_nontrivial': len(nontrivial),
            'distinct_histories': len(all_hashes),
            'rule': fam['rule'],
            'samples': samples,
            'label_distribution': cov,
            'scenario_features': dict(feat),
            'families': dict(Counter(m['family'] for m in meta.values())),
            'harness_errors': dict(harness_err),
            'relevant_divergences': len(diverged),
            'unrelated_divergences': dict(unrelated),
            'known_findings_seen': dict(knowns),
            'violations_of_other_properties_seen': dict(vio_other),
            'proof_gate': {'cached': gate.get('cached'), 'build_s': gate.get('build_s'), 'leanchecker': gate.get('leanchecker')},
            'exhaustive': False,
        },
        'assumptions': ['asyncio fairness (every ready callback runs, every due timer fires)',
                        'handler ids injective over a scenario', 'sync handlers are instantaneous, async handlers do not swallow CancelledError'],
        'wall_s': round(time.time() - t0, 2),
        'violations': len(violations) + (1 if diverged and not violations else 0),
    }
    os.makedirs(os.path.join(ROOT, 'evidence'), exist_ok=True)
    json.dump(ev, open(os.path.join(ROOT, 'evidence', f'{prop}.json'), 'w'), indent=1)
    for l in out_lines:
        print(l)
    print(f'{prop} {tier}: {len(jobs)} scenarios, {ok_traces} accepted traces, {len(nontrivial)} distinct non-trivial, '
          f'{len(my_thms)} theorems, {len(violations)} violations, {len(diverged)} relevant divergences, '
          f'harness errors {dict(harness_err)}, {ev["wall_s"]} s')
    return exit_code


def main():
    ap = argparse.ArgumentParser()
    ap.add_argument('prop')
    ap.add_argument('--tier', default=os.environ.get('VERIF_TIER', 'quick'))
    ap.add_argument('--replay')
    a = ap.parse_args()
    seed = int(os.environ.get('VERIF_SEED', '0'))
    if a.prop not in families.FAMILIES:
        infra(f'unknown property {a.prop}')
    try:
        code = decide(a.prop, a.tier, seed, a.replay)
    except SystemExit:
        raise
    except BaseException as ex:  # noqa: BLE001
        # the machinery itself could not run on this code (an interface of the library that the harness or an engine relies on
        # has changed under it): nothing ties the theorems to this code any more - a broken correspondence, reported as such
        import traceback
        os.makedirs(os.path.join(ROOT, 'replays'), exist_ok=True)
        rp = os.path.join('replays', f'{a.prop}-corr-machinery.json')
        json.dump({'property': a.prop, 'kind': 'broken-correspondence',
                   'obligation': {'why': 'harness: the check could not be carried out on this code', 'raw': f'{type(ex).__name__}: {ex}',
                                  'traceback': traceback.format_exc()[-1500:]},
                   'how_to_replay': f'./check {a.prop}'}, open(os.path.join(ROOT, rp), 'w'), indent=1)
        print(f'VIOLATION property={a.prop} replay={rp} no-failing-input-found')
        code = 1
    sys.exit(code)


if __name__ == '__main__':
    main()
