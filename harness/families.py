"""Per-property scenario families, non-triviality rules, shrinking and the failing-input search."""
import copy
import glob
import json
import os
import random

import gen

HERE = os.path.dirname(os.path.abspath(__file__))
ROOT = os.path.dirname(HERE)

# facets: which parts of the abstract state / which label kinds the property's theorems and monitors read
# (a divergence between model and code alarms a property only if it touches one of its facets)
CORE = ['queue', 'activation', 'handlers', 'lifecycle', 'rest', 'harness', 'other']

FAMILIES = {
    'C01': dict(
        gens=[('core', dict(), 0.6), ('core', dict(p_redispatch=0.25, p_raise=0.25, p_timeout=0.2, nb=(1, 2)), 0.4)],
        facets=CORE + ['results', 'recursion', 'dispatch', 'capacity', 'lock', 'await', 'timeout'],
        rule='random ranked-dispatch scenarios (1-3 buses, serial/parallel, 1-6 handlers incl. wildcard, duplicate-key and '
             'forwarding registrations, sync/async/raising handlers, nested dispatch, in-handler awaits, re-dispatch, 1-2 external tasks); '
             'non-trivial: at least two handler instances are scheduled and some handler suspends (await or sleep); distinct: hash of the label sequence'),
    'C02': dict(
        gens=[('core', dict(nb=(2, 3), p_parallel=0.1), 0.64), ('parraise', dict(), 0.06), ('core', dict(nb=(1, 2), p_parallel=0.0, p_timeout=0.6), 0.15),
              ('chain', dict(p_timeout=0.6, p_unrelated=0.7), 0.15)],
        facets=CORE + ['lock', 'await', 'dispatch', 'timeout'],
        rule='2-3 buses, cross-bus dispatch from handlers with yields between dispatch and await, external dispatchers at offsets; '
             'handler timeouts that cancel an awaiting handler while it processes other events inline; '
             'non-trivial: some run loop holds a taken event while another process runs (take not immediately followed by its peBegin)'),
    'C03': dict(
        gens=[('core', dict(tasklen=(2, 7)), 0.55), ('core', dict(tasklen=(2, 7), p_wal=0.7, p_payload=0.7, p_walfault=0.15), 0.1), ('chain', dict(p_timeout=0.2, p_await=0.4, p_parallel=0.2), 0.27),
              ('stop', dict(p_cancel=0.1), 0.08)],
        facets=CORE + ['signal', 'results', 'lineage', 'history', 'recursion', 'lock', 'await', 'stop', 'runloop'],
        rule='event trees of depth <= 4 with awaited and fire-and-forget children on any bus, raising handlers, small histories; '
             'non-trivial: an external await returns or hangs for an event that has a child'),
    'C04': dict(
        gens=[('core', dict(nb=(1, 3), proglen=(1, 6)), 0.32), ('core', dict(nb=(2, 3), proglen=(1, 6), p_samenames=1.0), 0.08), ('core', dict(nb=(1, 2), proglen=(2, 6), p_timeout=0.5, nh=(2, 7)), 0.15),
              ('chain', dict(), 0.15), ('chain', dict(p_timeout=1.0, p_await=0.95, min_depth=3, nb=(1, 1), maxh=(50,)), 0.15), ('deep', dict(), 0.08),
              ('parraise', dict(), 0.07)],
        facets=CORE + ['await', 'signal', 'lock', 'results', 'lineage', 'timeout', 'recursion'],
        rule='handlers that dispatch to any bus and await with sleeps/yields before and during the await, nesting <= 4; '
             'non-trivial: an in-handler await occurs'),
    'C05': dict(
        gens=[('core', dict(nb=(1, 3), proglen=(1, 6), tasklen=(2, 7)), 0.4), ('parraise', dict(), 0.05), ('chain', dict(p_timeout=0.0, p_unrelated=0.8, p_parallel=0.2), 0.2),
              ('chain', dict(p_timeout=1.0, p_await=0.95, min_depth=3, nb=(1, 1), maxh=(50,), p_unrelated=0.6), 0.25), ('deep', dict(), 0.1)],
        facets=CORE + ['await', 'signal', 'lock', 'timeout', 'results'],
        rule='queues holding 0-4 unrelated events before/after the awaited child on the same/other buses, external dispatch during the window; '
             'non-trivial: an in-handler await occurs while another event is queued somewhere'),
    'C06': dict(
        gens=[('core', dict(nb=(2, 3)), 0.35), ('stop', dict(p_cancel=0.1), 0.2), ('core', dict(nb=(2, 3), p_timeout=0.6, p_cleanup=0.6, proglen=(1, 5)), 0.3),
              ('core', dict(nb=(2, 3), p_parallel=0.7, p_dupnames=1.0, nh=(3, 8), p_sync=0.05, p_wild=0.4, proglen=(1, 5)), 0.15)],
        facets=CORE + ['lock', 'await', 'timeout'],
        rule='2-3 buses, first use of a bus from main code / from inside a handler / inside an awaited child, long handlers; '
             'non-trivial: two buses each start a handler'),
    'C07': dict(
        gens=[('core', dict(nb=(2, 3), p_forward=0.45, p_wild=0.4), 0.27), ('fwdfail', dict(), 0.08), ('fanin', dict(), 0.05),
              ('core', dict(nb=(2, 4), p_forward=0.5, p_wild=0.5, p_redispatch=0.25, nh=(2, 8)), 0.2),
              ('core', dict(nb=(3, 4), p_forward=0.6, p_wild=0.6, nh=(3, 8), p_samenames=1.0), 0.1),
              ('core', dict(nb=(2, 3), p_forward=0.4, p_wild=0.5, p_timeout=0.6, nh=(3, 8), proglen=(1, 4)), 0.22), ('deepfwd', dict(), 0.08)],
        facets=CORE + ['path', 'dispatch', 'results', 'lock', 'timeout', 'recursion'],
        rule='random forwarding digraphs (incl. self loops, several wildcard forwards per bus) with ordinary handlers and concurrent traffic; '
             'non-trivial: some forwarding handler dispatches'),
    'C08': dict(
        gens=[('core', dict(nb=(2, 3), p_forward=0.35, p_wild=0.3), 0.42), ('core', dict(nb=(2, 3), p_samenames=1.0, proglen=(1, 6)), 0.08), ('core', dict(p_timeout=0.5, proglen=(1, 6)), 0.2),
              ('chain', dict(p_timeout=0.8, p_await=0.6), 0.2), ('deep', dict(), 0.06), ('parshare', dict(), 0.04)],
        facets=CORE + ['results', 'signal', 'lineage', 'timeout', 'await'],
        rule='forwarding chains/diamonds with slow downstream handlers, external awaits; every state after first completion is an observation point; '
             'non-trivial: an event completes and at least 5 labels follow'),
    'C09': dict(
        gens=[('core', dict(p_parallel=0.4, p_readbus=0.12, p_parent=0.15, p_forward=0.2), 0.51), ('core', dict(p_parallel=0.3, p_forward=0.15, p_existing=0.05, p_raise=0.0), 0.2), ('backlog', dict(), 0.08),
              # nested awaits whose inner handlers fail or time out: attribution after an error inside the await window
              ('core', dict(p_parallel=0.15, p_raise=0.25, p_timeout=0.3, proglen=(2, 6), p_readbus=0.1), 0.09), ('errnest', dict(), 0.06), ('outbox', dict(), 0.06)],
        facets=CORE + ['lineage', 'path', 'eventbus', 'dispatch', 'capacity'],
        rule='parallel handlers dispatching at interleaved times, nested awaits, forwarding of roots and children, explicit parents, event_bus reads; '
             'non-trivial: a handler instance dispatches'),
    'C10': dict(
        gens=[('core', dict(p_timeout=0.6, proglen=(1, 6)), 0.41), ('chain', dict(p_timeout=1.0, p_selfparent=0.15), 0.25),
              ('chain', dict(p_timeout=1.0, p_await=0.95, min_depth=3, nb=(1, 1), maxh=(50,)), 0.12), ('deep', dict(), 0.08),
              ('sibling', dict(), 0.05), ('partimeout', dict(), 0.05), ('cleanup', dict(), 0.04)],
        facets=CORE + ['timeout', 'results', 'signal', 'unfinished', 'lineage', 'await', 'lock'],
        rule='per-type timeouts (odd multiples of 1/128 s) against handler programs of sleeps (multiples of 1/64 s), nested awaits; serial buses; '
             'non-trivial: a handler is cancelled by a deadline'),
    'C11': dict(
        gens=[('core', dict(p_raise=0.3), 0.42), ('backlog', dict(), 0.04), ('fwdfail', dict(), 0.04), ('core', dict(p_raise=0.4, p_rtype=0.6), 0.2), ('core', dict(p_raise=0.3, p_parallel=0.7, nb=(2, 3), proglen=(2, 6)), 0.1),
              ('parraise', dict(), 0.1), ('chain', dict(p_timeout=1.0, p_raise=0.2), 0.1)],
        facets=CORE + ['results', 'signal', 'timeout'],
        rule='raising handlers at every position (parent, child, awaited child, forwarded bus; sync and async, before/after suspension); '
             'non-trivial: a handler raises'),
    'C13': dict(
        gens=[('core', dict(maxh=[1, 2, 3, 4, 5], tasklen=(3, 8)), 0.9), ('evictgap', dict(), 0.1)],
        facets=['history', 'capacity', 'harness', 'other', 'queue'],
        rule='max_history_size 1-5, bursts larger than N, nested dispatch, slow handlers; non-trivial: an eviction happens'),
    'C14': dict(
        gens=[('core', dict(), 0.43), ('backlog', dict(), 0.45), ('stop', dict(p_cancel=0.9), 0.06), ('retrychain', dict(), 0.06)],
        facets=['capacity', 'dispatch', 'queue', 'history', 'lineage', 'unfinished', 'harness', 'other', 'rest', 'activation', 'handlers', 'runloop'],
        rule='backlog states around the queue limit (50) and the in-flight limit (100), dispatch from main code and from handlers; '
             'non-trivial: a dispatch is rejected'),
    'C15': dict(
        gens=[('core', dict(p_waitidle=0.35, tasklen=(2, 8), ntasks=(1, 3)), 0.31), ('retrychain', dict(), 0.04), ('core', dict(p_waitidle=0.3, p_timeout=0.4), 0.15),
              ('chain', dict(p_timeout=0.3), 0.15), ('idle', dict(), 0.2), ('backlog', dict(p_waitidle=1.0), 0.1), ('parraise', dict(idle=True), 0.05), ('cycle', dict(), 0.04),
              ('core', dict(p_wal=0.8, p_payload=0.8, p_waitidle=0.4, tasklen=(2, 7)), 0.06)],
        facets=['idle', 'unfinished', 'queue', 'rest', 'history', 'results', 'activation', 'harness', 'other', 'runloop', 'recursion', 'timeout'],
        rule='wait_until_idle racing external and nested dispatches at offsets around the 0.1 s poll, after errors, timeouts, rejections, evictions; '
             'non-trivial: a wait_until_idle call overlaps at least one activation'),
    'C16': dict(
        gens=[('stop', dict(), 1.0)],
        facets=['stop', 'runloop', 'idle', 'queue', 'lifecycle', 'activation', 'timeout', 'rest', 'harness', 'other', 'handlers'],
        rule='stop() / run-loop-task cancellation at every control state of the run loop (polling, event in hand, processing, handler mid-flight, '
             'blocked on the lock), backlog sizes 0-6, other buses with awaiting handlers; non-trivial: the stop or cancel arrives while the bus has work'),
    'C17': dict(
        gens=[('core', dict(p_wal=0.7, p_payload=0.6, p_walfault=0.15, p_forward=0.25, p_parallel=0.3), 0.68), ('parraise', dict(wal=True), 0.06), ('stop', dict(p_cancel=0.2, p_wal=0.8), 0.06),
              ('core', dict(p_wal=0.8, p_payload=0.4, p_rtype=0.7, p_forward=0.2), 0.2)],
        facets=['wal', 'activation', 'handlers', 'lifecycle', 'harness', 'other', 'results', 'signal'],
        rule='WAL buses with nested, awaited and forwarded events, parallel handlers, payloads (nested containers, unicode, datetimes, big ints), '
             'I/O faults on open/write; non-trivial: at least two WAL lines and one other activation'),
    'C18': dict(
        gens=[('core', dict(p_expect=0.3, ntasks=(1, 3), tasklen=(2, 7)), 0.65),
              # several concurrent expect() calls on one bus (same and different keys, different deadlines)
              ('expects', dict(), 0.15),
              # ... while ordinary handlers of the events fail: time out, raise, let a CancelledError escape
              ('core', dict(p_expect=0.5, ntasks=(2, 3), tasklen=(2, 7), p_timeout=0.7, p_raise=0.2, proglen=(1, 5), nb=(1, 2)), 0.2)],
        facets=['expect', 'registry', 'handlers', 'lifecycle', 'activation', 'harness', 'other', 'timeout', 'results'],
        rule='event streams x include/exclude/raising predicates x timeouts x 1-3 concurrent expect() calls; non-trivial: an expect() is pending while an event of its type is processed'),
    # not a property: scenario family used by tools/mine_witness.py for the parallel-bus findings
    'XPAR': dict(gens=[('core', dict(p_parallel=0.9, nb=(1, 2), proglen=(2, 6), nh=(2, 7)), 1.0)], facets=CORE, rule='mining only'),
    'C19': dict(engine='eng_retry', facets=[], rule='see eng_retry.py'),
    'C20': dict(engine='eng_retry', facets=[], rule='see eng_retry.py'),
    'C12': dict(engine='eng_results', facets=[], rule='see eng_results.py'),
}

BUDGET = {'quick': 1130, 'thorough': 18800}


def gen_backlog(rng, p_waitidle=0.0, **_):
    """a handler (or main code) dispatching bursts around the queue / capacity limits"""
    nb = rng.randint(1, 2)
    maxh = rng.choice([50, 200, None, 120, 1, 5, 20, 49, 30])
    sc = {'buses': [{'parallel': False, 'maxh': maxh, 'wal': False} for _ in range(nb)],
          'types': {n: {'timeout': None} for n in gen.RANK}, 'handlers': [], 'tasks': []}
    n = rng.choice([45, 49, 50, 51, 52, 60, 99, 100, 101, 110])
    inside = rng.random() < 0.6
    tgt = rng.randrange(nb)
    if inside:
        prog = [['dispatch', tgt, 'D', i] for i in range(n)]
        if rng.random() < 0.5:
            prog.insert(rng.randrange(len(prog)), ['sleep', 1 / 64])
        retry = rng.random() < 0.4
        strict = rng.random() < 0.3      # the handler lets the exception of the first refused dispatch escape
        sc['handlers'].append({'bus': 0, 'key': 'A', 'kind': rng.choice(['async', 'sync']), 'prog': [p for p in prog if p[0] != 'sleep'] if False else prog})
        if sc['handlers'][-1]['kind'] == 'sync':
            sc['handlers'][-1]['prog'] = [p for p in prog if p[0] != 'sleep']
        elif retry:
            # let the queue drain by awaiting an early child, then dispatch the last (probably refused) events again
            sc['handlers'][-1]['prog'] = prog + [['await', rng.randrange(3)]] + [['redispatch', n - 1 - j, tgt] for j in range(rng.randint(1, 3))]
        sc['tasks'].append([['dispatch', 0, 'A', 0], ['await', 0]])
        if strict:
            sc['handlers'][-1]['prog'].insert(0, ['strict'])
            if rng.random() < 0.5:
                sc['handlers'].append({'bus': 0, 'key': rng.choice(['A', '*']), 'kind': 'async', 'prog': [['sleep', rng.choice([0, 1 / 64])]]})
    else:
        sc['tasks'].append([['dispatch', tgt, 'D', i] for i in range(n)] + [['sleep', 1 / 64], ['dispatch', tgt, 'D', n]])
    if rng.random() < 0.5:
        sc['handlers'].append({'bus': tgt, 'key': 'D', 'kind': 'async', 'prog': [['sleep', rng.choice([0, 1 / 64])]]})
    if p_waitidle and rng.random() < p_waitidle:
        # wait_until_idle() after the burst (and its rejections) on every bus
        for b in range(nb):
            sc['tasks'][0].append(['waitidle', b])
    return sc


GENS = {'core': gen.gen_core, 'backlog': gen_backlog, 'chain': gen.gen_chain, 'stop': gen.gen_stop, 'idle': gen.gen_idle, 'deep': gen.gen_deep, 'sibling': gen.gen_sibling, 'parraise': gen.gen_parraise, 'deepfwd': gen.gen_deepfwd, 'parshare': gen.gen_parshare, 'partimeout': gen.gen_partimeout, 'cycle': gen.gen_cycle, 'errnest': gen.gen_errnest, 'fwdfail': gen.gen_fwdfail, 'evictgap': gen.gen_evictgap, 'expects': gen.gen_expects, 'outbox': gen.gen_outbox, 'retrychain': gen.gen_retrychain, 'fanin': gen.gen_fanin, 'cleanup': gen.gen_cleanup}


def bus_classes(rng, sc):
    """applications subclass EventBus: in a quarter of the scenarios with several buses some buses are instances of (one of two)
    subclasses of the class the others are instances of"""
    if len(sc['buses']) > 1 and rng.random() < 0.25:
        for b in sc['buses']:
            b['cls'] = rng.choice([0, 0, 1, 2])


MIX_SHARE = 0.15
NO_MIX = set()


def corpus(prop):
    out = []
    for p in sorted(glob.glob(os.path.join(ROOT, 'corpus', '*.json'))):
        c = json.load(open(p))
        if prop in c.get('properties', []) or '*' in c.get('properties', []):
            out.append((os.path.basename(p)[:-5], c['scenario'], c.get('cfg')))
    return out


def scenarios(prop, tier, seed):
    """yields (sid, scenario, cfg, source)"""
    for name, sc, cfg in corpus(prop):
        yield f'corpus:{name}', sc, cfg, 'corpus'
    fam = FAMILIES[prop]
    total = BUDGET[tier]
    # a slice of every family's budget goes to the union of all families' streams: defects sit where features meet (the WAL and
    # completion, stop() and the lock, bus names and awaits, ...), and every monitor is evaluated on every history anyway
    mix = int(total * MIX_SHARE) if prop not in NO_MIX else 0
    union = [(g, o) for p_, f_ in sorted(FAMILIES.items()) if 'gens' in f_ and p_ != 'XPAR' for (g, o, _) in f_['gens'] if g != 'cleanup']
    rng = random.Random(f'{prop}:mix:{seed}')
    for i in range(mix):
        gname, opts = union[rng.randrange(len(union))]
        sc = GENS[gname](rng, **opts)
        if len(sc['buses']) > 1 and 'bus_order' not in sc:
            order = list(range(len(sc['buses'])))
            rng.shuffle(order)
            sc['bus_order'] = order
        bus_classes(rng, sc)
        yield f'mix:{seed}:{i}', sc, None, 'mix'
    total -= mix
    for gi, (gname, opts, share) in enumerate(fam['gens']):
        rng = random.Random(f'{prop}:{gname}:{gi}:{seed}')
        for i in range(int(total * share)):
            sc = GENS[gname](rng, **opts)
            if len(sc['buses']) > 1 and 'bus_order' not in sc:
                order = list(range(len(sc['buses'])))
                rng.shuffle(order)
                sc['bus_order'] = order     # iteration order of EventBus.all_instances (unspecified in the library)
            bus_classes(rng, sc)
            yield f'{gname}{gi}:{seed}:{i}', sc, None, f'{gname}{gi}'


def nontrivial(prop, sc, lines):
    if not lines:
        return False
    kinds = [l.split(' ', 1)[0] for l in lines]
    cnt = {}
    for k in kinds:
        cnt[k] = cnt.get(k, 0) + 1
    if prop == 'C01':
        return cnt.get('hSched', 0) >= 2 and (cnt.get('awaitBegin', 0) > 0 or cnt.get('tick', 0) > 1)
    if prop == 'C02':
        for i, l in enumerate(lines[:-1]):
            if l.startswith('take R'):
                b = l.split()[1]
                if not lines[i + 1].startswith(f'peBegin {b} ') and not lines[i + 1].startswith(f'peRecTrip {b} '):
                    return True
        return False
    if prop == 'C03':
        return (cnt.get('xAwaitEnd', 0) + cnt.get('xAwaitHang', 0)) > 0 and any(l.startswith('dispatch I') for l in lines)
    if prop in ('C04',):
        return cnt.get('awaitBegin', 0) > 0
    if prop == 'C05':
        return cnt.get('awaitBegin', 0) > 0 and any(l.startswith('take I') for l in lines)
    if prop == 'C06':
        return len({l.split()[3] for l in lines if l.startswith('hSched')}) >= 2
    if prop == 'C07':
        fw = {k for k, h in enumerate(sc['handlers']) if h['kind'] == 'forward'}
        return any(l.startswith('hSched') and int(l.split()[5]) in fw for l in lines)
    if prop == 'C08':
        return cnt.get('peEnd', 0) >= 2
    if prop == 'C09':
        return any(l.startswith('dispatch I') for l in lines)
    if prop == 'C10':
        return any(l.startswith('hEnd') and l.endswith('cancelled') for l in lines)
    if prop == 'C11':
        return any(l.startswith('hFinish') and l.endswith('errHandler') for l in lines)
    if prop == 'C13':
        hist = [l for l in lines if l.startswith('oHist')]
        small = [b.get('maxh') for b in sc['buses'] if b.get('maxh')]
        return bool(small) and cnt.get('dispatch', 0) > min(small)
    if prop == 'C14':
        return any(l.startswith('dispatch') and not l.endswith(' ok') for l in lines)
    if prop == 'C15':
        inwi = False
        for l in lines:
            if l.startswith('wiBegin'):
                inwi = True
            elif l.startswith('wiEnd'):
                inwi = False
            elif inwi and l.startswith('peBegin'):
                return True
        return False
    if prop == 'C16':
        for i, l in enumerate(lines):
            if l.startswith('stopBegin') or l.startswith('cancelRl'):
                return any(x.startswith(('peEnd', 'peAbort', 'rlDone', 'take')) for x in lines[i:i + 12]) and cnt.get('dispatch', 0) > 0
        return False
    if prop == 'C17':
        return cnt.get('walWrite', 0) >= 2
    if prop == 'C18':
        return cnt.get('expectBegin', 0) > 0 and cnt.get('peBegin', 0) > 0
    return True


def evaluate(sc, cfg=None):
    """run one scenario through the real code and the driver; returns (err, per-scenario driver result)"""
    import check
    import pool
    r = pool._work(('x', sc, cfg))
    if r['err']:
        return r['err'], None
    per, _ = check.run_driver(r['lines'])
    return None, per.get('x')


def still_fails(prop, sc, cfg, clause, known_sigs):
    err, d = evaluate(sc, cfg)
    if err or d is None:
        return False
    return any(v['prop'] == prop and v['clause'] == clause and not (set(v['sigs']) & known_sigs) for v in d['vio'])


def shrink(prop, sc, cfg, vio, known_sigs, budget=60):
    """greedy delta reduction: drop tasks, handlers, instructions while the same clause still fails unexplained"""
    best = copy.deepcopy(sc)
    tries = 0

    def attempt(cand):
        nonlocal best, tries
        tries += 1
        if tries > budget:
            return False
        if still_fails(prop, cand, cfg, vio['clause'], known_sigs):
            best = cand
            return True
        return False

    changed = True
    while changed and tries <= budget:
        changed = False
        for ti in range(len(best['tasks']) - 1, 0, -1):
            c = copy.deepcopy(best)
            del c['tasks'][ti]
            if attempt(c):
                changed = True
                break
        for hi in range(len(best['handlers']) - 1, -1, -1):
            c = copy.deepcopy(best)
            c['handlers'][hi]['prog'] = []
            if c['handlers'][hi] != best['handlers'][hi] and attempt(c):
                changed = True
        for ti, t in enumerate(best['tasks']):
            for ii in range(len(t) - 1, -1, -1):
                c = copy.deepcopy(best)
                del c['tasks'][ti][ii]
                if attempt(c):
                    changed = True
                    break
    return best


def search_failing_input(prop, diverging, seed, known_sigs):
    """after a broken correspondence: look for a concrete violation of `prop` on the REAL code, using monitors
    that do not depend on the Lean model (harness/pymon.py), on the diverging scenarios, their neighbours and a
    10x budget of fresh scenarios"""
    try:
        import pymon
    except ImportError:
        return None
    return pymon.search(prop, diverging, seed, known_sigs)
