#!/bin/sh
# usage: tools/eval_all.sh  — evaluates every seeded change (seeded/*/patch.diff) and the revert of every `fix:` commit of
# /repo against the quick check of its property; prints one line per change: <id> concrete | corr-only | MISSED
cd /verif
for d in seeded/C*/; do
  id=$(basename $d); prop=${id%%-*}
  if [ -f $d/NEUTRALISED ]; then echo "$id neutralised (made harmless by a later fix, see $d/NEUTRALISED)"; continue; fi
  out=$(tools/eval_mutant.sh /verif/$d/patch.diff $prop 2>&1)
  if echo "$out" | grep -q "^VIOLATION.*no-failing-input-found"; then r=corr-only
  elif echo "$out" | grep -q "^VIOLATION"; then r=concrete
  else r=MISSED; fi
  echo "$id $r"
done
# reverts of the fixes: property taken from known_findings.json ('fixed: property=Cxx <commit> ...')
python3 - <<'PY' > /tmp/fixes.$$
import json
seen=set()
for l in json.load(open('/verif/known_findings.json'))['fixed']:
    p=l.split()[1].split('=')[1]; c=l.split()[2]
    print(p, c)
PY
while read prop c; do
  # (stored revert patches against the current HEAD: later fixes touch neighbouring lines, a plain reverse diff no longer applies)
  out=$(tools/eval_mutant.sh /verif/seeded/reverts/$c.diff $prop 2>&1)
  if echo "$out" | grep -q "^VIOLATION.*no-failing-input-found"; then r=corr-only
  elif echo "$out" | grep -q "^VIOLATION"; then r=concrete
  else r=MISSED; fi
  echo "revert-$c $prop $r"
done < /tmp/fixes.$$
rm -f /tmp/fixes.$$
