#!/bin/sh
# usage: tools/eval_mutant.sh <patch.diff> C01 C02 ...   — apply to /repo, run the quick checks, undo
patch=$1; shift
git -C /repo apply "$patch" || { echo "patch does not apply"; exit 3; }
for p in "$@"; do
  echo "=== $p"; VERIF_ALLOW_NO_THM=1 /verif/check $p --tier ${TIER:-quick} | grep -v "^KNOWN" ; 
done
git -C /repo checkout -- .
git -C /repo status --short | head -3
