#!/bin/sh
# usage: tools/eval_mutant.sh <patch.diff> C01 C02 ...   — apply to /repo, run the quick checks, always undo
patch=$1; shift
if [ -n "$(git -C /repo status --porcelain)" ]; then echo "/repo working tree is not clean"; exit 3; fi
trap 'git -C /repo checkout -- . ' EXIT INT TERM
git -C /repo apply "$patch" || { echo "patch does not apply"; exit 3; }
for p in "$@"; do
  echo "=== $p"; timeout 600 /verif/check $p --tier ${TIER:-quick} | grep -v "^KNOWN" ;
done
