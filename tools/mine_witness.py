#!/venv/bin/python
"""find and minimise a scenario that exhibits a given known finding (property, clause?, signature) on the real code;
   writes corpus/<name>.json.   usage: tools/mine_witness.py <name> <prop> <sig> [family-prop] [n]"""
import copy, json, os, random, sys
sys.path.insert(0, os.path.join(os.path.dirname(os.path.abspath(__file__)), '..', 'harness'))
import check, families, pool

name, prop, sig = sys.argv[1:4]
fam = sys.argv[4] if len(sys.argv) > 4 else prop
n = int(sys.argv[5]) if len(sys.argv) > 5 else 1500


def shows(sc):
    r = pool._work(('x', sc, None))
    if r['err']:
        return False
    per, _ = check.run_driver(r['lines'])
    d = per.get('x')
    if not d or d['rej'] or d['obs']:
        return False
    return any(v['prop'] == prop and sig in v['sigs'] for v in d['vio'])


def size(sc):
    return len(json.dumps(sc))

best = None
jobs = [(sid, sc, cfg) for sid, sc, cfg, src in families.scenarios(fam, 'thorough', 77) if not sid.startswith('corpus')][:n]
res = pool.run_jobs(jobs)
lines = []
for (sid, sc, cfg), r in zip(jobs, res):
    if not r['err']:
        lines += r['lines']
per, _ = check.run_driver(lines)
cands = []
for (sid, sc, cfg), r in zip(jobs, res):
    d = per.get(sid)
    if d and not d['rej'] and not d['obs'] and any(v['prop'] == prop and sig in v['sigs'] for v in d['vio']):
        cands.append(sc)
cands.sort(key=size)
if not cands:
    print('no witness found'); sys.exit(1)
best = cands[0]
changed = True
while changed:
    changed = False
    for ti in range(len(best['tasks']) - 1, -1, -1):
        for ii in range(len(best['tasks'][ti]) - 1, -1, -1):
            c = copy.deepcopy(best); del c['tasks'][ti][ii]
            if shows(c): best = c; changed = True; break
        if len(best['tasks']) > 1:
            c = copy.deepcopy(best); del c['tasks'][ti]
            if c['tasks'] and shows(c): best = c; changed = True; break
    for hi in range(len(best['handlers']) - 1, -1, -1):
        for ii in range(len(best['handlers'][hi]['prog']) - 1, -1, -1):
            c = copy.deepcopy(best); del c['handlers'][hi]['prog'][ii]
            if shows(c): best = c; changed = True; break
os.makedirs(os.path.join(check.ROOT, 'corpus'), exist_ok=True)
out = os.path.join(check.ROOT, 'corpus', name + '.json')
old = json.load(open(out)) if os.path.exists(out) else {'properties': []}
props = sorted(set(old.get('properties', []) + [prop]))
json.dump({'properties': props, 'finding': sig, 'scenario': best}, open(out, 'w'), indent=1)
print('wrote', out, 'size', size(best), json.dumps(best))
