#!/usr/bin/env python3
"""turn the label lines of a driver input (harness/pool.py <scenario.json>) into a Lean `List Label` literal
   (used to write the non-vacuity examples of lean/Bubus/Proofs/Examples.lean from real accepted histories)"""
import sys


def proc(p):
    return f'(.rl {p[1:]})' if p[0] == 'R' else (f'(.inst {p[1:]})' if p[0] == 'I' else '.ext')


def opt(x):
    return 'none' if x == '-' else f'(some {x})'


def kind(k):
    return {'a': '.async', 's': '.sync'}.get(k) or f'(.forward {k[1:]})'


def conv(t):
    k = t[0]
    if k == 'newBus':
        return f".newBus {t[1]} {'true' if t[2] == '1' else 'false'} {opt(t[3])} {'true' if t[4] == '1' else 'false'}"
    if k == 'on':
        return f".on {t[1]} {t[2]} {t[3]} {kind(t[4])}"
    if k == 'newEvent':
        return f".newEvent {t[1]} {t[2]} {opt(t[3])} {t[4]}"
    if k == 'dispatch':
        return f".dispatch {proc(t[1])} {t[2]} {t[3]} .{t[4]}"
    if k in ('take', 'peBegin', 'peEnd', 'peAbort', 'peRecTrip'):
        return f".{k} {proc(t[1])} {t[2]} {t[3]}"
    if k == 'hSched':
        return f".hSched {proc(t[1])} {t[2]} {t[3]} {t[4]} {t[5]}"
    if k in ('hEnd',):
        return f".hEnd {t[1]} .{t[2]}"
    if k == 'hFinish':
        return f".hFinish {t[1]} .{t[2]}"
    if k in ('tick', 'rlCreate', 'rlWake', 'rlPoll', 'hStart', 'hCancel', 'xAwaitEnd', 'rlExit', 'cancelRl', 'rlCancelled',
             'rlDropExit', 'wiRecheck', 'wiEnd', 'wiCancel', 'stopEnd'):
        return f".{k} {t[1]}"
    if k in ('awaitBegin', 'awaitEnd', 'wiBegin'):
        return f".{k} {t[1]} {t[2]}"
    return None


out = []
for line in sys.stdin:
    t = line.split()
    if not t or t[0].startswith('#') or t[0].startswith('o') and t[0] != 'on' and t[0] != 'off':
        continue
    c = conv(t)
    if c is None:
        out.append(f'-- ?? {line.strip()}')
    else:
        out.append(c)
print('[' + ',\n   '.join(out) + ']')
