#!/bin/sh
# usage: tools/confirm_mutant.sh <name> <dir with patch.diff demo.py NOTES.md>
# confirms in a fresh scratch worktree: demo passes without the change, fails with it, and the full unedited
# test-suite passes with it; then stores it under /verif/seeded/<name>/
name=$1; src=$2
wt=/tmp/confirm_wt_$$
git -C /repo worktree add -q --detach $wt HEAD || exit 3
cp $src/demo.py $wt/demo.py
cd $wt
PYTHONPATH=$wt timeout 120 /venv/bin/python demo.py >/tmp/confirm_$name.clean.out 2>&1; clean=$?
git apply $src/patch.diff || { echo "$name: patch does not apply"; cd /; git -C /repo worktree remove --force $wt; exit 3; }
PYTHONPATH=$wt timeout 120 /venv/bin/python demo.py >/tmp/confirm_$name.mut.out 2>&1; mut=$?
PYTHONPATH=$wt /venv/bin/python -m pytest -q -p no:cacheprovider --timeout=900 -x >/tmp/confirm_$name.suite.out 2>&1; suite=$?
tail -1 /tmp/confirm_$name.suite.out > /tmp/confirm_$name.suite.tail
cd /
git -C /repo worktree remove --force $wt
echo "$name: demo_clean_exit=$clean demo_mutant_exit=$mut suite_exit=$suite ($(cat /tmp/confirm_$name.suite.tail))"
if [ $clean -eq 0 ] && [ $mut -ne 0 ] && [ $suite -eq 0 ]; then
  mkdir -p /verif/seeded/$name
  cp $src/patch.diff $src/demo.py /verif/seeded/$name/
  [ -f $src/NOTES.md ] && cp $src/NOTES.md /verif/seeded/$name/NOTES.md
  echo "$name: CONFIRMED"
else
  echo "$name: NOT CONFIRMED"
fi
