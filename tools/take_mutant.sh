#!/bin/sh
# usage: tools/take_mutant.sh <worktree> <Cxx> <letter>
# confirms demo.py (exit != 0 with the change, 0 without) in the sub-agent's worktree, stores patch.diff + demo.py as
# seeded/<Cxx>-<letter>/, removes the worktree, runs the property's quick check against the change and prints the replay summary
wt=$1; P=$2; L=$3
cd "$wt" || exit 3
PYTHONPATH=$wt /venv/bin/python demo.py >/dev/null 2>&1; echo "demo with change: exit $?"
git stash -q -- bubus
PYTHONPATH=$wt /venv/bin/python demo.py >/dev/null 2>&1; echo "demo without change: exit $?"
git stash pop -q
mkdir -p /verif/seeded/$P-$L && cp patch.diff demo.py /verif/seeded/$P-$L/
cd /verif
git -C /repo worktree remove --force "$wt"
tools/eval_mutant.sh /verif/seeded/$P-$L/patch.diff $P 2>&1 | tail -3
git checkout evidence/ 2>/dev/null
git -C /repo status --short
python3 - "$P" <<'PY'
import json,glob,os,sys
fs=glob.glob(f'/verif/replays/{sys.argv[1]}-*.json')
if fs:
    f=max(fs,key=os.path.getmtime); r=json.load(open(f)); print(f)
    print({k:(str(v)[:300]) for k,v in r.items() if k not in ('scenario','trace','case','original_scenario')})
PY
