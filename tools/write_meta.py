#!/usr/bin/env python3
"""usage: tools/write_meta.py <round suffix, e.g. d> [ids...] - evaluates seeded/<id>-<suffix>/patch.diff against its property's quick
check (tools/eval_mutant.sh) and writes seeded/<id>-<suffix>/meta.json"""
import json, os, re, subprocess, sys
ROOT = os.path.dirname(os.path.dirname(os.path.abspath(__file__)))
suffix = sys.argv[1]
ids = sys.argv[2:] or [f'C{i:02d}' for i in range(1, 21)]
rounds = {'a': 'first', 'b': 'second', 'c': 'third', 'd': 'fourth', 'e': 'fifth', 'f': 'sixth', 'g': 'seventh', 'h': 'eighth', 'i': 'ninth'}
for pid in ids:
    d = os.path.join(ROOT, 'seeded', f'{pid}-{suffix}')
    if not os.path.isdir(d):
        print(pid, 'missing'); continue
    r = subprocess.run([os.path.join(ROOT, 'tools', 'eval_mutant.sh'), os.path.join(d, 'patch.diff'), pid],
                       capture_output=True, text=True, cwd=ROOT)
    lines = [l for l in r.stdout.splitlines() if l.startswith('VIOLATION') or l.startswith(pid + ' ')]
    vio = next((l for l in lines if l.startswith('VIOLATION')), None)
    notes = open(os.path.join(d, 'NOTES.md')).read() if os.path.exists(os.path.join(d, 'NOTES.md')) else ''
    title = next((l.strip('# ').strip() for l in notes.splitlines() if l.strip()), f'{pid} seeded change')
    clause = ''
    if vio and 'no-failing-input-found' not in vio:
        m = re.search(r'replay=(\S+)', vio)
        try:
            rep = json.load(open(os.path.join(ROOT, m.group(1))))
            clause = rep.get('clause') or (rep.get('failing_input') or {}).get('clause') or ''
        except Exception:
            pass
    if vio is None:
        det = 'NOT DETECTED'
    elif 'no-failing-input-found' in vio:
        det = f'./check {pid} --tier quick exits 1: broken correspondence, no concrete failing input found'
    else:
        det = (f"./check {pid} --tier quick exits 1 with a concrete failing input" + (f" (clause '{clause}'" if clause else ' (') +
               ": a replayable scenario/case on which the property fails on the real code)")
    meta = {'breaks_property': pid, 'what': title, 'needs_to_manifest': notes[:1800],
            'origin': f'independent sub-agent given only the property text and a scratch worktree ({rounds[suffix]} round: asked for a mechanism different from the earlier rounds)',
            'confirmed': 'tools/confirm_mutant.sh in a fresh worktree: demo.py exits 0 without the change and non-zero with it; the full unedited test-suite (138 tests) passes with the change',
            'checks_run': f'tools/eval_mutant.sh /verif/seeded/{pid}-{suffix}/patch.diff {pid}  (applies to /repo, runs ./check {pid} --tier quick, undoes)',
            'detected_by': det, 'check_output': lines}
    json.dump(meta, open(os.path.join(d, 'meta.json'), 'w'), indent=1)
    print(pid, det[:110])
