#!/bin/sh
# soak: every check with many seeds on the tree as it is; prints only failures.  usage: tools/soak.sh <first> <last> [tier]
cd "$(dirname "$0")/.." || exit 2
# when started by `vp run --with-repo`, use the snapshot of /repo so that edits to /repo meanwhile do not disturb the soak
[ -n "$VP_RUN_REPO" ] && export BUBUS_REPO="$VP_RUN_REPO"
(cd lean && lake build >/dev/null 2>&1)
first=${1:-100}; last=${2:-110}; tier=${3:-quick}
for s in $(seq $first $last); do
  for p in C01 C02 C03 C04 C05 C06 C07 C08 C09 C10 C11 C12 C13 C14 C15 C16 C17 C18 C19 C20; do
    VERIF_SEED=$s ./check $p --tier $tier > /tmp/soak.$$.out 2>&1; rc=$?
    if [ $rc -ne 0 ]; then echo "seed $s $p rc=$rc"; grep -v "^KNOWN" /tmp/soak.$$.out | head -4; f=$(grep -o "replays/[^ ]*json" /tmp/soak.$$.out | head -1); [ -n "$f" ] && cp "$f" "soak-$s-$p.json"; fi
  done
done
echo "soak $first..$last $tier finished"
