import Bubus.Model.Basic
import Bubus.Model.Pure
import Bubus.Model.Step
import Bubus.Spec.Monitors
