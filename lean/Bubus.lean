import Bubus.Model.Basic
import Bubus.Model.Pure
import Bubus.Model.Step
import Bubus.Spec.Monitors
import Bubus.Proofs.Frame
import Bubus.Proofs.Dispatch
import Bubus.Proofs.Easy
