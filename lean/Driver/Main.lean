/-
  driver — reads real histories (one label or observation per line), checks that the model accepts them
  label by label, compares observed state with the model's, and evaluates the monitors on them.

  output (one line each):
    REJ <scenario> <line> <check name> || <input line>
    OBS <scenario> <line> <what> model=<..> real=<..>
    VIO <scenario> <line> <prop> <clause> sigs=<a,b|-> :: <detail>
    END <scenario> labels=<n> status=<ok|rejected> rest=<0|1>
    COV <label kind> <count>
-/
import Bubus.Spec.Monitors
import Bubus.Model.Retry
import Bubus.Model.Results
open Bubus

def parseProc (s : String) : Proc :=
  if s.startsWith "R" then .rl (s.drop 1).toNat!
  else if s.startsWith "I" then .inst (s.drop 1).toNat!
  else .ext

def natList (s : String) : List Nat := if s == "-" || s == "" then [] else (s.splitOn ",").map String.toNat!
def optNat (s : String) : Option Nat := if s == "-" then none else some s.toNat!

def parseKind (s : String) : HKind :=
  if s == "a" then .async else if s == "s" then .sync
  else .forward (s.drop 1).toNat!

def parseDRes : String → Option DRes
  | "ok" => some .ok | "capacity" => some .capacity | "queueFull" => some .queueFull | "shutDown" => some .shutDown
  | _ => none

def parseOut : String → Option Out
  | "ret" => some .ret | "raise" => some .raise | "cancelled" => some .cancelled | _ => none

def parseFin : String → Option Fin
  | "completed" => some .completed | "errHandler" => some .errHandler | "errValidation" => some .errValidation
  | "errTimeout" => some .errTimeout | "errCancelled" => some .errCancelled | _ => none

def parseLabel (toks : List String) : Option Label :=
  match toks with
  | ["newBus", b, par, maxh, wal] => some (.newBus b.toNat! (par == "1") (optNat maxh) (wal == "1"))
  | ["on", b, key, k, kind] => some (.on b.toNat! key.toNat! k.toNat! (parseKind kind))
  | ["off", b, key, k] => some (.off b.toNat! key.toNat! k.toNat!)
  | ["newEvent", e, ty, par, to] => some (.newEvent e.toNat! ty.toNat! (optNat par) to.toNat!)
  | ["tick", t] => some (.tick t.toNat!)
  | ["rlCreate", b] => some (.rlCreate b.toNat!)
  | ["dispatch", p, b, e, r] => (parseDRes r).map fun r => .dispatch (parseProc p) b.toNat! e.toNat! r
  | ["take", p, b, e] => some (.take (parseProc p) b.toNat! e.toNat!)
  | ["peBegin", p, b, e] => some (.peBegin (parseProc p) b.toNat! e.toNat!)
  | ["peRecTrip", p, b, e] => some (.peRecTrip (parseProc p) b.toNat! e.toNat!)
  | ["hSched", p, i, b, e, k] => some (.hSched (parseProc p) i.toNat! b.toNat! e.toNat! k.toNat!)
  | ["hStart", i] => some (.hStart i.toNat!)
  | ["hCancel", i] => some (.hCancel i.toNat!)
  | ["hEnd", i, o] => (parseOut o).map fun o => .hEnd i.toNat! o
  | ["hFinish", i, r] => (parseFin r).map fun r => .hFinish i.toNat! r
  | ["walWrite", p, b, e, ok] => some (.walWrite (parseProc p) b.toNat! e.toNat! (ok == "1"))
  | ["peEnd", p, b, e] => some (.peEnd (parseProc p) b.toNat! e.toNat!)
  | ["peAbort", p, b, e] => some (.peAbort (parseProc p) b.toNat! e.toNat!)
  | ["awaitBegin", i, c] => some (.awaitBegin i.toNat! c.toNat!)
  | ["pollYield", i] => some (.pollYield i.toNat!)
  | ["awaitEnd", i, c] => some (.awaitEnd i.toNat! c.toNat!)
  | ["xAwaitEnd", e] => some (.xAwaitEnd e.toNat!)
  | ["readBus", i, got] => some (.readBus i.toNat! (optNat got))
  | ["rlWake", b] => some (.rlWake b.toNat!)
  | ["rlPoll", b] => some (.rlPoll b.toNat!)
  | ["wiBegin", x, b] => some (.wiBegin x.toNat! b.toNat!)
  | ["wiJoined", x] => some (.wiJoined x.toNat!)
  | ["wiIdle", x] => some (.wiIdle x.toNat!)
  | ["wiRecheck", x] => some (.wiRecheck x.toNat!)
  | ["wiEnd", x] => some (.wiEnd x.toNat!)
  | ["wiCancel", x] => some (.wiCancel x.toNat!)
  | ["stopBegin", x, b, c] => some (.stopBegin x.toNat! b.toNat! (c == "1"))
  | ["stopNoop", x, b] => some (.stopNoop x.toNat! b.toNat!)
  | ["stopEnd", x] => some (.stopEnd x.toNat!)
  | ["rlExit", b] => some (.rlExit b.toNat!)
  | ["cancelRl", b] => some (.cancelRl b.toNat!)
  | ["rlCancelled", b] => some (.rlCancelled b.toNat!)
  | ["rlDropExit", b] => some (.rlDropExit b.toNat!)
  | ["expectBegin", x, b, key, k, pred, to] => some (.expectBegin x.toNat! b.toNat! key.toNat! k.toNat! pred.toNat! (if to == "-" then none else some to.toNat!))
  | ["expectEnd", x, got] => some (.expectEnd x.toNat! (optNat got))
  | ["expectCancel", x] => some (.expectCancel x.toNat!)
  | ["expectTimeout", x] => some (.expectTimeout x.toNat!)
  | ["expectCancelReq", x] => some (.expectCancelReq x.toNat!)
  | ["hSkip", p, b, e, k] => some (.hSkip (parseProc p) b.toNat! e.toNat! k.toNat!)
  | _ => none

def labelKind (l : Label) : String :=
  match l with
  | .newBus .. => "newBus" | .on .. => "on" | .off .. => "off" | .newEvent .. => "newEvent" | .tick .. => "tick"
  | .rlCreate .. => "rlCreate"
  | .dispatch p _ _ r => s!"dispatch.{match p with | .inst _ => "handler" | _ => "ext"}.{(repr r).pretty.replace "Bubus.DRes." ""}"
  | .take p .. => s!"take.{match p with | .rl _ => "runloop" | _ => "inline"}"
  | .peBegin p .. => s!"peBegin.{match p with | .rl _ => "runloop" | _ => "inline"}"
  | .peRecTrip .. => "peRecTrip" | .hSched .. => "hSched" | .hStart .. => "hStart" | .hCancel .. => "hCancel"
  | .hEnd _ o => s!"hEnd.{(repr o).pretty.replace "Bubus.Out." ""}"
  | .hFinish _ r => s!"hFinish.{(repr r).pretty.replace "Bubus.Fin." ""}"
  | .walWrite _ _ _ ok => s!"walWrite.{ok}" | .peEnd p .. => s!"peEnd.{match p with | .rl _ => "runloop" | _ => "inline"}"
  | .peAbort .. => "peAbort" | .awaitBegin .. => "awaitBegin" | .pollYield .. => "pollYield"
  | .awaitEnd .. => "awaitEnd" | .xAwaitEnd .. => "xAwaitEnd"
  | .readBus .. => "readBus" | .rlWake .. => "rlWake" | .rlPoll .. => "rlPoll" | .wiBegin .. => "wiBegin"
  | .wiJoined .. => "wiJoined" | .wiIdle .. => "wiIdle" | .wiRecheck .. => "wiRecheck" | .wiEnd .. => "wiEnd" | .wiCancel .. => "wiCancel"
  | .stopBegin .. => "stopBegin" | .stopNoop .. => "stopNoop" | .stopEnd .. => "stopEnd" | .rlExit .. => "rlExit"
  | .cancelRl .. => "cancelRl" | .rlCancelled .. => "rlCancelled" | .rlDropExit .. => "rlDropExit" | .expectBegin .. => "expectBegin"
  | .expectEnd _ g => s!"expectEnd.{if g.isSome then "match" else "timeout"}"
  | .expectCancel .. => "expectCancel" | .expectTimeout .. => "expectTimeout" | .expectCancelReq .. => "expectCancelReq" | .hSkip .. => "hSkip"

def statusStr : EStatus → String | .pending => "pending" | .started => "started" | .completed => "completed"
def rstatusStr : Status → String | .pending => "pending" | .started => "started" | .completed => "completed" | .error => "error"
def errStr : ErrK → String | .none => "-" | .handler => "handler" | .validation => "handler" | .timeout => "timeout" | .cancelled => "cancelled"
def listStr (l : List Nat) : String := if l.isEmpty then "-" else ",".intercalate (l.map toString)
def b01 (b : Bool) : String := if b then "1" else "0"

/-- observation lines: compare the model state with what was read from the real objects -/
def checkObs (w : World) (toks : List String) : Option (List (String × String × String)) :=
  let cmp (what m r : String) : List (String × String × String) := if m == r then [] else [(what, m, r)]
  match toks with
  | ["oEvS", e, st, sg, n] =>
    let E := w.ev e.toNat!
    some (cmp s!"event {e} status" (statusStr E.status) st ++ cmp s!"event {e} signal" (b01 E.signal) sg ++
          cmp s!"event {e} #results" (toString E.results.length) n)
  | ["oEv", e, st, sg, par, path, n] =>
    let E := w.ev e.toNat!
    some (cmp s!"event {e} status" (statusStr E.status) st ++ cmp s!"event {e} signal" (b01 E.signal) sg ++
          cmp s!"event {e} parent" (match E.parent with | some p => toString p | none => "-") par ++
          cmp s!"event {e} path" (listStr E.path) path ++
          cmp s!"event {e} #results" (toString E.results.length) n)
  | ["oRes", e, idx, b, k, st, err, ch] =>
    match (w.ev e.toNat!).results[idx.toNat!]? with
    | none => some [(s!"event {e} result #{idx}", "missing", "present")]
    | some r =>
      some (cmp s!"event {e} result #{idx} bus" (toString r.bus) b ++ cmp s!"event {e} result #{idx} handler" (toString r.hid) k ++
            cmp s!"event {e} result #{idx} status" (rstatusStr r.status) st ++
            cmp s!"event {e} result #{idx} error" (errStr r.err) err ++
            cmp s!"event {e} result #{idx} children" (listStr r.children) ch)
  | ["oHist", b, h] => some (cmp s!"bus {b} history" (listStr (w.bus b.toNat!).hist) h)
  | ["oQueue", b, q] => some (cmp s!"bus {b} queue" (listStr (w.bus b.toNat!).queue) q)
  | ["oUnf", b, n] => some (cmp s!"bus {b} unfinished" (toString (w.bus b.toNat!).unfinished) n)
  | ["oLock", v] => some (cmp "global lock free" (b01 w.lock.isNone) v)
  | ["oTodo", p, ks] =>
    some (cmp s!"applicable handlers of {p}" (match w.act (parseProc p) with | some A => listStr A.todo | none => "noact") ks)
  | ["oReadBus", i, got] =>
    -- the model of `event.event_bus`: the last bus of the event's path
    let I := w.inst i.toNat!
    some (cmp s!"instance {i} event_bus" (match (w.ev I.ev).path.getLast? with | some b => toString b | none => "-") got)
  | ["oIdle", b, v] => some (cmp s!"bus {b} idle flag" (b01 (w.bus b.toNat!).idle) v)
  | ["oWal", b, l] => some (cmp s!"bus {b} wal lines" (listStr (w.bus b.toNat!).walLines) l)
  | ["oNHandlers", b, n] => some (cmp s!"bus {b} #handlers" (toString (w.bus b.toNat!).handlers.length) n)
  | _ => none

/-! ### sibling models: retry loop, retry semaphores, result accessors (lines starting with `T`) -/

def parseAtt (s : String) : Option Retry.Att :=
  if s == "O" then some .overrun else if s == "C" then some .cancelled
  else if s.startsWith "ok" then some (.ok (s.drop 2).toNat!)
  else if s.startsWith "L" then some (.listed (s.drop 1).toNat!)
  else if s.startsWith "U" then some (.unlisted (s.drop 1).toNat!)
  else none

def finalStr : Retry.Final → String
  | .ret v => s!"ret{v}" | .raised x => s!"raised{x}" | .timeout => "timeout" | .cancelled => "cancelled" | .exhausted => "exhausted"

def retryLine (toks : List String) : Option String :=
  match toks with
  | ["T", "retry", id, retries, tl, atts] =>
    let al := (if atts == "-" then [] else atts.splitOn ",").filterMap parseAtt
    let o := Retry.run retries.toNat! (tl == "1") al
    some s!"TR {id} calls={o.calls} waits={listStr o.waits} final={finalStr o.final}"
  | ["T", "semkey", id, scope, name, hasArgs, cls, inst] =>
    let sc : Retry.Scope := if scope == "global" then .global else if scope == "class" then .cls else if scope == "self" then .self else .multiprocess
    let k := Retry.semKey sc name.toNat! (hasArgs == "1") cls.toNat! inst.toNat!
    some s!"TK {id} {k.1}.{k.2.1}.{k.2.2}"
  | _ => none

def parseSLabel (toks : List String) : Option Retry.SLabel :=
  match toks with
  | ["call", c, lax] => some (.call c.toNat! (lax == "1"))
  | ["acquired", c] => some (.acquired c.toNat!)
  | ["acqTimeout", c] => some (.acqTimeout c.toNat!)
  | ["cancelWaiting", c] => some (.cancelWaiting c.toNat!)
  | ["bodyStart", c] => some (.bodyStart c.toNat!)
  | ["bodyEnd", c] => some (.bodyEnd c.toNat!)
  | ["finish", c, r] => some (.finish c.toNat! (r == "1"))
  | _ => none

/-- after an observation mismatch: adopt the observed value where the field can be set directly, so that the rest of
    the real history can still be followed (degraded mode: everything after the first divergence is evaluated on a
    resynchronised state and is reported as such) -/
def resync (w : World) (toks : List String) : World :=
  match toks with
  | ["oEvS", e, _, sg, _] => w.modEv e.toNat! fun E => { E with signal := sg == "1", processed := E.processed || sg == "1" }
  | ["oEv", e, _, sg, par, path, _] =>
    w.modEv e.toNat! fun E => { E with signal := sg == "1", processed := E.processed || sg == "1", parent := optNat par, path := natList path }
  | ["oHist", b, h] => w.modBus b.toNat! fun B => { B with hist := natList h }
  | ["oQueue", b, q] => w.modBus b.toNat! fun B => { B with queue := natList q }
  | ["oUnf", b, n] => w.modBus b.toNat! fun B => { B with unfinished := n.toNat! }
  | ["oIdle", b, v] => w.modBus b.toNat! fun B => { B with idle := v == "1" }
  | ["oLock", v] => if v == "1" then w.setLock none else w
  | ["oTodo", p, ks] =>
    (match w.act (parseProc p) with
     | some A => w.setAct (parseProc p) (some { A with todo := natList ks })
     | none => w)
  | _ => w

structure St where
  diverged : Bool := false
  sems : List (String × Retry.Sem) := []
  w : World := {}
  m : Mon := {}
  sc : String := "?"
  line : Nat := 0
  labels : Nat := 0
  rejected : Bool := false
  rested : Bool := false
  active : Bool := false
  cov : List (String × Nat) := []

def bump (cov : List (String × Nat)) (k : String) : List (String × Nat) :=
  if cov.any (·.1 == k) then cov.map fun (a, n) => if a == k then (a, n + 1) else (a, n) else cov ++ [(k, 1)]

def printVios (sc : String) (line : Nat) (vs : List Vio) : IO Unit :=
  for v in vs do
    IO.println s!"VIO {sc} {line} {v.prop} {v.clause} sigs={if v.sigs.isEmpty then "-" else ",".intercalate v.sigs.eraseDups} :: {v.detail}"

def endScenario (s : St) : IO Unit :=
  if s.active then IO.println s!"END {s.sc} labels={s.labels} status={if s.rejected || s.diverged then "rejected" else "ok"} rest={b01 s.rested}"
  else pure ()

/-- the model keeps its tables as functions (total maps); every update wraps the previous function, so a lookup would cost
    as much as the history is long.  The driver re-tabulates them after every label (same function, constant-time lookup;
    indices outside the allocated ranges fall through to the old function). -/
def compact (w : World) : World :=
  let evs := (Array.range w.ne).map w.ev
  let insts := (Array.range w.ni).map w.inst
  let buses := (Array.range w.nb).map w.bus
  let actR := (Array.range w.nb).map fun b => w.act (.rl b)
  let actI := (Array.range w.ni).map fun i => w.act (.inst i)
  let actX := w.act .ext
  let waits := (Array.range w.nx).map w.waiter
  let oldEv := w.ev; let oldInst := w.inst; let oldBus := w.bus; let oldAct := w.act; let oldW := w.waiter
  { w with
    ev := fun e => if h : e < evs.size then evs[e] else oldEv e
    inst := fun i => if h : i < insts.size then insts[i] else oldInst i
    bus := fun b => if h : b < buses.size then buses[b] else oldBus b
    act := fun p => match p with
      | .rl b => if h : b < actR.size then actR[b] else oldAct p
      | .inst i => if h : i < actI.size then actI[i] else oldAct p
      | .ext => actX
    waiter := fun x => if h : x < waits.size then waits[x] else oldW x }

/-- apply one label (after any silent labels it needs) -/
def doLabel (s : St) (l : Label) (raw : String) : IO St := do
  -- silent labels inserted on demand: the two waits of wait_until_idle
  let mut w := s.w
  match l with
  | .wiRecheck x | .wiEnd x =>
    -- the two waits of wait_until_idle return silently
    if guard w (.wiJoined x) then w := apply w (.wiJoined x)
    if guard w (.wiIdle x) then w := apply w (.wiIdle x)
  | _ => pure ()
  if guard w l then
    let w' := apply w l
    let (m', vs) := s.m.step w l w'
    printVios (if s.diverged then s.sc ++ "~" else s.sc) s.line vs
    -- non-vacuity of the C06 chain invariant's premises: accepted real histories of serial buses with nested live handlers
    let cov := bump s.cov (labelKind l)
    let serial := (List.range w'.nb).all fun b => !(w'.bus b).parallel
    let cov := match l with
      | .hSched .. =>
        if !s.diverged && serial && w'.stack.length ≥ 2 then
          bump (if w'.stack.length ≥ 3 then bump cov "chain.serial.depth>=3" else cov) "chain.serial.depth>=2"
        else cov
      | _ => cov
    return { s with w := compact w', m := m', labels := s.labels + 1, cov := cov }
  else
    IO.println s!"REJ {s.sc} {s.line} {(checks w l).why} || {raw}"
    -- degraded mode: follow the real history anyway (the effect of the label is applied without its guard)
    let w' := apply w l
    let (m', vs) := s.m.step w l w'
    printVios (s.sc ++ "~") s.line vs
    return { s with w := compact w', m := m', diverged := true, labels := s.labels + 1 }

partial def loop (h : IO.FS.Stream) (s : St) : IO Unit := do
  let line ← h.getLine
  if line.isEmpty then
    endScenario s
    for (k, n) in s.cov do IO.println s!"COV {k} {n}"
    return
  let raw := line.trimAscii.toString
  if raw.startsWith "#scenario" then
    endScenario s
    loop h { cov := s.cov, sc := (raw.drop 10).toString, active := true }
  else if s.rejected || raw.isEmpty then loop h { s with line := s.line + 1 }
  else
    let s := { s with line := s.line + 1 }
    let toks := raw.splitOn " "
    match toks with
    | ["cfg", a, b, c, d] =>
      let cfg : Config := { hardLimit := a.toNat!, queueMax := b.toNat!, maxPoll := c.toNat!, recursionLimit := d.toNat! }
      let w0 := s.w
      loop h { s with w := { w0 with cfg := cfg } }
    | ["pollYield", i, n] =>
      -- `n` consecutive empty passes of instance i's inline polling loop: all but the last applied directly
      let l := Label.pollYield i.toNat!
      let mut w := s.w
      let mut k := 1
      while k < n.toNat! && guard w l do
        w := apply w l
        k := k + 1
      let s' ← doLabel { s with w := w, labels := s.labels + (k - 1) } l raw
      loop h s'
    | ["budgetExhausted"] =>
      -- the real run never came to rest: the harness stopped it after its budget of loop iterations (the history up to there
      -- has been followed; what it shows has been reported above)
      IO.println s!"REJ {s.sc} {s.line} rest: the real system never comes to rest (loop-iteration budget exhausted, or no runnable task and no timer left while tasks are blocked) || budget"
      -- what is not complete now never will be: the clauses that speak about the state at rest are evaluated on the state the
      -- run is stuck in
      printVios (s.sc ++ "~") s.line (s.m.rest s.w)
      loop h { s with rejected := true, diverged := true }
    | ["rest"] =>
      if isRest s.w then
        printVios (if s.diverged then s.sc ++ "~" else s.sc) s.line (s.m.rest s.w)
        loop h { s with rested := true }
      else
        IO.println s!"REJ {s.sc} {s.line} rest: the real system is quiescent but the model still has work in hand ({restWhy s.w}) || {raw}"
        printVios (s.sc ++ "~") s.line (s.m.rest s.w)
        loop h { s with diverged := true, rested := true }
    | "T" :: "retry" :: _ | "T" :: "semkey" :: _ =>
      match retryLine toks with
      | some out => IO.println out; loop h s
      | none => IO.println s!"REJ {s.sc} {s.line} unparsable line || {raw}"; loop h { s with rejected := true }
    | "T" :: "results" :: rest =>
      IO.println (Results.handleLine rest)
      loop h s
    | ["T", "semInit", key, limit] =>
      loop h { s with sems := (s.sems.filter (·.1 != key)) ++ [(key, { limit := limit.toNat!, value := limit.toNat! })] }
    | ["T", "semValue", key, v] =>
      match s.sems.find? (·.1 == key) with
      | some (_, sem) =>
        if toString sem.value != v then
          IO.println s!"OBS {s.sc} {s.line} semaphore {key} value model={sem.value} real={v}"
          loop h { s with rejected := true }
        else loop h s
      | none => IO.println s!"REJ {s.sc} {s.line} sem: unknown semaphore || {raw}"; loop h { s with rejected := true }
    | "T" :: "sem" :: key :: rest =>
      match s.sems.find? (·.1 == key), parseSLabel rest with
      | some (_, sem), some l =>
        if Retry.sguard sem l then
          let sem' := Retry.sapply sem l
          -- C20: callers inside the wrapped function never exceed the limit, except lax entrants
          let nonLaxInBody := sem'.inBody.filter fun c => sem'.phase c == .holding
          if nonLaxInBody.length > sem'.limit then
            printVios s.sc s.line [⟨"C20", "limitExceeded", [], s!"semaphore {key}: {nonLaxInBody.length} holders inside the function, limit {sem'.limit}"⟩]
          if sem'.value + (Retry.holders sem').length != sem'.limit then
            printVios s.sc s.line [⟨"C20", "slotAccounting", [], s!"semaphore {key}: value {sem'.value} + holders {(Retry.holders sem').length} ≠ limit {sem'.limit}"⟩]
          loop h { s with sems := s.sems.map (fun (k, x) => if k == key then (k, sem') else (k, x)), labels := s.labels + 1,
                          cov := bump s.cov s!"sem.{rest.head!}" }
        else
          IO.println s!"REJ {s.sc} {s.line} sem: the wrapper's bookkeeping cannot do this here || {raw}"
          match l with
          | .acquired c =>
            if sem.value == 0 && sem.phase c == .waiting then
              printVios s.sc s.line [⟨"C20", "limitExceeded", [], s!"semaphore {key}: caller {c} acquired a slot while all {sem.limit} slots were held"⟩]
          | _ => pure ()
          loop h { s with rejected := true }
      | _, _ => IO.println s!"REJ {s.sc} {s.line} unparsable line || {raw}"; loop h { s with rejected := true }
    | "note" :: _ => loop h s
    | ["rlDone", b] =>
      -- the run loop task finished: which model label that is depends on where the run loop was
      match (s.w.bus b.toNat!).rl with
      | .polling => loop h (← doLabel s (.rlExit b.toNat!) raw)
      | .took _ =>
        if (s.w.bus b.toNat!).cancelReq then loop h (← doLabel s (.rlCancelled b.toNat!) raw)
        else loop h (← doLabel s (.rlDropExit b.toNat!) raw)
      | .exited => loop h s
      | _ =>
        IO.println s!"REJ {s.sc} {s.line} rl: run loop task finished in a state where the model's run loop cannot || {raw}"
        loop h { s with rejected := true }
    | ["oStopTook", x, t] =>
      if t.toNat! > s.w.cfg.stopGrace then
        printVios (if s.diverged then s.sc ++ "~" else s.sc) s.line [⟨"C16", "stopSlow", [], s!"stop() called by task {x} took {t} ticks"⟩]
      loop h s
    | ["oWalUnfaithful", b, e, why] =>
      printVios (if s.diverged then s.sc ++ "~" else s.sc) s.line [⟨"C17", "unfaithfulLine", [], s!"bus {b} event {e}: WAL line does not validate back to the event ({why})"⟩]
      loop h s
    | ["oWalLineMissing", b, e] =>
      printVios (if s.diverged then s.sc ++ "~" else s.sc) s.line [⟨"C17", "lineMissing", [], s!"bus {b} event {e}: no WAL line was written for the processed event although its payload is serialisable and no I/O fault was injected"⟩]
      loop h s
    | "oIdentity" :: what =>
      printVios (if s.diverged then s.sc ++ "~" else s.sc) s.line [⟨"C03", "identity", [], " ".intercalate what⟩]
      loop h s
    | ["xAwaitRaise", e, why] =>
      printVios (if s.diverged then s.sc ++ "~" else s.sc) s.line [⟨"C03", "awaitRaised", [], s!"awaiting event {e} from ordinary code raised {why}"⟩]
      loop h s
    | ["xAwaitHang", e] =>
      -- (an event abandoned because its bus was stopped / its run loop cancelled is the client's doing: exempt)
      let sg := hangSigs s.w s.m e.toNat!
      if !(sg.contains "stop-drop" || sg.contains "stopped-backlog") then
        printVios (if s.diverged then s.sc ++ "~" else s.sc) s.line [{ prop := "C03", clause := "hang", sigs := sg, detail := s!"external await of event {e} never returns" }]
      loop h s
    | ["oAwaited", i, c, sg] =>
      -- C04 on the observed child: an in-handler await returned although the real child is not signalled complete and the
      -- awaiting handler is not being cancelled (where the model agrees that the tree is not done, `Mon.step` has reported it)
      let I := s.w.inst i.toNat!
      if sg == "0" && !I.cancelling && treeDone s.w c.toNat! then
        let sigs := (if f1Sig s.w i.toNat! c.toNat! then ["F1"] else []) ++
                    (if parStealSig s.w i.toNat! c.toNat! then ["par-steal"] else []) ++ stuckSigs s.w s.m c.toNat!
        printVios (s.sc ++ "~") s.line
          [⟨"C04", "incomplete", sigs, s!"instance {i}: the await on event {c} returned while the real event is not signalled complete (the model's tree is done)"⟩]
      loop h s
    | ["oParent", pp, e, par] =>
      -- C09: the parent the real event carries after the dispatch, against the handler attribution of the model
      let real := optNat par
      let mdl := (s.w.ev e.toNat!).parent
      if real != mdl then
        IO.println s!"OBS {s.sc} {s.line} event {e} parent after dispatch model={mdl} real={real}"
        printVios (s.sc ++ "~") s.line
          [⟨"C09", "wrongParent", [], s!"event {e} dispatched by {pp}: its parent is {real}, the dispatching handler's event gives {mdl}"⟩]
        loop h { s with diverged := true, w := s.w.modEv e.toNat! fun E => { E with parent := real } }
      else loop h s
    | "oChildCount" :: pp :: e :: n :: rest =>
      -- C09: the event occurs exactly as often among the children of the dispatching handler's own result as the model says
      -- (after a refused dispatch too: C14, a rejected dispatch leaves no trace)
      match parseProc pp with
      | .inst i =>
        let I := s.w.inst i
        let mdl := match (s.w.ev I.ev).getRes? I.bus I.hid with
          | some r => (r.children.filter (· == e.toNat!)).length
          | none => 0
        if mdl != n.toNat! then
          IO.println s!"OBS {s.sc} {s.line} event {e} among children of instance {i}'s result model={mdl} real={n}"
          printVios (s.sc ++ "~") s.line
            ([⟨"C09", "childCount", [], s!"event {e} dispatched by instance {i}: occurs {n} times among the children of that handler's result, expected {mdl}"⟩] ++
             (if rest == ["rejected"] then
                [⟨"C14", "rejectedLeftTrace", [], s!"event {e}: its refused dispatch by instance {i} changed that handler's list of children ({n} occurrences, expected {mdl})"⟩]
              else []))
          loop h { s with diverged := true }
        else loop h s
      | _ => loop h s
    | ["oProcessRaised", b, e, why, wal] =>
      -- an exception that is not a cancellation escaped `process_event`: a failing WAL write must never affect event
      -- processing (C17); a handler's exception is captured as its error result and affects nothing else (C11)
      if wal == "1" then
        printVios (s.sc ++ "~") s.line
          [⟨"C17", "walFaultEscaped", [], s!"bus {b} event {e}: the failing WAL write raised {why} out of process_event"⟩]
      else
        printVios (s.sc ++ "~") s.line
          [⟨"C11", "exceptionEscaped", [], s!"bus {b} event {e}: {why} escaped process_event instead of being captured as a handler's error result"⟩]
      loop h s
    | ["oRlTaskDone", b, d] =>
      -- C16: the cancelled run-loop task has terminated (observed a second after the cancellation, with handlers mid-flight)
      if d == "0" then
        printVios (if s.diverged then s.sc ++ "~" else s.sc) s.line
          [⟨"C16", "cancelNotTerminating", [], s!"bus {b}: its run-loop task is still alive one second after it was cancelled"⟩]
      loop h s
    | ["oAccessorRaise", e, bad, what] =>
      -- C11: the original exception object of a failed handler is re-raised by the result accessors exactly when raise_if_any
      if bad == "1" then
        IO.println s!"OBS {s.sc} {s.line} event {e} results: error re-raising by the accessors deviates ({what})"
        printVios (s.sc ++ "~") s.line
          [⟨"C11", "accessorReraise", [], s!"event {e}: {what}"⟩]
      loop h s
    | ["oAccessors", e, ch] =>
      -- C08: reading a completed event through the documented accessors changed one of its results (compared by value)
      if ch == "1" then
        IO.println s!"OBS {s.sc} {s.line} event {e} results: a result status/value changed while the event was only read (reading is not a step of the model)"
        printVios (s.sc ++ "~") s.line
          [⟨"C08", "changedByAccessor", [], s!"event {e}: a result of the completed event changed while it was only read through its accessors"⟩]
      loop h s
    | ["oAfterExpect", b, n] =>
      -- C18: when expect() has returned / raised / been cancelled, its temporary subscription is gone from the real bus
      let mdl := (s.w.bus b.toNat!).handlers.length
      if n.toNat! < mdl then
        IO.println s!"OBS {s.sc} {s.line} bus {b} #handlers model={mdl} real={n}"
        printVios (s.sc ++ "~") s.line
          [⟨"C18", "otherHandlersAffected", [], s!"bus {b}: {n} handlers registered after expect() ended, {mdl} expected: the end of one expect() removed another subscription"⟩]
        loop h { s with diverged := true }
      else if n.toNat! > mdl then
        IO.println s!"OBS {s.sc} {s.line} bus {b} #handlers model={mdl} real={n}"
        printVios (s.sc ++ "~") s.line
          [⟨"C18", "subscriptionLeft", [], s!"bus {b}: {n} handlers registered after expect() ended, {mdl} expected: the temporary subscription was not removed"⟩]
        loop h { s with diverged := true }
      else
        match checkObs s.w ["oNHandlers", b, n] with
        | some diffs =>
          for (what, m, r) in diffs do IO.println s!"OBS {s.sc} {s.line} {what} model={m} real={r}"
          loop h (if diffs.isEmpty then s else { s with diverged := true })
        | none => loop h s
    | ["oRejected", b, e, hh, q] =>
      -- C14: a dispatch that raised leaves no trace: the event is neither in the real history nor in the real queue
      -- (unless it already was there, which the model knows)
      let inH := (natList hh).contains e.toNat! && !(s.w.bus b.toNat!).hist.contains e.toNat!
      let inQ := (natList q).contains e.toNat! && !(s.w.bus b.toNat!).queue.contains e.toNat!
      if inH || inQ then
        printVios (s.sc ++ "~") s.line
          [⟨"C14", "rejectedLeftTrace", [], s!"dispatch of event {e} to bus {b} raised, yet the event is in the bus's {if inH then "history" else "queue"}"⟩]
      loop h s
    | ["oAccepted", b, e, q] =>
      -- C14: a dispatch that returned normally has put the event on the bus's queue
      if !(natList q).contains e.toNat! then
        printVios (if s.diverged then s.sc ++ "~" else s.sc) s.line
          [⟨"C14", "silentDrop", [], s!"dispatch of event {e} to bus {b} returned normally but the event is not queued (queue {q})"⟩]
      match checkObs s.w ["oQueue", b, q] with
      | some diffs =>
        for (what, m, r) in diffs do IO.println s!"OBS {s.sc} {s.line} {what} model={m} real={r}"
        loop h (if diffs.isEmpty then s else { s with diverged := true, w := resync s.w ["oQueue", b, q] })
      | none => loop h s
    | ["expectHang", x] =>
      -- at rest, a task is still inside expect(): fine while it has neither a match nor a passed deadline
      (match s.w.waiter x.toNat! with
       | .expecting _ _ _ d got _ =>
         let overdue := match d with | some d => d < s.w.now | none => false
         if got.isSome || overdue then
           printVios (if s.diverged then s.sc ++ "~" else s.sc) s.line [{ prop := "C18", clause := "hang", sigs := [], detail := s!"expect() of task {x} never returns (match {got}, deadline {d}, now {s.w.now})" }]
         else pure ()
       | _ => pure ())
      loop h s
    | ["waitIdleHang", b] =>
      let sg := busHangSigs s.w s.m b.toNat!
      if !(sg.contains "stop-drop" || sg.contains "stopped-backlog") then
        printVios (if s.diverged then s.sc ++ "~" else s.sc) s.line [{ prop := "C15", clause := "hang", sigs := sg, detail := s!"wait_until_idle of bus {b} never returns" }]
      loop h s
    | _ =>
      match parseLabel toks with
      | some l => loop h (← doLabel s l raw)
      | none =>
        match checkObs s.w toks with
        | some diffs =>
          for (what, m, r) in diffs do IO.println s!"OBS {s.sc} {s.line} {what} model={m} real={r}"
          -- C09(g): event_bus inside a handler must be the bus running the handler
          match toks with
          | ["oReadBus", i, got] =>
            let I := s.w.inst i.toNat!
            if got != toString I.bus then
              let E := s.w.ev I.ev
              let sg : List String := if E.path.getLast? != some I.bus && E.path.contains I.bus then ["F9"] else []
              let vio : Vio := ⟨"C09", "eventBus", sg, s!"instance {i} on bus {I.bus} read event_bus = {got}"⟩
              printVios (if s.diverged then s.sc ++ "~" else s.sc) s.line [vio]
          -- C01 / C18: every handler registered for the event's type (or '*') that has no result on it yet and is not held back
          -- by the recursion rule is selected when the activation begins (`C01_every_matching_handler_without_a_result_is_selected`);
          -- a handler the model selects and the real activation leaves out is never given the event - among them the temporary
          -- handler of a pending expect()
          | ["oTodo", pp, ks] =>
            (match s.w.act (parseProc pp) with
             | some A =>
               let real := natList ks
               let missing := A.todo.filter fun k => !real.contains k
               for k in missing do
                 printVios (s.sc ++ "~") s.line
                   ([⟨"C01", "notSelected", [], s!"bus {A.bus} event {A.ev}: handler {k} matches the event and has no result on it, but is not among the handlers selected for its processing"⟩] ++
                    -- (C07: "the results of all buses' handlers accumulate on it" - the event has been on another bus before)
                    (if (s.w.ev A.ev).path.length > 1 then
                       [⟨"C07", "handlerLeftOutOnLaterBus", [], s!"bus {A.bus} event {A.ev} (path {(s.w.ev A.ev).path}): handler {k} of this bus is not run for the event that reached it after another bus: its result does not accumulate on the event"⟩]
                     else []) ++
                    (match (s.w.bus A.bus).handlers.find? (fun r => r.hid == k) with
                     | some r => (match r.kind with
                       | .expect x _ => [⟨"C18", "subscriberNotSelected", [], s!"bus {A.bus} event {A.ev}: the temporary handler of the pending expect() of task {x} is not selected for the event: the call never sees it"⟩]
                       | _ => [])
                     | none => []))
             | none => pure ())
          -- C03 / C08: the real completion signal is set while a handler result of the event is not terminal
          | ["oEvS", e, _, sg, _] =>
            let E := s.w.ev e.toNat!
            if sg == "1" && !treeDone s.w e.toNat! then
              let sigs : List String := (if E.path.length > 1 || f4Sig s.w e.toNat! then ["F4"] else []) ++
                (if redoneSig s.w s.m.redone e.toNat! then ["redispatch-done"] else [])
              printVios (if s.diverged || !diffs.isEmpty then s.sc ++ "~" else s.sc) s.line
                [⟨"C08", "signalledBeforeTreeDone", sigs, s!"event {e} is signalled complete while its tree is not done (a handler result not terminal or a descendant incomplete)"⟩,
                 ⟨"C03", "signalledBeforeTreeDone", sigs, s!"event {e} is signalled complete while its tree is not done (a handler result not terminal or a descendant incomplete)"⟩]
            else pure ()
          -- C15: the real unfinished-task counter of the queue covers everything queued or in some executor's hand
          -- (the invariant `C15_unfinished_counts_at_least_everything_queued_or_in_hand`, on the observed counter)
          | ["oUnf", b, n] =>
            let need := (s.w.bus b.toNat!).queue.length + hand s.w b.toNat!
            if n.toNat! < need then
              printVios (s.sc ++ "~") s.line
                [⟨"C15", "counterBelowInHand", [], s!"bus {b}: the queue's unfinished counter is {n} while {need} events are queued or in hand: join() can be released while an event of the bus is still being processed"⟩]
            else pure ()
          -- C07: the observed event_path lists no bus twice
          | ["oEv", e, _, _, _, path, n] =>
            let pth := natList path
            if pth.eraseDups.length != pth.length then
              printVios (if s.diverged || !diffs.isEmpty then s.sc ++ "~" else s.sc) s.line
                [⟨"C07", "pathDup", [], s!"event {e}: event_path {path} lists a bus twice"⟩]
            else pure ()
            -- C07 / C08: the results of all buses' handlers accumulate on the event: the real event carries no fewer results
            -- than handlers have recorded an outcome for it
            let recorded := ((s.w.ev e.toNat!).results.filter fun r => r.status != .pending).length
            if n.toNat! < recorded then
              printVios (s.sc ++ "~") s.line
                [⟨"C07", "resultsLost", [], s!"event {e}: {recorded} handler outcomes were recorded on it, the real event carries {n} results"⟩,
                 ⟨"C08", "resultsLost", [], s!"event {e}: {recorded} handler outcomes were recorded on it, the real event carries {n} results"⟩]
            else pure ()
          -- C08: a result of an event that was observed complete differs, on the real event, from what it was then
          | ["oRes", e, idx, _, _, st, err, _] =>
            (match s.m.snaps.find? (·.1 == e.toNat!), (s.w.ev e.toNat!).results[idx.toNat!]? with
             | some (_, rs), some r =>
               (match rs[idx.toNat!]? with
                | some r0 =>
                  if r0.status == r.status && r0.err == r.err && (rstatusStr r.status != st || errStr r.err != err) then
                    printVios (s.sc ++ "~") s.line
                      [⟨"C08", "changed", [], s!"event {e} was observed complete with result #{idx} {rstatusStr r0.status}/{errStr r0.err}; the real result is now {st}/{err}"⟩]
                  else pure ()
                | none => pure ())
             | _, _ => pure ())
            -- C11: a handler result carries a cancellation error although nothing in the run was cancelled (no timeout, no
            -- stop(), no run-loop cancellation): some other handler's failure was propagated to it
            if err == "cancelled" && !s.m.everTimeout && s.m.stopped.isEmpty && s.m.rlCancelledBy.isEmpty && s.m.dropped.isEmpty then
              printVios (if s.diverged then s.sc ++ "~" else s.sc) s.line
                [⟨"C11", "foreignCancellation", [], s!"event {e} result #{idx} is a cancellation error although no timeout, stop() or run-loop cancellation occurred"⟩]
            else pure ()
            -- C10: at rest no handler result is left pending / started once a timeout has occurred in the run, unless a
            -- recorded mechanism (in its narrow form) or the client's stop() explains it
            let hs := hangSigs s.w s.m e.toNat!
            if s.rested && s.m.everTimeout && (st == "pending" || st == "started") &&
               !(hs.contains "stop-drop" || hs.contains "stopped-backlog") then
              printVios (if s.diverged then s.sc ++ "~" else s.sc) s.line
                [⟨"C10", "resultLeftPending", stuckSigs s.w s.m e.toNat!,
                  s!"event {e} result #{idx} is still {st} at rest"⟩]
            else pure ()
          -- C13: the bound, evaluated on the history observed on the real bus after a dispatch / processing step
          | ["oHist", b, hh] =>
            let real := natList hh
            -- C13: eviction order.  The model's history is the pre-eviction list minus the victims in the prescribed order
            -- (completed, then started, then pending; oldest first).  A real history of the same size that kept an event
            -- the model evicted, at the price of one the model kept, evicted out of order.
            let mdl := (s.w.bus b.toNat!).hist
            let lost := mdl.filter (fun e => !real.contains e)
            let kept := real.filter (fun e => !mdl.contains e)
            if mdl.length == real.length && !lost.isEmpty && !kept.isEmpty then
              let st (e : EId) := statusStr (s.w.ev e).status
              printVios (s.sc ++ "~") s.line
                [⟨"C13", "evictionOrder", [], s!"bus {b}: evicted {lost.map fun e => (e, st e)} while keeping {kept.map fun e => (e, st e)} (created earlier / less advanced)"⟩]
            else pure ()
            (match (s.w.bus b.toNat!).maxh with
             | some n =>
               if n != 0 && real.length > n then
                 printVios (if s.diverged || !diffs.isEmpty then s.sc ++ "~" else s.sc) s.line
                   [⟨"C13", "bound", [], s!"bus {b}: history holds {real.length} events, max_history_size is {n}"⟩]
               else pure ()
             | none => pure ())
          | _ => pure ()
          loop h (if diffs.isEmpty then s else { s with diverged := true, w := resync s.w toks })
        | none =>
          IO.println s!"REJ {s.sc} {s.line} unparsable line || {raw}"
          loop h { s with rejected := true }

def main : IO Unit := do loop (← IO.getStdin) {}
