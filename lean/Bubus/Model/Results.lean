/-
  Bubus.Model.Results — recording of handler return values (`EventResult.update`) and the accessor views
  (`event_results_filtered`, `event_result`, `event_results_list`, `_by_handler_id`, `_by_handler_name`,
  `_flat_dict`, `_flat_list`) of bubus/models.py, as pure functions over the ordered list of results.

  What "conforms to the declared type" means is pydantic's business: it enters as the oracle result `validated`
  (`none` = validation failed, `some v` = the coerced value) supplied with every return value.
-/
namespace Bubus.Results

/-- abstract return values: enough structure for the accessors' case analysis -/
inductive Val
  | none
  | int (n : Int)
  | str (s : String)
  | dict (kvs : List (String × Int))   -- insertion-ordered
  | list (xs : List Int)
  | event (id : Nat)                   -- a BaseEvent (forwarding handlers return the event)
  | exc (id : Nat)                     -- an exception object
  deriving DecidableEq, Repr, Inhabited

inductive RStatus | pending | started | completed | error
  deriving DecidableEq, Repr, Inhabited

/-- errors by identity: the exception object raised / returned by handler number `n`, or library-made ones -/
inductive Err | handler (id : Nat) | validation | valueError | assertion | conflict
  deriving DecidableEq, Repr, Inhabited

structure Res where
  hid : Nat
  name : Nat                  -- handler_name (several handlers may share one)
  status : RStatus := .pending
  value : Val := .none
  err : Option Err := none
  deriving DecidableEq, Repr, Inhabited

def Val.isNone : Val → Bool | .none => true | _ => false
def Val.isExc : Val → Bool | .exc _ => true | _ => false
def Val.isEvent : Val → Bool | .event _ => true | _ => false
def Val.isDict : Val → Bool | .dict _ => true | _ => false
def Val.isList : Val → Bool | .list _ => true | _ => false
/-- Python truthiness of the value (used by `flat_dict`: `if not event_result.result: continue`) -/
def Val.truthy : Val → Bool
  | .none => false | .int n => n != 0 | .str s => s != "" | .dict kvs => !kvs.isEmpty | .list xs => !xs.isEmpty
  | .event _ => true | .exc _ => true

/-- `EventResult.update(result=ret)`; `typed`: the event class declares a result type;
    `validated`: pydantic's verdict on `ret` for that type -/
def recordReturn (r : Res) (typed : Bool) (ret : Val) (validated : Option Val) : Res :=
  match ret with
  | .exc id => { r with status := .error, err := some (.handler id), value := .none }   -- returned exception object
  | _ =>
    if typed && !ret.isNone then
      if ret.isEvent then { r with status := .completed, value := ret }
      else match validated with
        | some v => { r with status := .completed, value := v }
        | none => { r with status := .error, err := some .validation, value := .none }
    else { r with status := .completed, value := ret }

/-- `EventResult.update(error=e)` -/
def recordError (r : Res) (id : Nat) : Res := { r with status := .error, err := some (.handler id) }

/-- `_event_result_is_truthy`, the default `include` -/
def defaultInclude (r : Res) : Bool :=
  r.status == .completed && !r.value.isNone && !r.value.isExc && r.err.isNone && !r.value.isEvent

/-- the include filters used by the correspondence check -/
inductive Incl | default | all | ints | completed
  deriving DecidableEq, Repr, Inhabited

def Incl.test : Incl → Res → Bool
  | .default, r => defaultInclude r
  | .all, _ => true
  | .ints, r => match r.value with | .int _ => true | _ => false
  | .completed, r => r.status == .completed

def isErrorResult (r : Res) : Bool := r.err.isSome || r.value.isExc

/-- `event_results_filtered` (after the completion wait): the included results, or the raised error -/
def filtered (rs : List Res) (incl : Res → Bool) (raiseAny raiseNone : Bool) : Except Err (List Res) :=
  let errors := rs.filter isErrorResult
  match (if raiseAny then errors.head? else none) with
  | some e => .error (match e.err with | some x => x | none => match e.value with | .exc id => .handler id | _ => .valueError)
  | none =>
    let inc := rs.filter incl
    if raiseNone && inc.isEmpty then .error .valueError
    else .ok inc

def resultsList (rs : List Res) (incl : Res → Bool) (ra rn : Bool) : Except Err (List Val) :=
  (filtered rs incl ra rn).map (·.map (·.value))

def firstResult (rs : List Res) (incl : Res → Bool) (ra rn : Bool) : Except Err Val :=
  (filtered rs incl ra rn).map fun l => match l with | r :: _ => r.value | [] => .none

def byHandlerId (rs : List Res) (incl : Res → Bool) (ra rn : Bool) : Except Err (List (Nat × Val)) :=
  (filtered rs incl ra rn).map (·.map fun r => (r.hid, r.value))

/-- dict comprehension keyed by handler name: a later result with the same name overwrites the value,
    the key keeps its first position -/
def byHandlerName (rs : List Res) (incl : Res → Bool) (ra rn : Bool) : Except Err (List (Nat × Val)) :=
  (filtered rs incl ra rn).map fun l =>
    l.foldl (fun acc r =>
      if acc.any (·.1 == r.name) then acc.map (fun (k, v) => if k == r.name then (k, r.value) else (k, v))
      else acc ++ [(r.name, r.value)]) []

def mergeDict (acc : List (String × Int)) (kvs : List (String × Int)) : List (String × Int) :=
  kvs.foldl (fun acc (k, v) =>
    if acc.any (·.1 == k) then acc.map (fun (k', v') => if k' == k then (k', v) else (k', v')) else acc ++ [(k, v)]) acc

def flatDict (rs : List Res) (incl : Res → Bool) (ra rn rc : Bool) : Except Err (List (String × Int)) :=
  match filtered rs (fun r => r.value.isDict && incl r) ra rn with
  | .error e => .error e
  | .ok l =>
    l.foldl (fun (acc : Except Err (List (String × Int))) r =>
      match acc, r.value with
      | .error e, _ => .error e
      | .ok m, .dict kvs =>
        if kvs.isEmpty then .ok m
        else if rc && kvs.any (fun (k, _) => m.any (·.1 == k)) then .error .conflict
        else .ok (mergeDict m kvs)
      | .ok m, _ => .ok m) (.ok [])

def flatList (rs : List Res) (incl : Res → Bool) (ra rn : Bool) : Except Err (List Int) :=
  (filtered rs (fun r => r.value.isList && incl r) ra rn).map fun l =>
    l.flatMap fun r => match r.value with | .list xs => xs | _ => []

/-! ### line protocol (used by the driver): values are single tokens
    N | I<int> | S<text> | D<k>=<v>;<k>=<v> | L<int>;<int> | E<id> | X<id> -/

def parseVal (s : String) : Val :=
  if s == "N" then .none
  else if s.startsWith "I" then .int (s.drop 1).toInt!
  else if s.startsWith "S" then .str (s.drop 1).toString
  else if s.startsWith "D" then
    let body := (s.drop 1).toString
    .dict (if body == "" then [] else (body.splitOn ";").map fun kv =>
      match kv.splitOn "=" with | [k, v] => (k, v.toInt!) | _ => (kv, 0))
  else if s.startsWith "L" then
    let body := (s.drop 1).toString
    .list (if body == "" then [] else (body.splitOn ";").map String.toInt!)
  else if s.startsWith "E" then .event (s.drop 1).toNat!
  else if s.startsWith "X" then .exc (s.drop 1).toNat!
  else .none

def showVal : Val → String
  | .none => "N" | .int n => s!"I{n}" | .str s => s!"S{s}"
  | .dict kvs => "D" ++ ";".intercalate (kvs.map fun (k, v) => s!"{k}={v}")
  | .list xs => "L" ++ ";".intercalate (xs.map toString)
  | .event id => s!"E{id}" | .exc id => s!"X{id}"

def showErr : Err → String
  | .handler id => s!"handler{id}" | .validation => "validation" | .valueError => "ValueError"
  | .assertion => "AssertionError" | .conflict => "ValueError"

def parseIncl (s : String) : Incl :=
  if s == "all" then .all else if s == "ints" then .ints else if s == "completed" then .completed else .default

/-- one result spec: `<hid>:<name>:<kind>:<ret>:<validated>` with kind r(eturn) | e(rror), validated `-` = failed -/
def parseRes (typed : Bool) (s : String) : Res :=
  match s.splitOn ":" with
  | [hid, name, kind, ret, vd] =>
    let r : Res := { hid := hid.toNat!, name := name.toNat! }
    if kind == "e" then recordError r hid.toNat!
    else recordReturn r typed (parseVal ret) (if vd == "-" then none else some (parseVal vd))
  | _ => { hid := 0, name := 0 }

def showRes (r : Res) : String :=
  let st := match r.status with | .pending => "pending" | .started => "started" | .completed => "completed" | .error => "error"
  s!"{r.hid}:{st}:{showVal r.value}:{match r.err with | some e => showErr e | none => "-"}"

/-- `results <id> <typed 0/1> <incl> <ra> <rn> <rc> <res,res,…>` → recorded results and all accessor outcomes -/
def handleLine (toks : List String) : String :=
  match toks with
  | [id, typed, incl, ra, rn, rc, specs] =>
    let rs := (if specs == "-" then [] else specs.splitOn ",").map (parseRes (typed == "1"))
    let f := (parseIncl incl).test
    let a := ra == "1"; let n := rn == "1"; let c := rc == "1"
    let sh {α} (x : Except Err α) (g : α → String) : String := match x with | .ok v => "ok " ++ g v | .error e => "raise " ++ showErr e
    let pairs (l : List (Nat × Val)) := ";".intercalate (l.map fun (k, v) => s!"{k}>{showVal v}")
    s!"TRES {id} recorded=[{",".intercalate (rs.map showRes)}] " ++
    s!"list=[{sh (resultsList rs f a n) fun l => ",".intercalate (l.map showVal)}] " ++
    s!"first=[{sh (firstResult rs f a n) showVal}] " ++
    s!"byid=[{sh (byHandlerId rs f a n) pairs}] " ++
    s!"byname=[{sh (byHandlerName rs f a n) pairs}] " ++
    s!"flatdict=[{sh (flatDict rs f a (false) c) fun m => showVal (.dict m)}] " ++
    s!"flatdictn=[{sh (flatDict rs f a n c) fun m => showVal (.dict m)}] " ++
    s!"flatlist=[{sh (flatList rs f a n) fun l => showVal (.list l)}]"
  | _ => "TRES ? unparsable"

end Bubus.Results
