/-
  Bubus.Model.Pure — the synchronous functions of bubus, one Lean function each.

  anchors:  models.py: event_mark_complete_if_all_handlers_completed, event_are_all_children_complete,
            event_cancel_pending_child_processing;  service.py: process_event (parent walk),
            cleanup_event_history, _get_applicable_handlers, _would_create_loop, _handler_dispatched_ancestor.
-/
import Bubus.Model.Basic
namespace Bubus

/-- the traversal of `event_are_all_children_complete`: a work list of events whose children are still to be looked at and
    the set of events already visited (the code's `_visited`); an event is expanded once, every child of an expanded event
    must have status `completed`. The fuel bounds the number of steps (one per work-list entry). -/
def allDoneFrom (w : World) : Nat → List EId → List EId → Bool
  | 0, _, _ => true
  | _ + 1, [], _ => true
  | fuel + 1, e :: rest, seen =>
    if seen.contains e then allDoneFrom w fuel rest seen
    else if (w.ev e).children.all (fun c => (w.ev c).status == .completed) then
      allDoneFrom w fuel ((w.ev e).children ++ rest) (e :: seen)
    else false

/-- enough steps for the whole traversal: one per event plus one per entry of any `event_children` list -/
def walkBudget (w : World) : Nat :=
  (List.range w.ne).foldl (fun n e => n + (w.ev e).children.length + 1) 1

/-- `event_are_all_children_complete`: every event reachable through `event_children` has status `completed`
    (the first argument is kept for the callers' sake; the traversal brings its own budget). -/
def allChildrenComplete (w : World) (_fuel : Nat) (e : EId) : Bool :=
  allDoneFrom w (walkBudget w + (w.ev e).children.length + 1) [e] []

/-- whole tree done, as the property statements define it: all results terminal and all descendants
    complete (used by the monitors, not by the code). -/
def treeDone (w : World) (e : EId) : Bool :=
  (w.ev e).allTerminal && allChildrenComplete w (w.ne + 1) e

/-- `event_mark_complete_if_all_handlers_completed` -/
def markComplete (w : World) (e : EId) : World :=
  let E := w.ev e
  if E.signal then w else
  if E.results.isEmpty then w.setEv e { E with processed := true, signal := true } else
  if !E.allTerminal then w else
  if !allChildrenComplete w (w.ne + 1) e then w else
  w.setEv e { E with processed := true, signal := true }

/-- is the event in some bus's history (how parents are looked up) -/
def inAnyHist (w : World) (p : EId) : Bool :=
  (List.range w.nb).any fun b => !(w.bus b).removed && (w.bus b).hist.contains p

/-- the parent walk at the end of `process_event` -/
def parentWalk (w : World) : Nat → EId → List EId → World
  | 0, _, _ => w
  | fuel+1, e, seen =>
    match (w.ev e).parent with
    | none => w
    | some p =>
      if seen.contains p then w else
      if inAnyHist w p then parentWalk (markComplete w p) fuel p (p :: seen) else w

def byCreated (w : World) (a b : EId) : Bool := (w.ev a).created ≤ (w.ev b).created

/-- victims of `cleanup_event_history`, in removal order -/
def cleanupVictims (w : World) (hist : List EId) (n : Nat) : List EId :=
  let comp := (hist.filter fun e => (w.ev e).status == .completed).mergeSort (byCreated w)
  let star := (hist.filter fun e => (w.ev e).status == .started).mergeSort (byCreated w)
  let pend := (hist.filter fun e => (w.ev e).status == .pending).mergeSort (byCreated w)
  (comp ++ star ++ pend).take (hist.length - n)

/-- `cleanup_event_history` -/
def cleanupHist (w : World) (hist : List EId) (maxh : Option Nat) : List EId :=
  match maxh with
  | none => hist
  | some n =>
    if n = 0 ∨ hist.length ≤ n then hist else
    let victims := cleanupVictims w hist n
    hist.filter fun e => !victims.contains e

def cleanup (w : World) (b : BId) : World :=
  w.modBus b fun B => { B with hist := cleanupHist w B.hist B.maxh }

/-- `_handler_dispatched_ancestor`: how many ancestors (through histories) carry a live result of this handler -/
def ancestorDepth (w : World) (b : BId) (k : HId) : Nat → EId → List EId → Nat → Nat
  | 0, _, _, depth => depth
  | fuel+1, e, visited, depth =>
    if visited.contains e then depth else
    match (w.ev e).parent with
    | none => depth
    | some p =>
      if !inAnyHist w p then depth else
      let d := match (w.ev p).getRes? b k with
        | some r => if r.status == .error then depth else depth + 1
        | none => depth
      ancestorDepth w b k fuel p (e :: visited) d

/-- handlers registered for the event's type, then the wildcard ones (`_get_applicable_handlers`) -/
def matching (B : Bus) (ty : Key) : List Reg :=
  (B.handlers.filter (·.key == ty)) ++ (B.handlers.filter (·.key == 0))

/-- first two checks of `_would_create_loop` -/
def passesLoopFilter (E : Ev) (b : BId) (r : Reg) : Bool :=
  (match r.kind with | .forward t => !E.path.contains t | _ => true) && !E.hasRes b r.hid

/-- does the third check (recursion guard) raise for some handler that passed the first two -/
def recursionTrips (w : World) (b : BId) (e : EId) : Bool :=
  let E := w.ev e
  ((matching (w.bus b) E.etype).filter (passesLoopFilter E b)).any fun r =>
    !r.kind.isForward && ancestorDepth w b r.hid (w.ne + 1) e [] 0 > w.cfg.recursionLimit

/-- `_get_applicable_handlers`: ids of the handlers to run, in order, duplicates removed -/
def applicable (w : World) (b : BId) (e : EId) : List HId :=
  let E := w.ev e
  (((matching (w.bus b) E.etype).filter (passesLoopFilter E b)).map (·.hid)).eraseDups

def kindOf (w : World) (b : BId) (k : HId) : HKind :=
  match (w.bus b).handlers.find? (·.hid == k) with
  | some r => r.kind
  | none => match (w.bus b).everRegs.find? (·.hid == k) with
    | some r => r.kind
    | none => .async

/-- `event_cancel_pending_child_processing` -/
def cancelPendingChildren (w : World) : Nat → EId → World
  | 0, _ => w
  | fuel+1, e =>
    (w.ev e).children.foldl (fun w c =>
      let w := w.modEv c fun C =>
        { C with results := C.results.map fun r =>
            if r.status == .pending then { r with status := .error, err := .cancelled } else r }
      cancelPendingChildren w fuel c) w

/-- capacity test of `dispatch` -/
def inFlight (w : World) (b : BId) : Nat :=
  ((w.bus b).hist.filter fun x => (w.ev x).status != .completed).length

def ownExpired (w : World) (i : IId) : Bool := (w.inst i).deadline != 0 && (w.inst i).deadline ≤ w.now

/-- is some enclosing instance (through inline activations) past its deadline -/
def ancestorExpired (w : World) : Nat → IId → Bool
  | 0, _ => false
  | fuel+1, i =>
    match (w.inst i).exec with
    | .inst j => ownExpired w j || ancestorExpired w fuel j
    | _ => false

/-- the instance and the instances it runs inside of (through inline activations), innermost first -/
def execChain (w : World) : Nat → IId → List IId
  | 0, i => [i]
  | fuel+1, i =>
    match (w.inst i).exec with
    | .inst j => i :: execChain w fuel j
    | _ => [i]

/-- has the cancellation of instance `i` already been set in motion: its own task is cancelled, or — it being suspended
    in an inline activation — the cancellation was handed to an instance running inside it, which is still cleaning up -/
def cancelInProgress (w : World) (i : IId) : Bool :=
  (List.range w.ni).any fun j =>
    (w.inst j).cancelling && (w.inst j).st != .finished && (execChain w (w.ni + 1) j).contains i

def cancelDue (w : World) (i : IId) : Bool := ownExpired w i || ancestorExpired w (w.ni + 1) i

/-- is `e` equal to `c` or a descendant of `c` through the parent relation -/
def isDesc (w : World) : Nat → EId → EId → Bool
  | 0, e, c => e == c
  | fuel+1, e, c => e == c || match (w.ev e).parent with
      | some p => isDesc w fuel p c
      | none => false

/-! ### queue accounting (C15): events of a bus that some executor holds in hand -/

def tookOn (w : World) (b : BId) (i : IId) : Bool :=
  match (w.inst i).took with | some (b', _) => b' == b | none => false

def actOn (w : World) (b : BId) (p : Proc) : Bool :=
  match w.act p with | some A => A.bus == b | none => false

/-- events of bus `b` in hand: taken by the run loop and not yet begun, in an open activation of the run loop,
    taken by an awaiting handler, in an open inline activation -/
def RL.isTook : RL → Bool | .took _ => true | _ => false

/-- the accounting view of one bus -/
def acctB (B : Bus) : List EId × Nat × Bool := (B.queue, B.unfinished, B.rl.isTook)

def rlPart (w : World) (b : BId) : Nat :=
  (if (w.bus b).rl.isTook then 1 else 0) + (if actOn w b (.rl b) then 1 else 0)

def instOf (w : World) (b : BId) (i : IId) : Nat :=
  (if tookOn w b i then 1 else 0) + (if actOn w b (.inst i) then 1 else 0)

def hand (w : World) (b : BId) : Nat := rlPart w b + ((List.range w.ni).map (instOf w b)).sum


end Bubus
