/-
  Bubus.Model.Basic — abstract state of the bubus event bus (bubus/service.py, bubus/models.py).

  Mathlib-free and executable: the same definitions are run by the driver on real histories and are the
  subject of the theorems in `Bubus/Proofs`.

  Identities (`EId`, `BId`, `HId`, `IId`) are natural numbers; maps are total functions updated through the
  setters below (each setter comes with `rfl`-style simp lemmas in `Bubus/Proofs/Frame.lean`).
-/
namespace Bubus

abbrev EId := Nat   -- event
abbrev BId := Nat   -- bus
abbrev HId := Nat   -- handler (one registered callable; the real id is (id(bus), id(handler)))
abbrev IId := Nat   -- handler instance (one execution of a handler for an event on a bus)
abbrev Key := Nat   -- registration key: 0 is the wildcard '*', n+1 an event type name

/-- `EventResult.status`. -/
inductive Status | pending | started | completed | error
  deriving DecidableEq, Repr, Inhabited

/-- What kind of error a result holds (`EventResult.error`), abstracted. -/
inductive ErrK | none | handler | validation | timeout | cancelled
  deriving DecidableEq, Repr, Inhabited

/-- `EventResult` (bubus/models.py): one per (bus, handler) on an event, in insertion order. -/
structure Res where
  hid : HId
  bus : BId
  status : Status := .pending
  err : ErrK := .none
  children : List EId := []
  deriving DecidableEq, Repr, Inhabited

def Res.terminal (r : Res) : Bool := r.status == .completed || r.status == .error
/-- `started_at is not None`: set by `update` as soon as the status is not pending, never reset. -/
def Res.startedAt (r : Res) : Bool := r.status != .pending

/-- `BaseEvent` (bubus/models.py). -/
structure Ev where
  etype : Key := 1
  parent : Option EId := none
  path : List BId := []
  results : List Res := []
  processed : Bool := false     -- event_processed_at is not None
  signal : Bool := false        -- event_completed_signal.is_set()
  created : Nat := 0            -- event_created_at (sort key of eviction)
  timeout : Nat := 0            -- event_timeout in ticks, 0 = None
  deriving Repr, Inhabited

/-- derived `event_status` -/
inductive EStatus | pending | started | completed
  deriving DecidableEq, Repr, Inhabited

def Ev.allTerminal (e : Ev) : Bool := e.results.all Res.terminal
def Ev.anyStarted (e : Ev) : Bool := e.results.any Res.startedAt
/-- `event_completed_at is not None` -/
def Ev.completedAt (e : Ev) : Bool := if e.results.isEmpty then e.processed else e.allTerminal
/-- `event_started_at is not None` -/
def Ev.startedAt (e : Ev) : Bool := e.anyStarted || e.processed
def Ev.status (e : Ev) : EStatus :=
  if e.completedAt then .completed else if e.startedAt then .started else .pending
/-- `event_children`: concatenation of the per-result child lists, in result order. -/
def Ev.children (e : Ev) : List EId := e.results.flatMap (·.children)
def Ev.hasRes (e : Ev) (b : BId) (k : HId) : Bool := e.results.any fun r => r.hid == k && r.bus == b
def Ev.getRes? (e : Ev) (b : BId) (k : HId) : Option Res := e.results.find? fun r => r.hid == k && r.bus == b

/-- processes that act: a bus's run loop, a handler instance, external (non-handler) code -/
inductive Proc | rl (b : BId) | inst (i : IId) | ext
  deriving DecidableEq, Repr, Inhabited

/-- handler kinds: ordinary async function, ordinary sync function, `other_bus.dispatch` (forwarding),
    the temporary handler of `expect()` -/
inductive HKind | async | sync | forward (target : BId) | expect (x : Nat) (pred : Nat)
  deriving DecidableEq, Repr, Inhabited

def HKind.isForward : HKind → Bool | .forward _ => true | _ => false
def HKind.isExpect : HKind → Bool | .expect _ _ => true | _ => false
def HKind.isSync : HKind → Bool | .async => false | _ => true

/-- control state of a bus's run loop task (`_run_loop` / `step`) -/
inductive RL | none | polling | took (e : EId) | processing | exited
  deriving DecidableEq, Repr, Inhabited

structure Reg where
  key : Key
  hid : HId
  kind : HKind
  deriving DecidableEq, Repr, Inhabited

/-- `EventBus` (bubus/service.py) -/
structure Bus where
  handlers : List Reg := []          -- registration order (per key the code keeps a list; see `applicable`)
  everRegs : List Reg := []          -- ghost: every registration ever made (a removed expect() handler may still be scheduled)
  queue : List EId := []             -- event_queue, head first
  enq : List EId := []               -- ghost: every event ever accepted into the queue, in order
  taken : List EId := []             -- ghost: every event ever taken off the queue (run loop or inline), in order
  hist : List EId := []              -- event_history keys, insertion order
  parallel : Bool := false
  maxh : Option Nat := some 50       -- max_history_size
  wal : Bool := false                -- wal_path is set
  walLines : List EId := []          -- ghost: events written to the WAL, in order
  rl : RL := .none
  created : Bool := false            -- event_queue / _on_idle exist
  running : Bool := false            -- _is_running
  shutdown : Bool := false           -- queue._is_shutdown
  unfinished : Nat := 0              -- queue._unfinished_tasks
  idle : Bool := false               -- _on_idle.is_set()
  woke : Bool := false               -- the run loop resumed after its queue.get() returned (step() cleared the idle flag)
  cancelReq : Bool := false          -- the run loop task has a pending cancellation (stop() after its grace period, or task.cancel())
  removed : Bool := false            -- stop(clear=True): removed from EventBus.all_instances
  deriving Repr, Inhabited

/-- one `process_event(bus, ev)` in progress -/
structure Act where
  sel : List HId := []               -- ghost: the handlers selected when the activation began
  bus : BId
  ev : EId
  todo : List HId                    -- applicable handlers not yet scheduled, in order
  running : List IId                 -- scheduled and not yet finished instances
  walDone : Bool := false            -- the WAL line of this activation has been attempted
  deriving DecidableEq, Repr, Inhabited

/-- control state of a handler instance -/
inductive ISt
  | scheduled            -- executor marked the result started and created the handler task
  | running              -- body executing (possibly suspended in user code)
  | awaiting (c : EId)   -- body suspended in `await c` (inline processing mode)
  | ended                -- body returned / raised / was cancelled; executor has not yet recorded it
  | finished             -- executor recorded the outcome
  deriving DecidableEq, Repr, Inhabited

inductive Out | ret | raise | cancelled
  deriving DecidableEq, Repr, Inhabited

structure Inst where
  bus : BId := 0
  ev : EId := 0
  hid : HId := 0
  kind : HKind := .async
  exec : Proc := .ext                -- executor of the activation this instance belongs to
  st : ISt := .finished
  took : Option (BId × EId) := none  -- inline take done, process_event not yet entered
  deadline : Nat := 0                -- start + timeout, 0 = none
  out : Out := .ret
  fwdDone : Bool := false            -- forwarding instance has issued its dispatch
  iters : Nat := 0                   -- iterations of the inline polling loop of the current await
  yields : Nat := 0                  -- ... of which ended in a suspension (every pass ends in at most one)
  cancelling : Bool := false         -- the handler task has been cancelled (deadline / executor cancelled); the body may still clean up
  deriving Repr, Inhabited

/-- control state of an external task blocked in one of the bus's blocking calls -/
inductive WSt
  | idle                                             -- not inside a blocking bus call
  | join (b : BId) (sawZero sawIdle : Bool)          -- wait_until_idle: awaiting queue.join() (both observations are sticky)
  | idleWait (b : BId) (sawIdle : Bool)              -- wait_until_idle: awaiting _on_idle.wait()
  | check (b : BId)                                  -- wait_until_idle: after the sleep(0), about to re-check
  | stopping (b : BId) (deadline : Nat) (clear : Bool) -- stop(): waiting (at most 0.1 s) for the run loop to finish
  | expecting (b : BId) (key : Key) (k : HId) (deadline : Option Nat) (got : Option EId) (dead : Bool)  -- expect() (dead: its future was cancelled): temporary handler k installed
  deriving DecidableEq, Repr, Inhabited

structure Config where
  hardLimit : Nat := 100
  queueMax : Nat := 50
  maxPoll : Nat := 1000
  recursionLimit : Nat := 2
  stopGrace : Nat := 128            -- 0.1 s in ticks of 1/1280 s
  deriving Repr, Inhabited

structure World where
  cfg : Config := {}
  bus : BId → Bus := fun _ => {}
  ev : EId → Ev := fun _ => {}
  inst : IId → Inst := fun _ => {}
  act : Proc → Option Act := fun _ => none
  lock : Option BId := none          -- run loop holding the global lock
  nb : Nat := 0                      -- buses are 0 … nb-1 (EventBus.all_instances)
  ne : Nat := 0                      -- events are 0 … ne-1
  ni : Nat := 0                      -- instances are 0 … ni-1
  now : Nat := 0
  stack : List IId := []             -- ghost: handler instances that exist and are not finished, innermost first
  waiter : Nat → WSt := fun _ => .idle -- external tasks
  nx : Nat := 0                      -- external tasks are 0 … nx-1

instance : Inhabited World := ⟨{}⟩

def World.setBus (w : World) (b : BId) (x : Bus) : World :=
  { w with bus := fun b' => if b' = b then x else w.bus b' }
def World.setEv (w : World) (e : EId) (x : Ev) : World :=
  { w with ev := fun e' => if e' = e then x else w.ev e' }
def World.setInst (w : World) (i : IId) (x : Inst) : World :=
  { w with inst := fun i' => if i' = i then x else w.inst i' }
def World.setAct (w : World) (p : Proc) (x : Option Act) : World :=
  { w with act := fun p' => if p' = p then x else w.act p' }
def World.setLock (w : World) (l : Option BId) : World := { w with lock := l }
def World.setNow (w : World) (t : Nat) : World := { w with now := t }
def World.setNb (w : World) (n : Nat) : World := { w with nb := n }
def World.setNe (w : World) (n : Nat) : World := { w with ne := n }
def World.setNi (w : World) (n : Nat) : World := { w with ni := n }
def World.setStack (w : World) (l : List IId) : World := { w with stack := l }
def World.setWaiter (w : World) (x : Nat) (s : WSt) : World :=
  { w with waiter := fun x' => if x' = x then s else w.waiter x', nx := max w.nx (x + 1) }

def World.modBus (w : World) (b : BId) (f : Bus → Bus) : World := w.setBus b (f (w.bus b))
def World.modEv (w : World) (e : EId) (f : Ev → Ev) : World := w.setEv e (f (w.ev e))
def World.modInst (w : World) (i : IId) (f : Inst → Inst) : World := w.setInst i (f (w.inst i))

/-- update the result of (bus b, handler k) on an event -/
def Ev.updRes (E : Ev) (b : BId) (k : HId) (f : Res → Res) : Ev :=
  { E with results := E.results.map fun r => if r.hid == k && r.bus == b then f r else r }

end Bubus
