/-
  Bubus.Model.Step — labelled transition function of the model.

  `step w l = some w'`: the library (or a client, for client labels) can perform atomic action `l` in state `w`.
  Each label has a list of named checks (`checks`, the guard) and an effect (`apply`) built from setters only.
  Handler bodies and external code are the most general client: any enabled client label may happen.
-/
import Bubus.Model.Pure
namespace Bubus

/-- outcome of `EventBus.dispatch` -/
inductive DRes | ok | capacity | queueFull | shutDown
  deriving DecidableEq, Repr, Inhabited

/-- what the executor records for a finished handler -/
inductive Fin | completed | errHandler | errValidation | errTimeout | errCancelled
  deriving DecidableEq, Repr, Inhabited

inductive Label
  -- construction / registration (client)
  | newBus (b : BId) (parallel : Bool) (maxh : Option Nat) (wal : Bool)
  | on (b : BId) (key : Key) (k : HId) (kind : HKind)
  | off (b : BId) (key : Key) (k : HId)
  | newEvent (e : EId) (ty : Key) (parent : Option EId) (timeout : Nat)
  -- time
  | tick (t : Nat)
  -- library
  | rlCreate (b : BId)
  | dispatch (p : Proc) (b : BId) (e : EId) (res : DRes)
  | take (p : Proc) (b : BId) (e : EId)
  | peBegin (p : Proc) (b : BId) (e : EId)
  | peRecTrip (p : Proc) (b : BId) (e : EId)
  | hSched (p : Proc) (i : IId) (b : BId) (e : EId) (k : HId)
  | hStart (i : IId)
  | hCancel (i : IId)
  | hEnd (i : IId) (out : Out)
  | hFinish (i : IId) (r : Fin)
  | walWrite (p : Proc) (b : BId) (e : EId) (ok : Bool)
  | peEnd (p : Proc) (b : BId) (e : EId)
  | peAbort (p : Proc) (b : BId) (e : EId)
  | awaitBegin (i : IId) (c : EId)
  | pollYield (i : IId)
  | awaitEnd (i : IId) (c : EId)
  | xAwaitEnd (e : EId)
  | readBus (i : IId) (got : Option BId)
  -- idle flag / wait_until_idle
  | rlWake (b : BId)
  | rlPoll (b : BId)
  | wiBegin (x : Nat) (b : BId)
  | wiJoined (x : Nat)
  | wiIdle (x : Nat)
  | wiRecheck (x : Nat)
  | wiEnd (x : Nat)
  | wiCancel (x : Nat)
  -- stop / cancellation of the run loop
  | stopBegin (x : Nat) (b : BId) (clear : Bool)
  | stopEnd (x : Nat)
  | stopNoop (x : Nat) (b : BId)
  | rlExit (b : BId)
  | cancelRl (b : BId)
  | rlCancelled (b : BId)
  | rlDropExit (b : BId)
  -- expect
  | expectBegin (x : Nat) (b : BId) (key : Key) (k : HId) (pred : Nat) (timeout : Option Nat)
  | expectEnd (x : Nat) (got : Option EId)
  | expectCancel (x : Nat)
  | expectTimeout (x : Nat)      -- the deadline fires: the call's future is cancelled (the call returns later)
  | expectCancelReq (x : Nat)    -- the calling task is cancelled: its future is cancelled with it
  | hSkip (p : Proc) (b : BId) (e : EId) (k : HId)   -- the activation's next handler is not run: its result was made terminal meanwhile
                                                      -- (cancelled by a timeout cleanup); `execute_handler` refuses it
  deriving Repr, Inhabited

abbrev Checks := List (String × Bool)
def Checks.ok (c : Checks) : Bool := c.all (·.2)
def Checks.why (c : Checks) : String :=
  match c.find? (fun x => !x.2) with
  | some x => x.1
  | none => "ok"

/-- dispatch context of a process: (current event, bus, handler id) of the running handler, if any -/
def ctxOf (w : World) : Proc → Option (EId × BId × HId)
  | .inst i => some ((w.inst i).ev, (w.inst i).bus, (w.inst i).hid)
  | _ => none

/-- what `dispatch` answers in state `w` (after parent / path bookkeeping, which does not influence it) -/
def dispatchOutcome (w : World) (b : BId) : DRes :=
  let B := w.bus b
  if B.maxh.isSome && B.queue.length + inFlight w b ≥ w.cfg.hardLimit then .capacity
  else if B.shutdown then .shutDown
  else if B.maxh.isSome && B.queue.length ≥ w.cfg.queueMax then .queueFull
  else .ok

def isAwaiting (s : ISt) : Bool := match s with | .awaiting _ => true | _ => false
def awaitedOf (s : ISt) : Option EId := match s with | .awaiting c => some c | _ => none

def actIs (w : World) (p : Proc) (b : BId) (e : EId) : Bool :=
  match w.act p with
  | some A => A.bus == b && A.ev == e
  | none => false

/-- is executor `p` in a position to run handlers: a run loop holding the lock, or an awaiting instance -/
def execActive (w : World) : Proc → Bool
  | .rl b => w.lock == some b && (w.bus b).rl == .processing
  | .inst i => isAwaiting (w.inst i).st
  | .ext => false

/-- every armed deadline of a live async instance is ≥ t -/
def noDeadlineBefore (w : World) (t : Nat) : Bool :=
  (List.range w.ni).all fun i =>
    let I := w.inst i
    I.deadline == 0 || I.st == .finished || I.st == .ended || I.cancelling || t ≤ I.deadline || cancelInProgress w i

/-- nothing queued and nothing pending or started in the history (`events_pending`, `events_started`, `qsize()`) -/
def idleCond (w : World) (b : BId) : Bool :=
  (w.bus b).queue.isEmpty && (w.bus b).hist.all fun e => (w.ev e).status == .completed

def histAllComplete (w : World) (b : BId) : Bool := (w.bus b).hist.all fun e => (w.ev e).status == .completed

/-- the oracle for `expect` predicates: `none` = the predicate raises, `some m` = include ∧ ¬exclude -/
def expectMatch (pred : Nat) (e : EId) : Option Bool :=
  match pred with
  | 0 => some true
  | 1 => some (e % 2 == 0)
  | 2 => some (e % 3 != 0)
  | 3 => if e % 4 == 1 then none else some true
  | _ => some false

/-- the waiter (external task) an expect handler belongs to, if it is still waiting without a match -/
def expectOpen (w : World) (x : Nat) (k : HId) : Bool :=
  match w.waiter x with
  | .expecting _ _ k' _ got dead => k' == k && got.isNone && !dead
  | _ => false

/-- how the body of an `expect` handler instance ends: it evaluates the predicates only while the future is not done -/
def expectOut (w : World) (i : IId) : Option Out :=
  match (w.inst i).kind with
  | .expect x pred =>
    if expectOpen w x (w.inst i).hid then
      (match expectMatch pred (w.inst i).ev with | none => some .raise | some _ => some .ret)
    else some .ret
  | _ => none

/-- deadlines of blocked external tasks (stop grace period, expect timeout) -/
def noWaiterDeadlineBefore (w : World) (t : Nat) : Bool :=
  (List.range w.nx).all fun x =>
    match w.waiter x with
    | .stopping _ d _ => t ≤ d
    | .expecting _ _ _ d got dead => got.isSome || dead || (match d with | some d => t ≤ d | none => true)
    | _ => true

/-- is the run loop at the root of this instance's executor chain being cancelled -/
def rootCancelled (w : World) : Nat → IId → Bool
  | 0, _ => false
  | fuel+1, i =>
    match (w.inst i).exec with
    | .inst j => rootCancelled w fuel j
    | .rl b => (w.bus b).cancelReq
    | .ext => false

def cancelDueAll (w : World) (i : IId) : Bool := cancelDue w i || rootCancelled w (w.ni + 1) i

def checks (w : World) : Label → Checks
  | .newBus b _ _ _ => [("newBus: id is not the next bus id", b == w.nb)]
  | .on b _ k kind =>
    [("on: unknown bus", b < w.nb),
     ("on: the temporary handler of an expect() call is registered by that call only", !kind.isExpect),
     ("on: this handler id is the one of a pending expect() subscription of the bus",
        (w.bus b).handlers.all fun r => !(r.hid == k && r.kind.isExpect))]
  | .off b _ _ => [("off: unknown bus", b < w.nb)]
  | .newEvent e ty parent _ =>
    [("newEvent: id is not the next event id", e == w.ne),
     ("newEvent: type key must not be the wildcard", ty != 0),
     ("newEvent: supplied parent must be an existing event (or the event itself)",
        match parent with | some p => p < w.ne || p == e | none => true)]
  | .tick t =>
    [("tick: time goes backwards", w.now ≤ t),
     ("tick: passes an armed handler deadline without cancelling the handler", noDeadlineBefore w t),
     ("tick: passes the deadline of a blocked stop() / expect() call", noWaiterDeadlineBefore w t)]
  | .rlCreate b =>
    [("rlCreate: unknown bus", b < w.nb),
     ("rlCreate: bus already running", !(w.bus b).running),
     ("rlCreate: previous run loop still alive", (w.bus b).rl == .none || (w.bus b).rl == .exited)]
  | .dispatch p b e res =>
    [("dispatch: unknown bus", b < w.nb),
     ("dispatch: unknown event", e < w.ne),
     ("dispatch: caller is neither external code nor a running handler body",
        match p with
        | .ext => true
        | .inst i => (w.inst i).st == .running
        | .rl _ => false),
     ("dispatch: a forwarding handler dispatches its own event to its target exactly once",
        match p with
        | .inst i => (match (w.inst i).kind with
            | .forward t => t == b && e == (w.inst i).ev && !(w.inst i).fwdDone
            | _ => true)
        | _ => true),
     ("dispatch: outcome differs from the model's (capacity / shutdown / queue-full / ok)", res == dispatchOutcome w b),
     ("dispatch: accepted on a bus whose queue was never created (no rlCreate)", res != .ok || (w.bus b).created)]
  | .take p b e =>
    [("take: unknown bus", b < w.nb),
     ("take: queue empty or its head is another event", (w.bus b).queue.head? == some e),
     ("take: taker is neither this bus's polling run loop nor an awaiting handler with nothing in hand",
        match p with
        | .rl b' => b' == b && (w.bus b).rl == .polling     -- also after stop(): the pending get() still takes a queued item
        | .inst i => isAwaiting (w.inst i).st && (w.act (.inst i)).isNone && (w.inst i).took.isNone &&
                     (match awaitedOf (w.inst i).st with | some c => !(w.ev c).signal | none => false)
                     -- (a bus removed by stop(clear=True) may still be visited: the polling pass iterates a copy of all_instances)
        | .ext => false)]
  | .peBegin p b e =>
    [("peBegin: executor already has an open activation", (w.act p).isNone),
     ("peBegin: executor did not take this event from this bus / lock not free",
        match p with
        | .rl b' => b' == b && (w.bus b).rl == .took e && w.lock.isNone && (w.bus b).woke
        | .inst i => (w.inst i).took == some (b, e)
        | .ext => false),
     ("peBegin: recursion guard must raise here", !recursionTrips w b e),
     ("peBegin: the run-loop task has been cancelled (the cancellation is delivered before it can begin an activation)",
        match p with | .rl b' => !(w.bus b').cancelReq | _ => true)]
  | .peRecTrip p b e =>
    [("peRecTrip: executor already has an open activation", (w.act p).isNone),
     ("peRecTrip: executor did not take this event from this bus / lock not free",
        match p with
        | .rl b' => b' == b && (w.bus b).rl == .took e && w.lock.isNone && (w.bus b).woke
        | .inst i => (w.inst i).took == some (b, e)
        | .ext => false),
     ("peRecTrip: recursion guard does not raise here", recursionTrips w b e),
     ("peRecTrip: the run-loop task has been cancelled (the cancellation is delivered before it can begin an activation)",
        match p with | .rl b' => !(w.bus b').cancelReq | _ => true)]
  | .hSched p i b e k =>
    [("hSched: instance id is not the next instance id", i == w.ni),
     ("hSched: unknown event", e < w.ne),
     ("hSched: executor has no open activation for this (bus, event)", actIs w p b e),
     ("hSched: executor is not active (run loop without lock / instance not awaiting)", execActive w p),
     ("hSched: handler is not the next one of the activation",
        match w.act p with | some A => A.todo.head? == some k | none => false),
     ("hSched: serial bus schedules a handler while another one of the activation is unfinished",
        (w.bus b).parallel || (match w.act p with | some A => A.running.isEmpty | none => false)),
     ("hSched: result of this handler is not pending",
        match (w.ev e).getRes? b k with | some r => r.status == .pending | none => false),
     ("hSched: the run-loop task has been cancelled (the cancellation is delivered before it can schedule another handler)",
        match p with | .rl b' => !(w.bus b').cancelReq | _ => true)]
  | .hStart i =>
    [("hStart: unknown instance", i < w.ni),
     ("hStart: instance is not scheduled", (w.inst i).st == .scheduled)]
  | .hCancel i =>
    [("hCancel: unknown instance", i < w.ni),
     ("hCancel: body is not executing", (w.inst i).st == .running || isAwaiting (w.inst i).st),
     ("hCancel: a sync handler cannot be cancelled", !(w.inst i).kind.isSync),
     ("hCancel: inline activation still open or event in hand (the innermost task is cancelled first)",
        (w.act (.inst i)).isNone && (w.inst i).took.isNone),
     ("hCancel: cancelled although neither its own nor an enclosing deadline has passed nor its run loop is being cancelled",
        cancelDueAll w i),
     ("hCancel: already cancelled", !(w.inst i).cancelling)]
  | .hEnd i out =>
    [("hEnd: unknown instance", i < w.ni),
     ("hEnd: body still has an inline activation open or an event in hand",
        (w.act (.inst i)).isNone && (w.inst i).took.isNone),
     ("hEnd: body is not executing (returning/raising needs `running`; cancellation needs running or awaiting)",
        (w.inst i).st == .running),
     ("hEnd: a sync handler cannot be cancelled", out != .cancelled || !(w.inst i).kind.isSync),
     ("hEnd: ends cancelled although its task was never cancelled (no hCancel)",
        out != .cancelled || (w.inst i).cancelling),
     ("hEnd: a forwarding handler ends without having dispatched",
        !(w.inst i).kind.isForward || (w.inst i).fwdDone),
     ("hEnd: an expect() handler returns unless its predicate raises while the call is still unresolved",
        match expectOut w i with | some o => o == out | none => true)]
  | .hFinish i r =>
    [("hFinish: unknown instance", i < w.ni),
     ("hFinish: body has not ended (or, for a timeout/cancel before start, is not merely scheduled)",
        (w.inst i).st == .ended ||
        ((w.inst i).st == .scheduled && (r == .errTimeout || r == .errCancelled) && cancelDueAll w i)),
     ("hFinish: recorded outcome does not fit how the body ended",
        (w.inst i).st != .ended ||
        (match (w.inst i).out, r with
        | .ret, .completed => true
        | .ret, .errValidation => true
        | .ret, .errHandler => true          -- returned an exception object
        | .raise, .errHandler => true
        | .cancelled, .errTimeout => ownExpired w i
        | .cancelled, .errCancelled => ancestorExpired w (w.ni + 1) i || rootCancelled w (w.ni + 1) i
        -- the executor itself was cancelled between the end of the body and the recording of its outcome
        | .ret, .errCancelled => ancestorExpired w (w.ni + 1) i || rootCancelled w (w.ni + 1) i
        | .raise, .errCancelled => ancestorExpired w (w.ni + 1) i || rootCancelled w (w.ni + 1) i
        | _, _ => false)),
     ("hFinish: instance is not among the running ones of its executor's activation",
        match w.act (w.inst i).exec with | some A => A.running.contains i | none => false)]
  | .walWrite p b e _ =>
    [("walWrite: executor has no open activation for this (bus, event)", actIs w p b e),
     ("walWrite: handlers outstanding",
        match w.act p with | some A => A.todo.isEmpty && A.running.isEmpty | none => false),
     ("walWrite: bus has no WAL or the line was already written",
        (w.bus b).wal && (match w.act p with | some A => !A.walDone | none => false))]
  | .peEnd p b e =>
    [("peEnd: executor has no open activation for this (bus, event)", actIs w p b e),
     ("peEnd: handlers outstanding",
        match w.act p with | some A => A.todo.isEmpty && A.running.isEmpty | none => false),
     ("peEnd: WAL line of a WAL bus not yet attempted",
        !(w.bus b).wal || (match w.act p with | some A => A.walDone | none => false)),
     ("peEnd: executor not active", execActive w p)]
  | .peAbort p b e =>
    [("peAbort: executor has no open activation for this (bus, event)", actIs w p b e),
     ("peAbort: a handler of the activation is still unfinished",
        match w.act p with | some A => A.running.isEmpty | none => false),
     ("peAbort: only an activation whose executor is being cancelled is abandoned",
        match p with | .inst i => cancelDueAll w i | .rl b' => (w.bus b').cancelReq | .ext => false)]
  | .awaitBegin i _ =>
    [("awaitBegin: unknown instance", i < w.ni),
     ("awaitBegin: body is not executing", (w.inst i).st == .running),
     ("awaitBegin: a sync handler cannot await", !(w.inst i).kind.isSync)]
  | .pollYield i =>
    [("pollYield: unknown instance", i < w.ni),
     ("pollYield: instance is not polling", isAwaiting (w.inst i).st && (w.act (.inst i)).isNone && (w.inst i).took.isNone),
     -- the polling loop suspends (`sleep(0)`) only after a pass over the buses that found every queue empty
     ("pollYield: a queue holds an event (the polling pass takes it instead of suspending)",
        -- (a bus removed by stop(clear=True) is no longer visited by later passes)
        (List.range w.nb).all fun b => (w.bus b).removed || (w.bus b).queue.isEmpty),
     -- the loop makes at most cfg.maxPoll passes, each of which ends in at most one such yield; then the await gives up
     ("pollYield: the polling passes are used up", (w.inst i).yields < w.cfg.maxPoll)]
  | .awaitEnd i c =>
    [("awaitEnd: unknown instance", i < w.ni),
     ("awaitEnd: instance is not awaiting this event", (w.inst i).st == .awaiting c),
     ("awaitEnd: inline activation still open or event in hand", (w.act (.inst i)).isNone && (w.inst i).took.isNone),
     ("awaitEnd: awaited event is not signalled and the polling loop has not run out",
        (w.ev c).signal || (w.inst i).iters ≥ w.cfg.maxPoll)]
  | .xAwaitEnd e =>
    [("xAwaitEnd: unknown event", e < w.ne),
     ("xAwaitEnd: completion signal is not set", (w.ev e).signal)]
  | .readBus i got =>
    [("readBus: unknown instance", i < w.ni),
     ("readBus: body is not executing", (w.inst i).st == .running),
     ("readBus: event_bus of the handled event is the bus running the handler", got == some (w.inst i).bus)]
  | .rlWake b =>
    [("rlWake: run loop has no event in hand or already resumed",
        (match (w.bus b).rl with | .took _ => true | _ => false) && !(w.bus b).woke)]
  | .rlPoll b =>
    [("rlPoll: run loop is not polling a running bus", (w.bus b).rl == .polling && (w.bus b).running)]
  | .wiBegin x b =>
    [("wiBegin: unknown bus", b < w.nb),
     ("wiBegin: task is already blocked in a bus call", w.waiter x == .idle),
     ("wiBegin: bus was never started (no rlCreate)", (w.bus b).created)]
  | .wiJoined x =>
    [("wiJoined: queue.join() cannot have returned (unfinished was never 0 since the call)",
        match w.waiter x with | .join _ z _ => z | _ => false)]
  | .wiIdle x =>
    [("wiIdle: _on_idle.wait() cannot have returned (idle flag never set since the wait began)",
        match w.waiter x with | .idleWait _ z => z | _ => false)]
  | .wiRecheck x =>
    [("wiRecheck: wait_until_idle re-waits only if the bus is not idle or its history holds unfinished events",
        match w.waiter x with | .check b => !((w.bus b).idle && histAllComplete w b) | _ => false)]
  | .wiEnd x =>
    [("wiEnd: wait_until_idle returns only when the idle flag is set and the history holds no pending/started event",
        match w.waiter x with | .check b => (w.bus b).idle && histAllComplete w b | _ => false)]
  | .wiCancel x =>
    [("wiCancel: task is not blocked in wait_until_idle",
        match w.waiter x with | .join .. | .idleWait .. | .check _ => true | _ => false)]
  | .stopBegin x b _ =>
    [("stopBegin: unknown bus", b < w.nb),
     ("stopBegin: task is already blocked in a bus call", w.waiter x == .idle),
     ("stopBegin: bus is not running (stop() would return at once)", (w.bus b).running)]
  | .stopNoop _ b =>
    [("stopNoop: unknown bus", b < w.nb),
     ("stopNoop: bus is running", !(w.bus b).running)]
  | .stopEnd x =>
    [("stopEnd: stop() returns when the run loop has finished or its 0.1 s grace period is over",
        match w.waiter x with
        | .stopping b d _ => (w.bus b).rl == .exited || (w.bus b).rl == .none || d ≤ w.now
        | _ => false)]
  | .rlExit b =>
    [("rlExit: only a polling run loop of a stopped or cancelled bus, or one whose shut-down queue is empty, leaves its loop",
        (w.bus b).rl == .polling &&
        (!(w.bus b).running || (w.bus b).cancelReq || ((w.bus b).shutdown && (w.bus b).queue.isEmpty)))]
  | .cancelRl b =>
    [("cancelRl: no live run loop task", (w.bus b).rl != .none && (w.bus b).rl != .exited)]
  | .rlCancelled b =>
    [("rlCancelled: only a cancelled run loop that holds a taken event but has not begun it is torn down here",
        (w.bus b).cancelReq && (match (w.bus b).rl with | .took _ => true | _ => false))]
  | .rlDropExit b =>
    [("rlDropExit: only a run loop that took an event, has not resumed yet and finds its bus stopped drops the event and leaves",
        (match (w.bus b).rl with | .took _ => true | _ => false) && !(w.bus b).woke && !(w.bus b).running)]
  | .expectBegin x b _ k _ _ =>
    [("expectBegin: unknown bus", b < w.nb),
     ("expectBegin: task is already blocked in a bus call", w.waiter x == .idle),
     ("expectBegin: the id of the temporary handler is already registered on the bus (handler ids are object identities)",
        (w.bus b).handlers.all fun r => r.hid != k)]
  | .expectEnd x got =>
    [("expectEnd: expect() returns the event its handler resolved the future with, or times out at its deadline",
        match w.waiter x with
        | .expecting _ _ _ d g _ =>
          (match got with
           | some _ => g == got
           -- (a match resolved in the very instant the deadline fires may lose against the timeout)
           | none => (match d with | some d => d ≤ w.now | none => false))
        | _ => false)]
  | .expectCancel x =>
    [("expectCancel: task is not blocked in expect()", match w.waiter x with | .expecting .. => true | _ => false)]
  | .expectTimeout x =>
    [("expectTimeout: no unresolved expect() call of this task whose deadline has passed",
        match w.waiter x with
        | .expecting _ _ _ (some d) none false => d ≤ w.now
        | _ => false)]
  | .expectCancelReq x =>
    [("expectCancelReq: task is not blocked in expect()", match w.waiter x with | .expecting .. => true | _ => false)]
  | .hSkip p b e k =>
    [("hSkip: executor has no open activation for this (bus, event)", actIs w p b e),
     ("hSkip: executor is not active (run loop without lock / instance not awaiting)", execActive w p),
     ("hSkip: handler is not the next one of the activation",
        match w.act p with | some A => A.todo.head? == some k | none => false),
     ("hSkip: result of this handler is not terminal (only a handler whose result was completed meanwhile is passed over)",
        match (w.ev e).getRes? b k with | some r => r.terminal | none => false),
     ("hSkip: unknown event", e < w.ne)]

/-- the run loop leaves `step()`: back to the loop head (or out of the loop when the bus was stopped meanwhile) -/
def rlBack (w : World) (b : BId) : World :=
  (w.modBus b fun B => { B with rl := if B.running then .polling else .exited }).setLock none

/-- `_run_loop` after a completed `step()`: set the idle flag when nothing is queued, pending or started -/
def rlIdleCheck (w : World) (b : BId) : World :=
  if idleCond w b then w.modBus b fun B => { B with idle := true } else w

/-- release of the executor at the normal end of a run-loop activation -/
def releaseRl (w : World) (b : BId) : World := rlIdleCheck (rlBack w b) b

/-- sticky observations of blocked `wait_until_idle` callers: `queue.join()` returns once the unfinished count
    has been 0 at some moment, `_on_idle.wait()` once the flag has been set at some moment -/
def wake (w : World) : World :=
  (List.range w.nx).foldl (fun w x =>
    match w.waiter x with
    | .join b z i =>
      let z' := z || (w.bus b).unfinished == 0
      let i' := i || (w.bus b).idle
      if z' != z || i' != i then w.setWaiter x (.join b z' i') else w
    | .idleWait b false => if (w.bus b).idle then w.setWaiter x (.idleWait b true) else w
    | _ => w) w

/-- stage 1 of `dispatch`: parent from the handler context (skipped when forwarding the handled event itself) -/
def dParent (w : World) (ctx : Option (EId × BId × HId)) (e : EId) : World :=
  match ctx with
  | some (ce, _, _) => if (w.ev e).parent.isNone && ce != e then w.modEv e fun E => { E with parent := some ce } else w
  | none => w

/-- stage 2: the bus is appended to the event's path unless already there -/
def dPath (w : World) (b : BId) (e : EId) : World :=
  if (w.ev e).path.contains b then w else w.modEv e fun E => { E with path := E.path ++ [b] }

/-- ghost: a forwarding instance has issued its dispatch -/
def dFwd (w : World) : Proc → World
  | .inst i => if (w.inst i).kind.isForward then w.modInst i fun I => { I with fwdDone := true } else w
  | _ => w

/-- stage 3 (accepted only): queue, history, unfinished-task counter -/
def dEnqueue (w : World) (b : BId) (e : EId) : World :=
  w.modBus b fun B =>
    { B with queue := B.queue ++ [e], enq := B.enq ++ [e],
             hist := if B.hist.contains e then B.hist else B.hist ++ [e],
             unfinished := B.unfinished + 1 }

/-- stage 4 (accepted only): the event becomes a child of the dispatching handler's result -/
def dChild (w : World) (ctx : Option (EId × BId × HId)) (e : EId) : World :=
  match ctx with
  | some (ce, cb, ck) =>
    if ce != e then w.modEv ce fun C => C.updRes cb ck fun r => { r with children := r.children ++ [e] } else w
  | none => w

def applyDispatch (w : World) (p : Proc) (b : BId) (e : EId) (res : DRes) : World :=
  let ctx := ctxOf w p
  let w1 := dFwd (dPath (dParent w ctx e) b e) p
  match res with
  | .ok => cleanup (dChild (dEnqueue w1 b e) ctx e) b
  | _ => w1

def Fin.status : Fin → Status
  | .completed => .completed
  | _ => .error

def Fin.err : Fin → ErrK
  | .completed => .none
  | .errHandler => .handler
  | .errValidation => .validation
  | .errTimeout => .timeout
  | .errCancelled => .cancelled

def applyFinish (w : World) (i : IId) (r : Fin) : World :=
  let I := w.inst i
  let w1 := w.modEv I.ev fun E => E.updRes I.bus I.hid fun x => { x with status := r.status, err := r.err }
  let w2 := w1.setInst i { I with st := .finished }
  let w3 := match w.act I.exec with
    | some A => w2.setAct I.exec (some { A with running := A.running.erase i })
    | none => w2
  let w4 := w3.setStack (w.stack.erase i)
  if r == .errTimeout then cancelPendingChildren w4 (w.ne + 1) I.ev else w4

/-- `execute_handler` up to its first suspension: the result is marked started, the handler instance (task) is created
    with its deadline, the activation moves the handler from `todo` to `running` -/
def applySched (w : World) (p : Proc) (i : IId) (b : BId) (e : EId) (k : HId) : World :=
  let kind := kindOf w b k
  let to := (w.ev e).timeout
  let w1 := w.modEv e fun E => E.updRes b k fun r => { r with status := .started }
  let w2 := w1.setInst i { bus := b, ev := e, hid := k, kind := kind, exec := p, st := .scheduled,
                           deadline := if to == 0 || kind.isSync then 0 else w.now + to }
  let w3 := match w.act p with
    | some A => w2.setAct p (some { A with todo := A.todo.tail, running := A.running ++ [i] })
    | none => w2
  (w3.setNi (w.ni + 1)).setStack (i :: w.stack)

/-- `process_event` entry, executor side: a run loop acquires the global lock, an awaiting handler hands over the event it took -/
def peEnter (w : World) (p : Proc) (b : BId) : World :=
  match p with
  | .rl _ => (w.modBus b fun B => { B with rl := .processing }).setLock (some b)
  | .inst i => w.modInst i fun I => { I with took := none }
  | .ext => w

/-- `process_event` entry, event side: pending results for the applicable handlers, the activation is opened;
    an event without applicable handlers is marked complete at once (`_execute_handlers`) -/
def peOpen (w : World) (p : Proc) (b : BId) (e : EId) : World :=
  let hs := applicable w b e
  let w := w.modEv e fun E => { E with results := E.results ++ hs.map fun k => { hid := k, bus := b } }
  let w := w.setAct p (some { bus := b, ev := e, todo := hs, running := [], sel := hs })
  if hs.isEmpty then markComplete w e else w

/-- normal end of `process_event` (without the executor's release): completion marking, parent walk, eviction,
    the activation is closed, `task_done()` -/
def peClose (w : World) (p : Proc) (b : BId) (e : EId) : World :=
  let w := markComplete w e
  let w := parentWalk w (w.ne + 1) e []
  let w := cleanup w b
  let w := w.setAct p none
  w.modBus b fun B => { B with unfinished := B.unfinished - 1 }

def apply0 (w : World) : Label → World
  | .newBus b par maxh wal => (w.setBus b { parallel := par, maxh := maxh, wal := wal }).setNb (w.nb + 1)
  | .on b key k kind => w.modBus b fun B =>
      { B with handlers := B.handlers ++ [{ key := key, hid := k, kind := kind }],
               everRegs := B.everRegs ++ [{ key := key, hid := k, kind := kind }] }
  | .off b key k => w.modBus b fun B => { B with handlers := B.handlers.eraseP fun r => r.key == key && r.hid == k }
  | .newEvent e ty parent to =>
    (w.setEv e { etype := ty, parent := parent, created := e, timeout := to }).setNe (w.ne + 1)
  | .tick t => w.setNow t
  | .rlCreate b => w.modBus b fun B => { B with created := true, running := true, rl := .polling }
  | .dispatch p b e res => applyDispatch w p b e res
  | .take p b e =>
    let w := w.modBus b fun B => { B with queue := B.queue.tail, taken := B.taken ++ [e] }
    match p with
    | .rl _ => w.modBus b fun B => { B with rl := .took e, woke := false }
    | .inst i => w.modInst i fun I => { I with took := some (b, e), iters := I.iters + 1 }
    | .ext => w
  | .peBegin p b e => peOpen (peEnter w p b) p b e
  | .peRecTrip p _ _ =>
    match p with
    | .rl b' => rlBack w b'
    | .inst i => w.modInst i fun I => { I with took := none, st := .running }
    | .ext => w
  | .hSched p i b e k => applySched w p i b e k
  | .hStart i => w.modInst i fun I => { I with st := .running }
  | .hCancel i => w.modInst i fun I => { I with cancelling := true, st := .running }
  | .hEnd i out =>
    let w' := w.modInst i fun I => { I with st := .ended, out := out }
    -- an expect() handler resolves its caller's future with the first matching event
    match (w.inst i).kind with
    | .expect x pred =>
      if expectOpen w x (w.inst i).hid && expectMatch pred (w.inst i).ev == some true then
        (match w.waiter x with
         | .expecting b key k d _ dead => w'.setWaiter x (.expecting b key k d (some (w.inst i).ev) dead)
         | _ => w')
      else w'
    | _ => w'
  | .hFinish i r => applyFinish w i r
  | .walWrite p b e ok =>
    let w := match w.act p with
      | some A => w.setAct p (some { A with walDone := true })
      | none => w
    if ok then w.modBus b fun B => { B with walLines := B.walLines ++ [e] } else w
  | .peEnd p b e =>
    match p with
    | .rl b' => releaseRl (peClose w p b e) b'
    | _ => peClose w p b e
  | .peAbort p _ _ =>
    let w := w.setAct p none
    match p with
    | .rl b' => (w.modBus b' fun B => { B with rl := .exited, running := false, cancelReq := false }).setLock none
    | _ => w
  | .awaitBegin i c => w.modInst i fun I => { I with st := .awaiting c, iters := 0, yields := 0 }
  | .pollYield i => w.modInst i fun I => { I with iters := I.iters + 1, yields := I.yields + 1 }
  | .awaitEnd i _ => w.modInst i fun I => { I with st := .running }
  | .xAwaitEnd _ => w
  | .readBus _ _ => w
  | .rlWake b => w.modBus b fun B => { B with idle := false, woke := true }
  | .rlPoll b => rlIdleCheck w b
  | .wiBegin x b => w.setWaiter x (.join b ((w.bus b).unfinished == 0) (w.bus b).idle)
  | .wiJoined x =>
    (match w.waiter x with | .join b _ i => w.setWaiter x (.idleWait b (i || (w.bus b).idle)) | _ => w)
  | .wiIdle x =>
    (match w.waiter x with | .idleWait b _ => w.setWaiter x (.check b) | _ => w)
  | .wiRecheck x =>
    (match w.waiter x with
     | .check b => (w.modBus b fun B => { B with idle := false }).setWaiter x (.idleWait b false)
     | _ => w)
  | .wiEnd x => w.setWaiter x .idle
  | .wiCancel x => w.setWaiter x .idle
  | .stopBegin x b clear =>
    (w.modBus b fun B => { B with running := false, shutdown := B.created }).setWaiter x
      (.stopping b (w.now + w.cfg.stopGrace) clear)
  | .stopNoop _ _ => w
  | .stopEnd x =>
    (match w.waiter x with
     | .stopping b _ clear =>
       let w := w.modBus b fun B =>
         { B with cancelReq := B.rl != .exited && B.rl != .none, idle := B.created || B.idle }
       let w := if clear then w.modBus b fun B => { B with hist := [], handlers := [], removed := true } else w
       w.setWaiter x .idle
     | _ => w)
  | .rlExit b =>
    -- the idle check is made only on the ordinary way out (`_get_next_event` returned None because the bus was stopped)
    let w := if !(w.bus b).running && !(w.bus b).cancelReq then rlIdleCheck w b else w
    w.modBus b fun B => { B with rl := .exited, running := false, cancelReq := false }
  | .cancelRl b => w.modBus b fun B => { B with cancelReq := true }
  | .rlCancelled b => w.modBus b fun B => { B with rl := .exited, running := false, cancelReq := false }
  | .rlDropExit b => (rlIdleCheck w b).modBus b fun B => { B with rl := .exited, running := false, cancelReq := false }
  | .expectBegin x b key k pred to =>
    (w.modBus b fun B => { B with handlers := B.handlers ++ [{ key := key, hid := k, kind := .expect x pred }],
                                  everRegs := B.everRegs ++ [{ key := key, hid := k, kind := .expect x pred }] }).setWaiter x
      (.expecting b key k (to.map (w.now + ·)) none false)
  | .expectEnd x _ | .expectCancel x =>
    (match w.waiter x with
     | .expecting b key k _ _ _ =>
       (w.modBus b fun B => { B with handlers := B.handlers.eraseP fun r => r.key == key && r.hid == k }).setWaiter x .idle
     | _ => w)
  | .hSkip p _ _ _ =>
    (match w.act p with
     | some A => w.setAct p (some { A with todo := A.todo.tail })
     | none => w)
  | .expectTimeout x | .expectCancelReq x =>
    (match w.waiter x with
     | .expecting b key k d none _ => w.setWaiter x (.expecting b key k d none true)
     | _ => w)

def apply (w : World) (l : Label) : World := wake (apply0 w l)

def guard (w : World) (l : Label) : Bool := (checks w l).ok

def step (w : World) (l : Label) : Option World := if guard w l then some (apply w l) else none

def run (w : World) : List Label → Option World
  | [] => some w
  | l :: ls => match step w l with
    | some w' => run w' ls
    | none => none

/-- reachable states: from the empty world by accepted labels -/
def Reachable (w : World) : Prop := ∃ ls, run {} ls = some w

end Bubus
