/-
  Bubus.Model.Retry — the retry loop of `@retry` (bubus/helpers.py: `_execute_with_retries`) and the semaphore
  bookkeeping of its wrapper (`retry.wrapper`, `_acquire_asyncio_semaphore`).

  `retryLoop` is a structural recursion over the list of per-attempt outcomes (what the wrapped function does on
  its k-th call); it returns how many calls are made, the exponents k of the waits `wait * backoff_factor ** k`
  slept between them, and how the decorated call ends.
-/
namespace Bubus.Retry

/-- what the wrapped coroutine does on one attempt -/
inductive Att
  | ok (v : Nat)          -- returns v
  | listed (x : Nat)      -- raises exception x, an instance of a type in `retry_on` (or `retry_on` is None)
  | unlisted (x : Nat)    -- raises exception x, not an instance of any type in `retry_on`
  | overrun               -- still running after `timeout` seconds: cut off, surfaces as TimeoutError
  | cancelled             -- the caller is cancelled during this attempt
  deriving DecidableEq, Repr, Inhabited

inductive Final
  | ret (v : Nat)
  | raised (x : Nat)      -- the exception object of that attempt propagates
  | timeout               -- the TimeoutError of an overrun attempt propagates
  | cancelled
  | exhausted             -- (never produced for well-formed inputs: the outcome list was too short)
  deriving DecidableEq, Repr, Inhabited

structure Out where
  calls : Nat             -- number of times the wrapped function was called
  waits : List Nat        -- exponents k of the sleeps `wait * backoff_factor ** k`, in order
  final : Final
  deriving DecidableEq, Repr, Inhabited

/-- `timeoutListed`: is `TimeoutError` retried (retry_on is None, or contains TimeoutError / a base class of it) -/
def retryLoop (retries : Nat) (timeoutListed : Bool) : Nat → List Att → Out
  | _, [] => { calls := 0, waits := [], final := .exhausted }
  | attempt, a :: rest =>
    let again (fin : Final) : Out :=
      if attempt < retries then
        let r := retryLoop retries timeoutListed (attempt + 1) rest
        { calls := r.calls + 1, waits := attempt :: r.waits, final := r.final }
      else { calls := 1, waits := [], final := fin }
    match a with
    | .ok v => { calls := 1, waits := [], final := .ret v }
    | .unlisted x => { calls := 1, waits := [], final := .raised x }
    | .cancelled => { calls := 1, waits := [], final := .cancelled }
    | .listed x => again (.raised x)
    | .overrun => if timeoutListed then again .timeout else { calls := 1, waits := [], final := .timeout }

def run (retries : Nat) (timeoutListed : Bool) (atts : List Att) : Out := retryLoop retries timeoutListed 0 atts

/-! ### semaphore bookkeeping of the wrapper: one scope key, limit L -/

inductive Phase
  | waiting               -- inside `_acquire_asyncio_semaphore`
  | holding               -- acquired a slot, body may run
  | laxEntered            -- acquisition timed out with semaphore_lax=True: runs without a slot
  | done
  deriving DecidableEq, Repr, Inhabited

structure Sem where
  limit : Nat
  value : Nat                       -- asyncio.Semaphore._value as observed through acquire/release
  phase : Nat → Phase := fun _ => .done
  lax : Nat → Bool := fun _ => true
  inBody : List Nat := []           -- callers currently inside the wrapped function
  ncallers : Nat := 0

inductive SLabel
  | call (c : Nat) (lax : Bool)     -- wrapper entered, starts acquiring
  | acquired (c : Nat)              -- `semaphore.acquire()` returned
  | acqTimeout (c : Nat)            -- acquisition timed out
  | cancelWaiting (c : Nat)         -- caller cancelled while waiting for a slot
  | bodyStart (c : Nat) | bodyEnd (c : Nat)
  | finish (c : Nat) (released : Bool)   -- wrapper's `finally`: releases iff it acquired
  deriving Repr, Inhabited

def Sem.setPhase (s : Sem) (c : Nat) (p : Phase) : Sem := { s with phase := fun c' => if c' = c then p else s.phase c' }

def sguard (s : Sem) : SLabel → Bool
  | .call c _ => s.phase c == .done && !s.inBody.contains c
  | .acquired c => s.phase c == .waiting && s.value > 0
  | .acqTimeout c => s.phase c == .waiting
  | .cancelWaiting c => s.phase c == .waiting
  | .bodyStart c => (s.phase c == .holding || s.phase c == .laxEntered) && !s.inBody.contains c
  | .bodyEnd c => s.inBody.contains c
  | .finish c released =>
    !s.inBody.contains c && (s.phase c == .holding || s.phase c == .laxEntered) && released == (s.phase c == .holding)

def sapply (s : Sem) : SLabel → Sem
  | .call c lax => { (s.setPhase c .waiting) with lax := (fun c' => if c' = c then lax else s.lax c'), ncallers := max s.ncallers (c + 1) }
  | .acquired c => { (s.setPhase c .holding) with value := s.value - 1 }
  | .acqTimeout c => if s.lax c then s.setPhase c .laxEntered else s.setPhase c .done
  | .cancelWaiting c => s.setPhase c .done
  | .bodyStart c => { s with inBody := s.inBody ++ [c] }
  | .bodyEnd c => { s with inBody := s.inBody.erase c }
  | .finish c released => { (s.setPhase c .done) with value := if released then s.value + 1 else s.value }

def sstep (s : Sem) (l : SLabel) : Option Sem := if sguard s l then some (sapply s l) else none

def holders (s : Sem) : List Nat := (List.range s.ncallers).filter fun c => s.phase c == .holding
def laxEntrants (s : Sem) : List Nat := (List.range s.ncallers).filter fun c => s.phase c == .laxEntered

/-- `_get_semaphore_key`: scope → key (class and instance identities abstracted to numbers) -/
inductive Scope | global | cls | self | multiprocess
  deriving DecidableEq, Repr, Inhabited

/-- key = (scope tag, owner, name): `owner` is the class id for `class`, the instance id for `self`, 0 otherwise;
    without a first argument class/self fall back to the global key -/
def semKey (scope : Scope) (name : Nat) (hasArgs : Bool) (clsId instId : Nat) : Nat × Nat × Nat :=
  match scope with
  | .global | .multiprocess => (0, 0, name)
  | .cls => if hasArgs then (1, clsId, name) else (0, 0, name)
  | .self => if hasArgs then (2, instId, name) else (0, 0, name)

end Bubus.Retry
