/-
  Bubus.Proofs.Enabled — the "does return / is never blocked" halves, as far as they are statements about single states:
  in which states the returning transition of a blocking call is enabled (the model never withholds it); that such a
  state is reached is liveness, established on real runs at quiescence (DESIGN §2.6).
-/
import Bubus.Proofs.Guards2
namespace Bubus.Thm
open Bubus

/-- **C04 (no deadlock against the own bus)**: a handler suspended in `await child` with nothing in hand can take the head
    of *any* bus's queue — its own bus's included — whoever holds the global lock: the await does not depend on the run
    loop that is running the handler. -/
theorem C04_awaiting_handler_can_take_any_queue_head (w : World) (i : IId) (c : EId) (b : BId) (e : EId)
    (hb : b < w.nb) (hq : (w.bus b).queue.head? = some e) (hst : (w.inst i).st = .awaiting c)
    (hact : w.act (.inst i) = none) (htk : (w.inst i).took = none) (hsig : (w.ev c).signal = false) :
    guard w (.take (.inst i) b e) = true := by
  simp [guard, checks, Checks.ok, hb, hq, hst, hact, htk, hsig, isAwaiting, awaitedOf]

/-- **C04**: … and having taken it, processing it inline is enabled at once (or the recursion guard trips — finding F2);
    neither needs the lock. -/
theorem C04_inline_processing_of_a_taken_event_is_enabled (w : World) (i : IId) (b : BId) (e : EId)
    (hact : w.act (.inst i) = none) (htk : (w.inst i).took = some (b, e)) :
    guard w (.peBegin (.inst i) b e) = true ∨ guard w (.peRecTrip (.inst i) b e) = true := by
  cases hr : recursionTrips w b e
  · left; simp [guard, checks, Checks.ok, hact, htk, hr]
  · right; simp [guard, checks, Checks.ok, hact, htk, hr]

/-- **C04**: the await itself returns as soon as the child is signalled (nothing in hand). -/
theorem C04_await_return_is_enabled_once_the_child_is_signalled (w : World) (i : IId) (c : EId)
    (hi : i < w.ni) (hst : (w.inst i).st = .awaiting c) (hact : w.act (.inst i) = none) (htk : (w.inst i).took = none)
    (hsig : (w.ev c).signal = true) : guard w (.awaitEnd i c) = true := by
  simp [guard, checks, Checks.ok, hi, hst, hact, htk, hsig]

/-- **C15 (return side)**: a `wait_until_idle()` that has reached its final test returns as soon as the bus's idle flag
    is set and its history holds no pending or started event; otherwise it re-waits (it is never stuck in the test). -/
theorem C15_final_test_either_returns_or_rewaits (w : World) (x : Nat) (b : BId) (hw : w.waiter x = .check b) :
    (guard w (.wiEnd x) = true ∧ (w.bus b).idle = true ∧ histAllComplete w b = true) ∨ guard w (.wiRecheck x) = true := by
  cases h : (w.bus b).idle && histAllComplete w b
  · right; simp [guard, checks, Checks.ok, hw, h]
  · left
    simp only [Bool.and_eq_true] at h
    exact ⟨by simp [guard, checks, Checks.ok, hw, h.1, h.2], h.1, h.2⟩

/-- **C16 (bounded return)**: `stop()` is enabled to return from the moment its run loop has finished or its grace period
    is over — and time cannot pass that moment without it returning (`C16_time_never_passes_the_stop_deadline`). -/
theorem C16_stop_return_is_enabled_at_the_deadline (w : World) (x : Nat) (b : BId) (d : Nat) (clear : Bool)
    (hw : w.waiter x = .stopping b d clear) (hd : d ≤ w.now) : guard w (.stopEnd x) = true := by
  simp [guard, checks, Checks.ok, hw, hd]

/-- **C18 (timeout)**: an `expect()` without a match is enabled to raise `TimeoutError` from its deadline on, and time
    cannot pass the deadline of an unresolved, not yet cancelled call (guard of `tick`). -/
theorem C18_timeout_is_enabled_at_the_deadline (w : World) (x : Nat) (b : BId) (key : Key) (k : HId) (d : Nat)
    (g : Option EId) (dead : Bool) (hw : w.waiter x = .expecting b key k (some d) g dead) (hd : d ≤ w.now) :
    guard w (.expectEnd x none) = true := by
  simp [guard, checks, Checks.ok, hw, hd]

end Bubus.Thm

namespace Bubus.Thm
open Bubus

/-- **C03 / C04 (what a return means)**: the completion check sets an event's completion signal only when the whole tree is
    done at that moment — every handler result of the event terminal and every event dispatched by its handlers,
    transitively and on any bus, complete. (Awaits return on that signal: `C03_external_await_needs_signal`,
    `C04_await_returns_signalled_or_gave_up`.) -/
theorem C03_completion_is_signalled_only_for_a_finished_tree (w : World) (e : EId)
    (h0 : (w.ev e).signal = false) (h1 : ((markComplete w e).ev e).signal = true) : treeDone w e = true := by
  unfold markComplete at h1
  simp only [h0] at h1
  unfold treeDone
  by_cases hemp : (w.ev e).results.isEmpty = true
  · have hnil : (w.ev e).results = [] := by simpa using hemp
    simp [Ev.allTerminal, hnil]
    have hch : (w.ev e).children = [] := by simp [Ev.children, hnil]
    unfold allChildrenComplete
    rw [hch]
    unfold allDoneFrom
    simp [hch]
    cases walkBudget w <;> simp [allDoneFrom]
  · simp only [hemp] at h1
    by_cases ht : (w.ev e).allTerminal = true
    · by_cases hc : allChildrenComplete w (w.ne + 1) e = true
      · simp [ht, hc]
      · simp [ht, hc, h0] at h1
    · simp [ht, h0] at h1

end Bubus.Thm

namespace Bubus.Thm
open Bubus

/-- **C16**: when `stop()` returns, the bus's run loop has finished, or never existed, or its cancellation has been
    requested — and a run loop whose cancellation is requested begins no activation and schedules no handler
    (`C16_cancelled_run_loop_begins_no_activation`, `C16_cancelled_run_loop_schedules_no_handler`): after `stop()`
    the bus's own run loop starts no handler. -/
theorem C16_stop_leaves_the_run_loop_finished_or_cancelled (w w' : World) (x : Nat)
    (hs : step w (.stopEnd x) = some w') :
    ∃ b d c, w.waiter x = .stopping b d c ∧
      ((w'.bus b).rl = .exited ∨ (w'.bus b).rl = .none ∨ (w'.bus b).cancelReq = true) := by
  obtain ⟨hg, rfl⟩ := step_some hs
  simp [guard, checks, Checks.ok] at hg
  cases hw : w.waiter x <;> simp [hw] at hg
  rename_i b d c
  refine ⟨b, d, c, rfl, ?_⟩
  have hrl : ((apply w (.stopEnd x)).bus b).rl = (w.bus b).rl := by
    simp only [apply, apply0, hw, wake_bus]
    cases c <;> simp
  have hcr : ((apply w (.stopEnd x)).bus b).cancelReq = ((w.bus b).rl != .exited && (w.bus b).rl != .none) := by
    simp only [apply, apply0, hw, wake_bus]
    cases c <;> simp
  rw [hrl, hcr]
  cases h : (w.bus b).rl <;> simp

end Bubus.Thm

namespace Bubus.Thm
open Bubus

/-- **C01 (delivery, local form)**: when a bus begins processing an event, every handler registered on it whose pattern
    matches the event's type (its name / class, or the wildcard) and which has no result on that event yet — and, for a
    forwarding handler, whose target bus is not on the event's path yet — is selected for the activation. -/
theorem C01_every_matching_handler_without_a_result_is_selected (w : World) (b : BId) (e : EId) (r : Reg)
    (hr : r ∈ (w.bus b).handlers) (hkey : r.key = (w.ev e).etype ∨ r.key = 0)
    (hno : (w.ev e).hasRes b r.hid = false)
    (hfw : ∀ t, r.kind = .forward t → (w.ev e).path.contains t = false) :
    r.hid ∈ applicable w b e := by
  unfold applicable
  simp only [List.mem_eraseDups, List.mem_map, List.mem_filter]
  refine ⟨r, ⟨?_, ?_⟩, rfl⟩
  · unfold matching
    simp only [List.mem_append, List.mem_filter]
    rcases hkey with h | h
    · left; exact ⟨hr, by simp [h]⟩
    · right; exact ⟨hr, by simp [h]⟩
  · unfold passesLoopFilter
    simp only [hno, Bool.not_false, Bool.and_true]
    cases hk : r.kind <;> simp
    rename_i t
    simpa using hfw t hk

/-- **C01**: … and beginning the activation creates a (pending) result for each selected handler and puts exactly these
    handlers on the activation's to-do list (which `C01_activation_ends_only_when_every_selected_handler_finished` requires
    to be worked off before the activation ends) and in its ghost list `sel` of selected handlers, which never changes
    afterwards and which the no-skip invariant (`Proofs/NoSkip.lean`) speaks about. -/
theorem C01_begin_lists_exactly_the_selected_handlers (w : World) (p : Proc) (b : BId) (e : EId) :
    let w1 := peEnter w p b
    ∃ A, (apply w (.peBegin p b e)).act p = some A ∧ A.todo = applicable w1 b e ∧ A.sel = applicable w1 b e ∧
      A.bus = b ∧ A.ev = e ∧ A.running = [] := by
  intro w1
  have hm : ∀ (w : World) (x : EId), (markComplete w x).act = w.act := by
    intro w x; unfold markComplete; simp only []; repeat' split
    all_goals simp
  refine ⟨{ bus := b, ev := e, todo := applicable w1 b e, running := [], sel := applicable w1 b e }, ?_, rfl, rfl, rfl, rfl, rfl⟩
  simp only [apply, apply0, wake_act, peOpen]
  split <;> simp [hm, w1]

end Bubus.Thm
