/-
  Bubus.Proofs.Results2 — C12: the remaining accessors as pure views of the recorded results in handler order
  (`event_result`, `event_results_by_handler_id`, `event_results_flat_list`, `event_results_flat_dict`) and the
  flags `raise_if_any` / `raise_if_none` / `raise_if_conflicts` honoured exactly — for all result lists and all
  include filters.
-/
import Bubus.Model.Results
namespace Bubus.Thm
open Bubus Bubus.Results

theorem filtered_ok_eq (rs : List Res) (incl : Res → Bool) (ra rn : Bool) (l : List Res)
    (h : filtered rs incl ra rn = .ok l) : l = rs.filter incl := by
  unfold filtered at h
  simp only [] at h
  split at h
  · cases h
  · split at h
    · cases h
    · injection h with h; exact h.symm

/-- C12: `event_result` is the value of the first included result in handler order (None when nothing is included). -/
theorem C12_first_result_is_the_first_included (rs : List Res) (incl : Res → Bool) (ra rn : Bool) (v : Val)
    (h : firstResult rs incl ra rn = .ok v) :
    v = match rs.filter incl with | r :: _ => r.value | [] => .none := by
  unfold firstResult at h
  cases hf : filtered rs incl ra rn with
  | error e => simp [hf, Except.map] at h
  | ok l =>
    simp only [hf, Except.map] at h
    injection h with h
    have hl := filtered_ok_eq rs incl ra rn l hf
    subst hl
    exact h.symm

/-- C12: `event_results_by_handler_id` lists exactly the included results, keyed by handler id, in handler order. -/
theorem C12_by_handler_id_is_the_included_results_in_order (rs : List Res) (incl : Res → Bool) (ra rn : Bool)
    (l : List (Nat × Val)) (h : byHandlerId rs incl ra rn = .ok l) :
    l = (rs.filter incl).map fun r => (r.hid, r.value) := by
  unfold byHandlerId at h
  cases hf : filtered rs incl ra rn with
  | error e => simp [hf, Except.map] at h
  | ok l' =>
    simp only [hf, Except.map] at h
    injection h with h
    rw [← h, filtered_ok_eq rs incl ra rn l' hf]

def listOf (r : Res) : List Int := match r.value with | .list xs => xs | _ => []

theorem flatMap_listOf_filter (rs : List Res) (incl : Res → Bool) :
    (rs.filter (fun r => r.value.isList && incl r)).flatMap listOf = (rs.filter incl).flatMap listOf := by
  induction rs with
  | nil => rfl
  | cons r rs ih =>
    simp only [List.filter_cons]
    cases hi : incl r <;> cases hl : r.value.isList <;>
      simp only [Bool.and_true, Bool.and_false, if_true, if_false, Bool.false_eq_true, List.flatMap_cons, ih]
    -- included but not a list: contributes nothing
    have : listOf r = [] := by
      unfold listOf
      cases hv : r.value <;> simp_all [Val.isList]
    simp [this]

/-- C12: `event_results_flat_list` is the concatenation, in handler order, of the list values among the included
    results: nothing invented, dropped or reordered. -/
theorem C12_flat_list_concatenates_in_handler_order (rs : List Res) (incl : Res → Bool) (ra rn : Bool) (l : List Int)
    (h : flatList rs incl ra rn = .ok l) : l = (rs.filter incl).flatMap listOf := by
  unfold flatList at h
  cases hf : filtered rs (fun r => r.value.isList && incl r) ra rn with
  | error e => simp [hf, Except.map] at h
  | ok l' =>
    simp only [hf, Except.map] at h
    injection h with h
    rw [← h, filtered_ok_eq rs _ ra rn l' hf]
    exact flatMap_listOf_filter rs incl

/-- C12: `raise_if_none` is honoured exactly: (errors aside) the accessor raises ValueError if and only if the
    selection is empty. -/
theorem C12_raise_if_none_raises_exactly_on_an_empty_selection (rs : List Res) (incl : Res → Bool) :
    filtered rs incl false true = .error .valueError ↔ rs.filter incl = [] := by
  unfold filtered
  simp only [Bool.false_eq_true, if_false, Bool.true_and]
  cases h : (rs.filter incl) <;> simp

/-- C12: without `raise_if_none` an empty selection is returned as such, not raised. -/
theorem C12_no_raise_if_none_returns_the_empty_selection (rs : List Res) (incl : Res → Bool) :
    filtered rs incl false false = .ok (rs.filter incl) := by
  unfold filtered
  simp

/-- C12: `raise_if_any` is honoured exactly: when no result is an error it changes nothing. -/
theorem C12_raise_if_any_without_errors_changes_nothing (rs : List Res) (incl : Res → Bool) (rn : Bool)
    (hne : rs.filter isErrorResult = []) : filtered rs incl true rn = filtered rs incl false rn := by
  unfold filtered
  simp [hne]

/-- C12: with `raise_if_any` an accessor raises whenever some result is an error (whatever `include` selects). -/
theorem C12_raise_if_any_raises_whenever_an_error_is_recorded (rs : List Res) (incl : Res → Bool) (rn : Bool)
    (r : Res) (hr : r ∈ rs) (he : isErrorResult r = true) : ∃ x, filtered rs incl true rn = .error x := by
  unfold filtered
  have hmem : r ∈ rs.filter isErrorResult := List.mem_filter.mpr ⟨hr, he⟩
  cases hh : (rs.filter isErrorResult) with
  | nil => rw [hh] at hmem; cases hmem
  | cons e es => simp

theorem flatDict_fold_ok (l : List Res) (m : List (String × Int)) :
    ∃ m', l.foldl (fun (acc : Except Err (List (String × Int))) r =>
      match acc, r.value with
      | .error e, _ => .error e
      | .ok m, .dict kvs =>
        if kvs.isEmpty then .ok m
        else if false && kvs.any (fun (k, _) => m.any (·.1 == k)) then .error .conflict
        else .ok (mergeDict m kvs)
      | .ok m, _ => .ok m) (.ok m) = .ok m' := by
  induction l generalizing m with
  | nil => exact ⟨m, rfl⟩
  | cons r l ih =>
    simp only [List.foldl_cons]
    cases hv : r.value with
    | dict kvs =>
      simp only [Bool.false_and, Bool.false_eq_true, if_false]
      by_cases hk : kvs.isEmpty = true
      · simp only [hk, if_true]; exact ih m
      · simp only [hk, if_false]; exact ih _
    | none => exact ih m
    | int n => exact ih m
    | str s => exact ih m
    | list xs => exact ih m
    | event id => exact ih m
    | exc id => exact ih m

/-- C12: `raise_if_conflicts=False` is honoured: `event_results_flat_dict` then raises only what the selection
    itself raises (an error under `raise_if_any`, an empty selection under `raise_if_none`) — never a conflict of
    its own; later values overwrite earlier ones instead. -/
theorem C12_flat_dict_without_raise_if_conflicts_raises_only_what_the_selection_raises
    (rs : List Res) (incl : Res → Bool) (ra rn : Bool) (e : Err)
    (h : flatDict rs incl ra rn false = .error e) :
    filtered rs (fun r => r.value.isDict && incl r) ra rn = .error e := by
  unfold flatDict at h
  cases hf : filtered rs (fun r => r.value.isDict && incl r) ra rn with
  | error e' => simp only [hf] at h; injection h with h; rw [h]
  | ok l =>
    simp only [hf] at h
    obtain ⟨m', hm⟩ := flatDict_fold_ok l []
    have hc : Except.error e = Except.ok m' := h.symm.trans hm
    cases hc

/-- C12: the default `include` selects exactly the completed results that carry a real value: not an error, not None,
    not a forwarded event — and nothing else is left out; in particular falsy values (0, "", [], {}) are included. -/
theorem C12_default_include_is_completed_with_a_real_value (r : Res) :
    defaultInclude r = true ↔
      (r.status = .completed ∧ r.value ≠ .none ∧ r.value.isExc = false ∧ r.err = none ∧ r.value.isEvent = false) := by
  unfold defaultInclude
  cases hv : r.value <;> cases he : r.err <;> cases hs : r.status <;> simp [Val.isNone, Val.isExc, Val.isEvent]

theorem C12_default_include_keeps_falsy_values (h n : Nat) :
    defaultInclude { hid := h, name := n, status := .completed, value := .int 0 } = true ∧
    defaultInclude { hid := h, name := n, status := .completed, value := .str "" } = true ∧
    defaultInclude { hid := h, name := n, status := .completed, value := .list [] } = true ∧
    defaultInclude { hid := h, name := n, status := .completed, value := .dict [] } = true := by
  simp [defaultInclude, Val.isNone, Val.isExc, Val.isEvent]

/-- C12 (and the clause of C11 about returned exception objects): an exception object *returned* by a handler is captured as that handler's error result (with that very
    object as the error), whatever the declared type and whatever pydantic would say about it. -/
theorem C12_a_returned_exception_object_is_an_error_result (r : Res) (typed : Bool) (id : Nat) (vd : Option Val) :
    recordReturn r typed (.exc id) vd = { r with status := .error, err := some (.handler id), value := .none } := by
  simp [recordReturn]

/-- C12: `None` and a forwarded event are accepted under every declared type, unvalidated and unchanged. -/
theorem C12_none_and_forwarded_events_are_always_accepted (r : Res) (typed : Bool) (vd : Option Val) (e : Nat) :
    (recordReturn r typed .none vd).status = .completed ∧ (recordReturn r typed .none vd).value = .none ∧
    (recordReturn r typed (.event e) vd).status = .completed ∧ (recordReturn r typed (.event e) vd).value = .event e := by
  cases typed <;> simp [recordReturn, Val.isNone, Val.isEvent]

/-- C12: recording a return value touches nothing but status, value and error of that one result. -/
theorem C12_recording_keeps_handler_identity (r : Res) (typed : Bool) (ret : Val) (vd : Option Val) :
    (recordReturn r typed ret vd).hid = r.hid ∧ (recordReturn r typed ret vd).name = r.name := by
  cases ret <;> cases typed <;> cases vd <;> simp [recordReturn, Val.isNone, Val.isEvent]

/-- non-vacuity: three results, the second an error; default include -/
example : firstResult [{ hid := 1, name := 1, status := .completed, value := .int 4 },
      { hid := 2, name := 2, status := .error, err := some (.handler 2) },
      { hid := 3, name := 3, status := .completed, value := .int 6 }] defaultInclude false true = .ok (.int 4) := by
  rfl

example : flatList [{ hid := 1, name := 1, status := .completed, value := .list [1, 2] },
      { hid := 2, name := 2, status := .completed, value := .int 9 },
      { hid := 3, name := 3, status := .completed, value := .list [3] }] defaultInclude false true = .ok [1, 2, 3] := by
  rfl

end Bubus.Thm
