/-
  Bubus.Proofs.Guards — property theorems that are consequences of the guard of a single label:
  what must be true of the state whenever the library performs that action.
-/
import Bubus.Proofs.Easy
namespace Bubus.Thm
open Bubus

/-- C03: an `await event` from ordinary code returns only once the event's completion signal is set. -/
theorem C03_external_await_needs_signal (w w' : World) (e : EId)
    (h : step w (.xAwaitEnd e) = some w') : (w.ev e).signal = true := by
  obtain ⟨hg, _⟩ := step_some h
  simp [guard, checks, Checks.ok] at hg
  exact hg.2

/-- C04: an in-handler `await child` returns only when the child is signalled complete or the polling loop ran out
    (`maxPoll` iterations — the silent give-up of finding F1). -/
theorem C04_await_returns_signalled_or_gave_up (w w' : World) (i : IId) (c : EId)
    (h : step w (.awaitEnd i c) = some w') :
    (w.ev c).signal = true ∨ w.cfg.maxPoll ≤ (w.inst i).iters := by
  obtain ⟨hg, _⟩ := step_some h
  simp [guard, checks, Checks.ok] at hg
  exact hg.2.2.2

/-- C05: inline processing (an awaiting handler taking an event off a queue) happens only while the awaited event is
    not yet signalled complete, and always takes the head of the queue (whatever event that is — finding F0). -/
theorem C05_inline_take_only_while_incomplete (w w' : World) (i : IId) (b : BId) (e : EId)
    (h : step w (.take (.inst i) b e) = some w') :
    ∃ c, (w.inst i).st = .awaiting c ∧ (w.ev c).signal = false ∧ (w.bus b).queue.head? = some e := by
  obtain ⟨hg, _⟩ := step_some h
  simp [guard, checks, Checks.ok] at hg
  obtain ⟨_, hq, hrest⟩ := hg
  cases hs : (w.inst i).st <;> simp [isAwaiting, awaitedOf, hs] at hrest
  exact ⟨_, rfl, hrest.2, hq⟩

/-- C06: a run loop begins processing only when the global lock is free, and holds it afterwards. -/
theorem C06_runloop_begins_under_free_lock (w w' : World) (b : BId) (e : EId)
    (h : step w (.peBegin (.rl b) b e) = some w') : w.lock = none ∧ w'.lock = some b := by
  obtain ⟨hg, rfl⟩ := step_some h
  simp [guard, checks, Checks.ok] at hg
  obtain ⟨_, ⟨⟨_, hl⟩, _⟩, _⟩ := hg
  refine ⟨hl, ?_⟩
  show (wake (peOpen (peEnter w (.rl b) b) (.rl b) b e)).lock = some b
  rw [wake_lock]
  have hm : ∀ (w : World) (x : EId), (markComplete w x).lock = w.lock := by
    intro w x; unfold markComplete; simp only []; repeat' split
    all_goals simp
  unfold peOpen
  simp only []
  split <;> simp [hm, peEnter]

/-- C06: a handler is scheduled by a run loop only while that run loop holds the global lock. -/
theorem C06_runloop_schedules_under_lock (w w' : World) (b' : BId) (i : IId) (b : BId) (e : EId) (k : HId)
    (h : step w (.hSched (.rl b') i b e k) = some w') : w.lock = some b' := by
  obtain ⟨hg, _⟩ := step_some h
  simp [guard, checks, Checks.ok, execActive] at hg
  exact hg.2.2.2.1.1

/-- C10: virtual time never passes the deadline of a handler that is still scheduled, running or awaiting and whose task
    has not been cancelled yet (nor is a handler running inside its inline activation being cancelled in its stead):
    the handler is cancelled at its deadline, not later (what it does in its own cleanup afterwards is its business). -/
theorem C10_time_never_passes_a_live_deadline (w w' : World) (t : Nat) (i : IId)
    (h : step w (.tick t) = some w') (hi : i < w.ni) (hd : (w.inst i).deadline ≠ 0)
    (hlive : (w.inst i).st ≠ .finished ∧ (w.inst i).st ≠ .ended) (hnc : (w.inst i).cancelling = false)
    (hnp : cancelInProgress w i = false) :
    t ≤ (w.inst i).deadline := by
  obtain ⟨hg, _⟩ := step_some h
  simp [guard, checks, Checks.ok, noDeadlineBefore] at hg
  have := hg.2.1 i hi
  simp [hd, hlive.1, hlive.2, hnc, hnp] at this
  exact this

/-- C15: `wait_until_idle()` returns only when the idle flag is set and the bus's history holds no pending or
    started event. -/
theorem C15_wait_until_idle_returns_only_idle (w w' : World) (x : Nat)
    (h : step w (.wiEnd x) = some w') :
    ∃ b, w.waiter x = .check b ∧ (w.bus b).idle = true ∧ histAllComplete w b = true := by
  obtain ⟨hg, _⟩ := step_some h
  simp [guard, checks, Checks.ok] at hg
  cases hw : w.waiter x <;> simp [hw] at hg
  exact ⟨_, rfl, hg.1, hg.2⟩

/-- C16: `stop()` returns only when the run loop has finished or the 0.1 s grace period is over … -/
theorem C16_stop_returns_when_loop_done_or_grace_over (w w' : World) (x : Nat)
    (h : step w (.stopEnd x) = some w') :
    ∃ b d c, w.waiter x = .stopping b d c ∧ ((w.bus b).rl = .exited ∨ (w.bus b).rl = .none ∨ d ≤ w.now) := by
  obtain ⟨hg, _⟩ := step_some h
  simp [guard, checks, Checks.ok] at hg
  cases hw : w.waiter x <;> simp [hw] at hg
  refine ⟨_, _, _, rfl, ?_⟩
  rcases hg with (h1 | h1) | h1
  · exact Or.inl h1
  · exact Or.inr (Or.inl h1)
  · exact Or.inr (Or.inr h1)

/-- … C16: and time cannot pass that grace deadline while `stop()` is still blocked: `stop()` is bounded. -/
theorem C16_time_never_passes_the_stop_deadline (w w' : World) (t x : Nat) (b : BId) (d : Nat) (c : Bool)
    (h : step w (.tick t) = some w') (hx : x < w.nx) (hw : w.waiter x = .stopping b d c) : t ≤ d := by
  obtain ⟨hg, _⟩ := step_some h
  simp [guard, checks, Checks.ok, noWaiterDeadlineBefore] at hg
  have := hg.2.2 x hx
  simpa [hw] using this

/-- C18: `expect()` returns exactly the event its temporary handler resolved the future with, or times out at its
    deadline without one. -/
theorem C18_expect_returns_what_its_handler_matched (w w' : World) (x : Nat) (got : Option EId)
    (h : step w (.expectEnd x got) = some w') :
    ∃ b key k d g dead, w.waiter x = .expecting b key k d g dead ∧ (got.isSome → g = got) ∧ (got.isSome ∨ ∃ t, d = some t ∧ t ≤ w.now) := by
  obtain ⟨hg, _⟩ := step_some h
  simp [guard, checks, Checks.ok] at hg
  cases hw : w.waiter x <;> simp [hw] at hg
  rename_i b key k d g dead
  refine ⟨b, key, k, d, g, dead, rfl, ?_, ?_⟩
  · intro hs
    cases got with
    | none => simp at hs
    | some e => simpa using hg
  · cases got with
    | some e => exact Or.inl rfl
    | none =>
      cases d with
      | none => simp at hg
      | some t => exact Or.inr ⟨t, rfl, by simpa using hg⟩

end Bubus.Thm
