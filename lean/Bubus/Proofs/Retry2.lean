/-
  Bubus.Proofs.Retry2 — the remaining clauses of C19 stated outright for outcome lists of any length, and the
  scope-key clauses of C20 ("different scopes do not block each other").

  C19: after any number k ≤ retries of failed attempts that are retried (listed exceptions, cut-offs when
  TimeoutError is retried) the (k+1)-th attempt decides the call when it is a success, an unlisted exception, a
  cancellation, a cut-off that is not retried — or simply the last permitted attempt, whatever it does: then "the last
  exception propagates".  In each case exactly k+1 calls were made and the waits had exponents 0 … k-1.
-/
import Bubus.Model.Retry
import Bubus.Proofs.Siblings
namespace Bubus.Thm
open Bubus Bubus.Retry

/-- an attempt after which the loop goes round again (while attempts remain) -/
def retried (tl : Bool) : Att → Bool
  | .listed _ => true
  | .overrun => tl
  | _ => false

/-- how the decorated call ends when attempt `a` is the one that decides it -/
def finalOf : Att → Final
  | .ok v => .ret v
  | .listed x => .raised x
  | .unlisted x => .raised x
  | .overrun => .timeout
  | .cancelled => .cancelled

theorem retryLoop_decided (retries : Nat) (tl : Bool) (pre : List Att) (a : Att) (rest : List Att) (attempt : Nat)
    (hpre : ∀ x ∈ pre, retried tl x = true) (hk : attempt + pre.length ≤ retries)
    (hd : retried tl a = false ∨ attempt + pre.length = retries) :
    retryLoop retries tl attempt (pre ++ a :: rest) =
      { calls := pre.length + 1, waits := (List.range pre.length).map (· + attempt), final := finalOf a } := by
  induction pre generalizing attempt with
  | nil =>
    simp only [List.nil_append, List.length_nil, Nat.add_zero, Nat.zero_add, List.range_zero, List.map_nil] at *
    unfold retryLoop
    cases a <;> simp only [finalOf]
    · rcases hd with hd | hd
      · simp [retried] at hd
      · simp [hd]
    · cases tl
      · simp
      · rcases hd with hd | hd
        · simp [retried] at hd
        · simp [hd]
  | cons p pre ih =>
    have hp : retried tl p = true := hpre p (by simp)
    have hpre' : ∀ x ∈ pre, retried tl x = true := fun x hx => hpre x (by simp [hx])
    simp only [List.length_cons] at hk hd
    have hlt : attempt < retries := by omega
    have ih' := ih (attempt + 1) hpre' (by omega) (by rcases hd with hd | hd; exact .inl hd; exact .inr (by omega))
    have hr : List.map (fun x => x + attempt) (List.range (pre.length + 1)) =
        attempt :: List.map (fun x => x + (attempt + 1)) (List.range pre.length) := by
      rw [List.range_succ_eq_map]
      simp only [List.map_cons, List.map_map, Nat.zero_add, List.cons.injEq, true_and]
      apply List.map_congr_left
      intro x _
      simp only [Function.comp]
      omega
    simp only [List.cons_append, List.length_cons]
    unfold retryLoop
    cases p with
    | ok v => simp [retried] at hp
    | unlisted x => simp [retried] at hp
    | cancelled => simp [retried] at hp
    | listed x => simp only [hlt, if_true, ih', hr]
    | overrun =>
      simp only [retried] at hp
      subst hp
      simp only [hlt, if_true, ih', hr]

/-- C19: k ≤ retries retried failures followed by a success: the value is returned at once, after exactly k+1 calls
    and waits with exponents 0 … k-1; nothing after the success is attempted. -/
theorem C19_success_after_k_failures_returns_at_once (retries : Nat) (tl : Bool) (pre : List Att) (v : Nat)
    (rest : List Att) (hpre : ∀ x ∈ pre, retried tl x = true) (hk : pre.length ≤ retries) :
    Retry.run retries tl (pre ++ .ok v :: rest) =
      { calls := pre.length + 1, waits := List.range pre.length, final := .ret v } := by
  have := retryLoop_decided retries tl pre (.ok v) rest 0 hpre (by simpa using hk) (.inl rfl)
  simpa [Retry.run, finalOf] using this

/-- C19: an exception not listed in `retry_on` propagates immediately wherever in the sequence it occurs. -/
theorem C19_unlisted_exception_propagates_wherever_it_occurs (retries : Nat) (tl : Bool) (pre : List Att) (x : Nat)
    (rest : List Att) (hpre : ∀ y ∈ pre, retried tl y = true) (hk : pre.length ≤ retries) :
    Retry.run retries tl (pre ++ .unlisted x :: rest) =
      { calls := pre.length + 1, waits := List.range pre.length, final := .raised x } := by
  have := retryLoop_decided retries tl pre (.unlisted x) rest 0 hpre (by simpa using hk) (.inl rfl)
  simpa [Retry.run, finalOf] using this

/-- C19: cancellation of the caller during any attempt ends the call as cancelled: not swallowed, not retried. -/
theorem C19_cancellation_is_not_retried_wherever_it_occurs (retries : Nat) (tl : Bool) (pre : List Att)
    (rest : List Att) (hpre : ∀ y ∈ pre, retried tl y = true) (hk : pre.length ≤ retries) :
    Retry.run retries tl (pre ++ .cancelled :: rest) =
      { calls := pre.length + 1, waits := List.range pre.length, final := .cancelled } := by
  have := retryLoop_decided retries tl pre .cancelled rest 0 hpre (by simpa using hk) (.inl rfl)
  simpa [Retry.run, finalOf] using this

/-- C19: a cut-off attempt when TimeoutError is not retried surfaces as TimeoutError at once. -/
theorem C19_cutoff_not_listed_propagates (retries : Nat) (pre : List Att)
    (rest : List Att) (hpre : ∀ y ∈ pre, retried false y = true) (hk : pre.length ≤ retries) :
    Retry.run retries false (pre ++ .overrun :: rest) =
      { calls := pre.length + 1, waits := List.range pre.length, final := .timeout } := by
  have := retryLoop_decided retries false pre .overrun rest 0 hpre (by simpa using hk) (.inl rfl)
  simpa [Retry.run, finalOf] using this

/-- C19: after the last attempt the last exception propagates: when `retries` attempts failed and were retried, the
    outcome of attempt `retries + 1` is the outcome of the call, whatever it is (the exception object of that
    attempt, not of an earlier one), after exactly `retries + 1` calls and `retries` waits. -/
theorem C19_after_the_last_attempt_the_last_outcome_propagates (retries : Nat) (tl : Bool) (pre : List Att) (a : Att)
    (rest : List Att) (hpre : ∀ y ∈ pre, retried tl y = true) (hk : pre.length = retries) :
    Retry.run retries tl (pre ++ a :: rest) =
      { calls := retries + 1, waits := List.range retries, final := finalOf a } := by
  have := retryLoop_decided retries tl pre a rest 0 hpre (by omega) (.inr (by omega))
  simpa [Retry.run, hk] using this

/-- C19: a cut-off counts as a failed attempt: when TimeoutError is retried, the loop treats `overrun` exactly like a
    listed exception as far as calls and waits go. -/
theorem C19_cutoff_counts_as_a_failed_attempt (retries : Nat) (atts : List Att) (attempt : Nat) (x : Nat) :
    (retryLoop retries true attempt (.overrun :: atts)).calls = (retryLoop retries true attempt (.listed x :: atts)).calls ∧
    (retryLoop retries true attempt (.overrun :: atts)).waits = (retryLoop retries true attempt (.listed x :: atts)).waits := by
  unfold retryLoop
  simp only [if_true]
  split <;> simp

/-- C19: one wait between each pair of consecutive calls, none before the first and none after the last: for any
    outcome list that covers all `retries + 1` possible attempts the number of waits is the number of calls minus one. -/
theorem C19_one_wait_between_consecutive_calls (retries : Nat) (tl : Bool) (atts : List Att)
    (hlen : retries + 1 ≤ atts.length) :
    (Retry.run retries tl atts).waits.length + 1 = (Retry.run retries tl atts).calls := by
  have hw := C19_wait_exponents_are_0_1_2 retries tl atts hlen
  have hp := retryLoop_calls_pos retries tl atts 0 (by simpa using hlen) (Nat.zero_le _)
  rw [hw, List.length_range]
  simp only [Retry.run] at hp ⊢
  omega

/-- non-vacuity: two listed failures and a cut-off, then a success, with retries = 3 -/
example : Retry.run 3 true ([.listed 7, .overrun, .listed 9] ++ .ok 5 :: [.listed 1]) =
    { calls := 4, waits := [0, 1, 2], final := .ret 5 } := by decide

example : Retry.run 2 false ([.listed 7, .listed 8] ++ .listed 9 :: [.ok 1]) =
    { calls := 3, waits := [0, 1], final := .raised 9 } := by decide

/-! ### C20: scope keys -/

/-- C20: two instances use the same `self`-scoped semaphore exactly when the semaphore name and the instance agree. -/
theorem C20_self_scope_keys_separate_instances (n n' c c' i i' : Nat) :
    semKey .self n true c i = semKey .self n' true c' i' ↔ n = n' ∧ i = i' := by
  simp only [semKey, if_true, Prod.mk.injEq, true_and]
  constructor <;> (rintro ⟨h1, h2⟩; exact ⟨h2, h1⟩)

/-- C20: two calls use the same `class`-scoped semaphore exactly when the name and the class agree (the instance is
    irrelevant: all instances of a class share it). -/
theorem C20_class_scope_keys_separate_classes (n n' c c' i i' : Nat) :
    semKey .cls n true c i = semKey .cls n' true c' i' ↔ n = n' ∧ c = c' := by
  simp only [semKey, if_true, Prod.mk.injEq, true_and]
  constructor <;> (rintro ⟨h1, h2⟩; exact ⟨h2, h1⟩)

/-- C20: the global scope has one semaphore per name, whoever calls. -/
theorem C20_global_scope_key_is_the_name (n n' c c' i i' : Nat) (a a' : Bool) :
    semKey .global n a c i = semKey .global n' a' c' i' ↔ n = n' := by
  simp [semKey]

/-- C20: different scopes do not block each other: a class-scoped, a self-scoped and a global (or multiprocess-named)
    semaphore never share a key, even under the same name and owner number. -/
theorem C20_different_scopes_never_share_a_key (n n' c c' i i' : Nat) (a : Bool) :
    semKey .cls n true c i ≠ semKey .self n' true c' i' ∧
    semKey .cls n true c i ≠ semKey .global n' a c' i' ∧
    semKey .self n true c i ≠ semKey .global n' a c' i' := by
  simp [semKey]

/-- C20: without a first argument (a plain function) class and self scope fall back to the global key. -/
theorem C20_scopes_without_owner_fall_back_to_global (n c i : Nat) :
    semKey .cls n false c i = semKey .global n false c i ∧ semKey .self n false c i = semKey .global n false c i := by
  simp [semKey]

/-! ### C20: exactly-once release, at the level of single steps -/

/-- C20: a slot is released exactly once: after the wrapper's `finally` ran for a call, no second release (indeed no
    second `finally`) of that call is possible until it calls again. -/
theorem C20_no_second_release (s s' : Sem) (c : Nat) (r r' : Bool) (h : sstep s (.finish c r) = some s') :
    sstep s' (.finish c r') = none := by
  unfold sstep at h
  split at h
  · injection h with h
    subst h
    unfold sstep
    simp [sguard, sapply, Sem.setPhase]
  · cases h

/-- C20: the wrapper releases in its `finally` exactly when it had acquired: a call that entered without a slot
    (lax, after an acquisition timeout) gives nothing back, a holder always does. -/
theorem C20_release_iff_acquired (s s' : Sem) (c : Nat) (r : Bool) (h : sstep s (.finish c r) = some s') :
    (r = true ↔ s.phase c = .holding) ∧ s'.value = (if s.phase c = .holding then s.value + 1 else s.value) := by
  unfold sstep at h
  split at h
  · rename_i hg
    injection h with h
    subst h
    cases r <;> cases hph : s.phase c <;> simp_all [sguard, sapply, Sem.setPhase]
  · cases h

/-- C20: a caller cancelled while it waits for a slot, or refused after an acquisition timeout, takes and gives back
    nothing: the semaphore's value is untouched. -/
theorem C20_giving_up_while_waiting_leaves_the_value (s s' : Sem) (c : Nat)
    (h : sstep s (.cancelWaiting c) = some s' ∨ sstep s (.acqTimeout c) = some s') : s'.value = s.value := by
  rcases h with h | h <;> unfold sstep at h <;> split at h
  · injection h with h; subst h; simp [sapply, Sem.setPhase]
  · cases h
  · injection h with h; subst h; simp only [sapply]; split <;> simp [Sem.setPhase]
  · cases h

end Bubus.Thm
