/-
  Bubus.Proofs.Finished — C10 / C11: whatever way a handler ended - it returned, raised, was cut off by its deadline or
  cancelled from further up - once its outcome has been recorded it has a terminal result on its event, in every later
  state of every run (an invariant of all reachable states). Nothing a later step does (other handlers, timeout cleanups of
  other events, completion marking, eviction) takes a recorded outcome back.
-/
import Bubus.Proofs.Wal
namespace Bubus

theorem st_setInst (w : World) (i j : IId) (x : Inst) (h : x.st = (w.inst i).st) :
    ((w.setInst i x).inst j).st = (w.inst j).st := by
  rw [setInst_inst]; split
  · rename_i hji; rw [hji]; exact h
  · rfl

theorem dFwd_st (w : World) (p : Proc) (j : IId) : ((dFwd w p).inst j).st = (w.inst j).st := by
  unfold dFwd
  split
  · split
    · exact st_setInst _ _ _ _ rfl
    · rfl
  · rfl

/-- an instance is `finished` only because its outcome was recorded (`hFinish`), and stays so -/
theorem apply0_inst_finished (w : World) (l : Label) (j : IId) (hj : j < w.ni) (hg : guard w l = true)
    (h : ((apply0 w l).inst j).st = .finished) : (w.inst j).st = .finished ∨ ∃ r, l = .hFinish j r := by
  cases l
  case hSched p i b' e' k =>
    left
    simp [guard, checks, Checks.ok] at hg
    have hi : i = w.ni := hg.1
    have hji : j ≠ i := by rw [hi]; exact Nat.ne_of_lt hj
    have h' : ((applySched w p i b' e' k).inst j).st = .finished := h
    unfold applySched at h'
    cases hA : w.act p <;> simp [hA, hji] at h' <;> exact h'
  case dispatch p b' e' res =>
    left
    have h' : ((applyDispatch w p b' e' res).inst j).st = .finished := h
    unfold applyDispatch at h'
    cases res <;> simp only [cleanup_inst, dChild_inst, dEnqueue_inst] at h' <;>
      (rw [dFwd_st, dPath_inst, dParent_inst] at h'; exact h')
  case peBegin p b' e' =>
    left
    have h' : ((peOpen (peEnter w p b') p b' e').inst j).st = .finished := h
    rw [peOpen_inst] at h'
    cases p
    · simpa [peEnter] using h'
    · rename_i i
      by_cases hji : j = i
      · subst hji; simpa [peEnter] using h'
      · simpa [peEnter, hji] using h'
    · simpa [peEnter] using h'
  case peEnd p b' e' =>
    left
    simp only [apply0] at h
    cases p <;> simpa only [releaseRl_inst, peClose_inst] using h
  case hFinish i r =>
    by_cases hji : j = i
    · subst hji; right; exact ⟨r, rfl⟩
    · left
      have h' : ((applyFinish w i r).inst j).st = .finished := h
      unfold applyFinish at h'
      simp only [] at h'
      cases hA : w.act (w.inst i).exec <;> simp only [hA] at h' <;> split at h' <;>
        simp only [cancelPendingChildren_inst, setAct_inst, setStack_inst] at h' <;>
        simpa [hji] using h'
  case take p b' e' =>
    left
    cases p
    · simpa [apply0] using h
    · rename_i i
      by_cases hji : j = i
      · subst hji; simpa [apply0] using h
      · simpa [apply0, hji] using h
    · simpa [apply0] using h
  case peRecTrip p b' e' =>
    left
    cases p
    · simpa [apply0, rlBack] using h
    · rename_i i
      by_cases hji : j = i
      · subst hji; simp [apply0] at h
      · simpa [apply0, hji] using h
    · simpa [apply0] using h
  case hStart i =>
    left; by_cases hji : j = i
    · subst hji; simp [apply0] at h
    · simpa [apply0, hji] using h
  case hCancel i =>
    left; by_cases hji : j = i
    · subst hji; simp [apply0] at h
    · simpa [apply0, hji] using h
  case hEnd i out =>
    left
    simp only [apply0] at h
    by_cases hji : j = i
    · subst hji
      exfalso
      split at h <;> (try split at h) <;> (try split at h) <;> simp at h
    · have key : ((w.modInst i fun I => { I with st := .ended, out := out }).inst j).st = (w.inst j).st := by simp [hji]
      split at h <;> (try split at h) <;> (try split at h) <;> (try simp only [setWaiter_inst] at h) <;> (rw [key] at h; exact h)
  case awaitBegin i c =>
    left; by_cases hji : j = i
    · subst hji; simp [apply0] at h
    · simpa [apply0, hji] using h
  case pollYield i =>
    left; by_cases hji : j = i
    · subst hji; simpa [apply0] using h
    · simpa [apply0, hji] using h
  case awaitEnd i c =>
    left; by_cases hji : j = i
    · subst hji; simp [apply0] at h
    · simpa [apply0, hji] using h
  case walWrite p b' e' ok => left; simp only [apply0] at h; cases hA : w.act p <;> cases ok <;> simpa [hA] using h
  case peAbort p b' e' => left; cases p <;> simpa [apply0] using h
  case rlPoll b' => left; simp only [apply0, rlIdleCheck] at h; split at h <;> simpa using h
  case wiJoined x => left; simp only [apply0] at h; split at h <;> simpa using h
  case wiIdle x => left; simp only [apply0] at h; split at h <;> simpa using h
  case wiRecheck x => left; simp only [apply0] at h; split at h <;> simpa using h
  case expectTimeout x' => left; simp only [apply0] at h; split at h <;> simpa using h
  case expectCancelReq x' => left; simp only [apply0] at h; split at h <;> simpa using h
  case hSkip p_ b_ e_ k_ => left; simp only [apply0] at h; split at h <;> simpa using h
  case stopEnd x => left; simp only [apply0] at h; split at h <;> (try split at h) <;> simpa using h
  case rlExit b' => left; simp only [apply0, rlIdleCheck] at h; split at h <;> (try split at h) <;> simpa using h
  case rlDropExit b' => left; simp only [apply0, rlIdleCheck] at h; split at h <;> simpa using h
  case expectEnd x got => left; simp only [apply0] at h; split at h <;> simpa using h
  case expectCancel x => left; simp only [apply0] at h; split at h <;> simpa using h
  all_goals (left; simpa [apply0] using h)

/-- every instance whose outcome has been recorded has a terminal result on its event -/
def FinInv (w : World) : Prop :=
  ∀ j, j < w.ni → (w.inst j).st = .finished → Terminal (w.ev (w.inst j).ev) (w.inst j).bus (w.inst j).hid

theorem fininv_apply0 (w : World) (l : Label) (hg : guard w l = true) (hI : FinInv w) (hO : OnceInv w) :
    FinInv (apply0 w l) := by
  intro j hj hfin
  by_cases hold : j < w.ni
  · have hid := apply0_inst_id w l j hold hg
    simp only [idOf, Prod.mk.injEq] at hid
    obtain ⟨e1, e2, e3⟩ := hid
    rw [e1, e2, e3]
    rcases apply0_inst_finished w l j hold hg hfin with h0 | ⟨r, hl⟩
    · exact apply0_terminal w l _ _ _ (hO j hold).2 hg (hI j hold h0)
    · subst hl
      exact applyFinish_makes_terminal w j r (hO j hold).1
  · -- a new instance (only `hSched` creates one) is `scheduled`, not finished
    exfalso
    have hni := apply0_ni w l
    cases l
    case hSched p i b e k =>
      simp only [] at hni
      have hji : j = w.ni := by omega
      have hgg := hg
      simp [guard, checks, Checks.ok] at hgg
      have hi : i = w.ni := hgg.1
      subst hi; subst hji
      have : ((applySched w p w.ni b e k).inst w.ni).st = .scheduled := by
        unfold applySched; cases hA : w.act p <;> simp
      have h' : ((applySched w p w.ni b e k).inst w.ni).st = .finished := hfin
      rw [this] at h'; cases h'
    all_goals (simp only [] at hni; omega)

theorem fininv_wake (w : World) (h : FinInv w) : FinInv (wake w) := by
  intro j hj hfin
  simp only [wake_ni] at hj
  simp only [wake_inst] at hfin
  simpa only [wake_ev, wake_inst] using h j hj hfin

theorem fininv_run (w w' : World) (ls : List Label) (hI : FinInv w) (hO : OnceInv w) (h : run w ls = some w') :
    FinInv w' ∧ OnceInv w' := by
  induction ls generalizing w with
  | nil => simp [run] at h; subst h; exact ⟨hI, hO⟩
  | cons l ls ih =>
    simp only [run] at h
    cases hs : step w l with
    | none => simp [hs] at h
    | some w1 =>
      simp only [hs] at h
      obtain ⟨hg, rfl⟩ := step_some hs
      exact ih _ (fininv_wake _ (fininv_apply0 w l hg hI hO)) (onceInv_step w _ l hO hs) h

theorem fininv_reachable (w : World) (hr : Reachable w) : FinInv w := by
  obtain ⟨ls, h⟩ := hr
  exact (fininv_run {} w ls (fun j hj => absurd hj (Nat.not_lt_zero _)) onceInv_init h).1

theorem run_snoc (w : World) (ls : List Label) (l : Label) : run w (ls ++ [l]) = (run w ls).bind fun w1 => step w1 l := by
  induction ls generalizing w with
  | nil =>
    simp only [List.nil_append, run, Option.bind]
    cases hs : step w l <;> simp [run]
  | cons a t ih =>
    simp only [List.cons_append, run]
    cases hs : step w a with
    | none => simp [Option.bind]
    | some w1 => simpa using ih w1

namespace Thm

/-- C11 (and C10): in every reachable state, a handler whose outcome has been recorded - it returned, raised, ran into its
    deadline or was cancelled - has a terminal (completed or error) result on its event for its bus; no later step of any
    run takes that back. An exception, a timeout or a cancellation ends as that handler's result, never as a result that is
    still pending or started. -/
theorem C11_a_finished_handler_has_a_terminal_result_for_ever (w : World) (hr : Reachable w) (i : IId) (hi : i < w.ni)
    (hfin : (w.inst i).st = .finished) :
    ∃ r, (w.ev (w.inst i).ev).getRes? (w.inst i).bus (w.inst i).hid = some r ∧ r.terminal = true :=
  fininv_reachable w hr i hi hfin

/-- C10: in particular recording a timeout (`hFinish i errTimeout`) in a reachable state leaves instance `i` with a terminal
    result, in the state reached and in every state after it. -/
theorem C10_a_recorded_timeout_is_a_terminal_result (w w' : World) (hr : Reachable w) (i : IId)
    (hs : step w (.hFinish i .errTimeout) = some w') :
    ∃ r, (w'.ev (w'.inst i).ev).getRes? (w'.inst i).bus (w'.inst i).hid = some r ∧ r.terminal = true := by
  obtain ⟨ls, hls⟩ := hr
  have hr' : Reachable w' := ⟨ls ++ [.hFinish i .errTimeout], by rw [run_snoc, hls]; exact hs⟩
  obtain ⟨hg, hw'⟩ := step_some hs
  have hgg := hg
  simp [guard, checks, Checks.ok] at hgg
  have hlt := hgg.1
  subst hw'
  have hi : i < (apply w (.hFinish i .errTimeout)).ni := by
    simp only [apply, wake_ni]; rw [apply0_ni]; exact hlt
  have hfin : ((apply w (.hFinish i .errTimeout)).inst i).st = .finished := by
    simp only [apply, wake_inst, apply0]
    unfold applyFinish; simp only []
    cases hA : w.act (w.inst i).exec <;> simp [cancelPendingChildren_inst]
  exact C11_a_finished_handler_has_a_terminal_result_for_ever _ hr' i hi hfin

end Thm

end Bubus
