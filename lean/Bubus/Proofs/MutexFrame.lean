/-
  Bubus.Proofs.MutexFrame — the part of the world the C06 chain invariant reads (`skel`) and how every stage of the
  transition function touches it.
-/
import Bubus.Proofs.Mutex
namespace Bubus

/-- instances, activations, lock, handler stack and the buses' parallel flags -/
def World.skel (w : World) : (IId → Inst) × (Proc → Option Act) × Option BId × List IId × Nat × (BId → Bool) :=
  (w.inst, w.act, w.lock, w.stack, w.ni, fun b => (w.bus b).parallel)

@[simp] theorem setEv_skel (w : World) (e : EId) (x : Ev) : (w.setEv e x).skel = w.skel := rfl
@[simp] theorem modEv_skel (w : World) (e : EId) (f : Ev → Ev) : (w.modEv e f).skel = w.skel := rfl
@[simp] theorem setWaiter_skel (w : World) (x : Nat) (s : WSt) : (w.setWaiter x s).skel = w.skel := rfl
@[simp] theorem setNow_skel (w : World) (t : Nat) : (w.setNow t).skel = w.skel := rfl
@[simp] theorem setNb_skel (w : World) (t : Nat) : (w.setNb t).skel = w.skel := rfl
@[simp] theorem setNe_skel (w : World) (t : Nat) : (w.setNe t).skel = w.skel := rfl
@[simp] theorem wake_skel (w : World) : (wake w).skel = w.skel := by
  unfold World.skel; simp

theorem setBus_skel (w : World) (b : BId) (x : Bus) (h : x.parallel = (w.bus b).parallel) : (w.setBus b x).skel = w.skel := by
  unfold World.skel
  simp only [setBus_inst, setBus_act, setBus_lock, setBus_stack, setBus_ni]
  congr 5
  funext b'
  by_cases hb : b' = b
  · subst hb; simp [h]
  · simp [hb]

theorem modBus_skel (w : World) (b : BId) (f : Bus → Bus) (h : (f (w.bus b)).parallel = (w.bus b).parallel) :
    (w.modBus b f).skel = w.skel := setBus_skel w b _ h

theorem sameView_of_skel (w w' : World) (h : w'.skel = w.skel) : SameView w w' := by
  unfold World.skel at h
  simp only [Prod.mk.injEq] at h
  obtain ⟨hi, ha, hl, hs, hn, hp⟩ := h
  refine ⟨fun b => congrFun hp b, fun i => by rw [hi], fun i => by rw [hi], fun p => by unfold runOf; rw [ha], hl, hs,
          fun i => by rw [hi]; exact id, hn⟩

theorem SameView.refl (w : World) : SameView w w := ⟨fun _ => rfl, fun _ => rfl, fun _ => rfl, fun _ => rfl, rfl, rfl, fun _ => id, rfl⟩

theorem SameView.trans {w1 w2 w3 : World} (h1 : SameView w1 w2) (h2 : SameView w2 w3) : SameView w1 w3 := by
  obtain ⟨a1, a2, a3, a4, a5, a6, a7, a8⟩ := h1
  obtain ⟨b1, b2, b3, b4, b5, b6, b7, b8⟩ := h2
  exact ⟨fun b => (b1 b).trans (a1 b), fun i => (b2 i).trans (a2 i), fun i => (b3 i).trans (a3 i),
         fun p => (b4 p).trans (a4 p), b5.trans a5, b6.trans a6, fun i h => a7 i (b7 i h), b8.trans a8⟩

/-- an instance update that keeps the coarse state and the executor -/
theorem sameView_modInst (w : World) (i : IId) (f : Inst → Inst)
    (h1 : cs (f (w.inst i)).st = cs (w.inst i).st) (h2 : (f (w.inst i)).exec = (w.inst i).exec)
    (h3 : (f (w.inst i)).took.isSome → (w.inst i).took.isSome) :
    SameView w (w.modInst i f) := by
  refine ⟨fun _ => rfl, ?_, ?_, fun _ => rfl, rfl, rfl, ?_, rfl⟩
  · intro j
    by_cases hj : j = i
    · subst hj; simp [World.modInst, h1]
    · simp [World.modInst, hj]
  · intro j
    by_cases hj : j = i
    · subst hj; simp [World.modInst, h2]
    · simp [World.modInst, hj]
  · intro j
    by_cases hj : j = i
    · subst hj; simpa [World.modInst] using h3
    · simp [World.modInst, hj]

/-! stages -/
theorem markComplete_skel (w : World) (x : EId) : (markComplete w x).skel = w.skel := by
  unfold markComplete; simp only []; repeat' split
  all_goals simp

theorem parentWalk_skel (fuel : Nat) (w : World) (x : EId) (seen : List EId) : (parentWalk w fuel x seen).skel = w.skel := by
  induction fuel generalizing w x seen with
  | zero => rfl
  | succ n ih =>
    unfold parentWalk
    split
    · rfl
    · split
      · rfl
      · split
        · rw [ih, markComplete_skel]
        · rfl

theorem cancelPendingChildren_skel (fuel : Nat) (w : World) (x : EId) : (cancelPendingChildren w fuel x).skel = w.skel := by
  induction fuel generalizing w x with
  | zero => rfl
  | succ n ih =>
    unfold cancelPendingChildren
    generalize (w.ev x).children = cs
    induction cs generalizing w with
    | nil => rfl
    | cons c cs ihc => simp only [List.foldl_cons]; rw [ihc, ih]; simp

theorem cleanup_skel (w : World) (b : BId) : (cleanup w b).skel = w.skel := by
  unfold cleanup; exact modBus_skel _ _ _ rfl

theorem dParent_skel (w ctx e) : (dParent w ctx e).skel = w.skel := by
  unfold dParent; split
  · split <;> simp
  · rfl

theorem dPath_skel (w b e) : (dPath w b e).skel = w.skel := by
  unfold dPath; split <;> simp

theorem dEnqueue_skel (w b e) : (dEnqueue w b e).skel = w.skel := by
  unfold dEnqueue; exact modBus_skel _ _ _ rfl

theorem dChild_skel (w ctx e) : (dChild w ctx e).skel = w.skel := by
  unfold dChild; split
  · split <;> simp
  · rfl

theorem rlIdleCheck_skel (w b) : (rlIdleCheck w b).skel = w.skel := by
  unfold rlIdleCheck; split
  · exact modBus_skel _ _ _ rfl
  · rfl

theorem dFwd_sameView (w : World) (p : Proc) : SameView w (dFwd w p) := by
  unfold dFwd
  split
  · split
    · exact sameView_modInst _ _ _ rfl rfl id
    · exact SameView.refl _
  · exact SameView.refl _

theorem applyDispatch_sameView (w : World) (p : Proc) (b : BId) (e : EId) (res : DRes) :
    SameView w (applyDispatch w p b e res) := by
  unfold applyDispatch
  simp only []
  have h1 : SameView w (dFwd (dPath (dParent w (ctxOf w p) e) b e) p) :=
    (sameView_of_skel _ _ (by rw [dPath_skel, dParent_skel])).trans (dFwd_sameView _ _)
  split
  · exact h1.trans (sameView_of_skel _ _ (by rw [cleanup_skel, dChild_skel, dEnqueue_skel]))
  all_goals exact h1

end Bubus
