/-
  Bubus.Proofs.InlineDone — C10 / C04 on serial buses: a handler that runs inside another handler's await (its executor is
  that handler instance) is live only while that handler is suspended in the await.  Hence, in every reachable state, once
  a handler's body has ended - it returned, raised, or was cut off by its deadline or a cancellation from further up -
  every handler it was running inline has finished: nothing it started goes on executing behind its back.
-/
import Bubus.Proofs.MutexThm
import Bubus.Proofs.NoSkip
namespace Bubus

/-- in a chain, the executor of every instance that is run by a handler instance is suspended in an await -/
theorem chain_exec_waits (w : World) : ∀ l, Chain w l → ∀ j ∈ l, ∀ i, (w.inst j).exec = .inst i → cs (w.inst i).st = .wait := by
  intro l
  induction l with
  | nil => intro _ j hj; cases hj
  | cons a t ih =>
    intro hc j hj i hex
    cases t with
    | nil =>
      obtain ⟨b, h1, _, _⟩ := hc
      simp only [List.mem_singleton] at hj
      subst hj
      rw [h1] at hex; cases hex
    | cons a' rest =>
      obtain ⟨h1, _, h3, h4⟩ := hc
      simp only [List.mem_cons] at hj
      rcases hj with rfl | hj
      · rw [h1] at hex
        injection hex with hex
        subst hex
        exact h3
      · exact ih h4 j (by simpa using hj) i hex

namespace Thm

/-- **C10 / C04 (nothing runs on behind an ended handler), for every reachable state of serial buses**: a handler instance `j`
    whose executor is the handler instance `i` (it runs inside an `await` of `i`) is unfinished only while `i` is suspended
    in that await. -/
theorem C10_a_handler_run_inside_an_await_is_live_only_while_the_awaiting_handler_is_suspended (ls : List Label) (w : World)
    (hser : SerialRun ls) (hrun : run {} ls = some w) (i j : IId) (hex : (w.inst j).exec = .inst i)
    (hj : (w.inst j).st ≠ .finished) : ∃ c, (w.inst i).st = .awaiting c := by
  have hI := minv_run {} w ls minv_init hser hrun
  have hjs : j ∈ w.stack := (hI.mem j).mpr (by
    intro h; apply hj
    cases hst : (w.inst j).st <;> simp [cs, hst] at h
    rfl)
  have hw := chain_exec_waits w w.stack hI.chain j hjs i hex
  cases hst : (w.inst i).st <;> simp [cs, hst] at hw
  exact ⟨_, rfl⟩

/-- **C10**: corollary - once the body of a handler has ended (returned, raised, or was cancelled by its deadline or from
    further up: state `ended`, or `finished` once the outcome is recorded), every handler it ran inline has finished. -/
theorem C10_when_a_handler_has_ended_every_handler_it_ran_inline_has_finished (ls : List Label) (w : World)
    (hser : SerialRun ls) (hrun : run {} ls = some w) (i j : IId) (hex : (w.inst j).exec = .inst i)
    (hi : (w.inst i).st = .ended ∨ (w.inst i).st = .finished) : (w.inst j).st = .finished := by
  by_cases hj : (w.inst j).st = .finished
  · exact hj
  exfalso
  obtain ⟨c, hc⟩ := C10_a_handler_run_inside_an_await_is_live_only_while_the_awaiting_handler_is_suspended ls w hser hrun i j hex hj
  rcases hi with hi | hi <;> rw [hc] at hi <;> cases hi

end Thm
end Bubus

namespace Bubus
namespace Thm

/-- **C04**: the same fact read at the moment an in-handler `await` has returned: a handler that is executing (not suspended
    in an await) has no unfinished handler below it - whatever it processed inline while it waited has finished. -/
theorem C04_an_executing_handler_has_no_unfinished_inline_handler (ls : List Label) (w : World)
    (hser : SerialRun ls) (hrun : run {} ls = some w) (i j : IId) (hex : (w.inst j).exec = .inst i)
    (hi : (w.inst i).st = .running) : (w.inst j).st = .finished := by
  by_cases hj : (w.inst j).st = .finished
  · exact hj
  exfalso
  obtain ⟨c, hc⟩ := C10_a_handler_run_inside_an_await_is_live_only_while_the_awaiting_handler_is_suspended ls w hser hrun i j hex hj
  rw [hc] at hi; cases hi

/-- **C17** ("after that event's handlers on that bus have finished"): in a reachable state the WAL line of an activation is
    written only when every handler selected for it at its beginning has a terminal result on the event, none is left on the
    to-do list and none is running. -/
theorem C17_the_wal_line_is_written_after_every_selected_handler_has_finished (w w' : World) (hr : Reachable w)
    (p : Proc) (b : BId) (e : EId) (ok : Bool) (hs : step w (.walWrite p b e ok) = some w') :
    ∃ A, w.act p = some A ∧ A.bus = b ∧ A.ev = e ∧ A.todo = [] ∧ A.running = [] ∧
      ∀ k, k ∈ A.sel → ∃ r, (w.ev e).getRes? b k = some r ∧ r.terminal = true := by
  obtain ⟨hg, _⟩ := step_some hs
  have hgg := hg
  simp [guard, checks, Checks.ok] at hgg
  obtain ⟨hact, hout, _⟩ := hgg
  cases hA : w.act p with
  | none => simp [actIs, hA] at hact
  | some A =>
    simp [actIs, hA] at hact
    simp [hA] at hout
    obtain ⟨hb, he⟩ := hact
    obtain ⟨htodo, hrun⟩ := hout
    refine ⟨A, rfl, hb, he, htodo, hrun, fun k hk => ?_⟩
    rcases C01_a_selected_handler_is_never_lost w hr p A hA k hk with h | ⟨i, hi, _⟩ | h
    · rw [htodo] at h; simp at h
    · rw [hrun] at hi; simp at hi
    · rw [← hb, ← he]; exact h

/-- **C01 / C18**: a handler selected for an activation (an `expect()` subscriber included) is passed over only when its
    result on the event is already terminal - made so by a recorded mechanism (a timeout cleanup further up). -/
theorem C01_a_selected_handler_is_passed_over_only_with_a_terminal_result (w w' : World) (p : Proc) (b : BId) (e : EId) (k : HId)
    (hs : step w (.hSkip p b e k) = some w') :
    ∃ r, (w.ev e).getRes? b k = some r ∧ r.terminal = true := by
  obtain ⟨hg, _⟩ := step_some hs
  simp [guard, checks, Checks.ok] at hg
  obtain ⟨_, _, _, hres, _⟩ := hg
  cases hr : (w.ev e).getRes? b k with
  | none => simp [hr] at hres
  | some r => simp [hr] at hres; exact ⟨r, rfl, hres⟩

end Thm
end Bubus

namespace Bubus

/-- follow the executor links `n` times upwards from an instance: the handler instance inside whose await it runs, … -/
def iterExec (w : World) : Nat → IId → Option IId
  | 0, j => some j
  | n + 1, j => match (w.inst j).exec with
    | .inst k => iterExec w n k
    | _ => none

/-- from the innermost instance of a chain every instance of the chain is reached by executor links -/
theorem chain_head_reaches (w : World) : ∀ l, Chain w l → ∀ a t, l = a :: t → ∀ i ∈ l, ∃ n, iterExec w n a = some i := by
  intro l
  induction l with
  | nil => intro _ a t h; cases h
  | cons x xs ih =>
    intro hc a t hl i hi
    injection hl with hxa hxt
    subst hxa
    simp only [List.mem_cons] at hi
    rcases hi with rfl | hi
    · exact ⟨0, rfl⟩
    · cases xs with
      | nil => cases hi
      | cons y rest =>
        obtain ⟨h1, _, _, h4⟩ := hc
        obtain ⟨n, hn⟩ := ih h4 y rest rfl i (by simpa using hi)
        exact ⟨n + 1, by simp [iterExec, h1, hn]⟩

namespace Thm

/-- **C05 (nothing runs beside an awaiting handler), for every reachable state of serial buses**: while a handler instance `i`
    is alive (in particular: suspended in an `await`), whatever handler instance `j` is executing has been started from
    inside `i` - following the executor links upwards from `j` (the handler inside whose await it runs, and so on) leads
    to `i`. No run loop and no other task starts a handler beside an awaiting one; what runs in the window of an await is
    run by the awaiting handler's own loop. -/
theorem C05_whatever_executes_while_a_handler_is_alive_runs_inside_it (ls : List Label) (w : World)
    (hser : SerialRun ls) (hrun : run {} ls = some w) (i j : IId)
    (hi : (w.inst i).st ≠ .finished) (hj : cs (w.inst j).st = .busy) : ∃ n, iterExec w n j = some i := by
  have hI := minv_run {} w ls minv_init hser hrun
  have his : i ∈ w.stack := (hI.mem i).mpr (by
    intro h; apply hi
    cases hst : (w.inst i).st <;> simp [cs, hst] at h
    rfl)
  have htop := only_top_busy w hI j hj
  cases hs : w.stack with
  | nil => rw [hs] at his; cases his
  | cons a t =>
    rw [hs] at htop
    simp only [List.head?_cons, Option.some.injEq] at htop
    subst htop
    exact chain_head_reaches w w.stack hI.chain a t hs i his

end Thm
end Bubus

namespace Bubus
namespace Thm

/-- **C05** (the awaited child is reached without a detour through the event loop): the polling loop of an in-handler `await`
    suspends only after a pass that found the queue of every bus (still registered) empty - while some queue holds an event,
    its next step is to take one. -/
theorem C05_the_await_suspends_only_when_every_queue_is_empty (w w' : World) (i : IId)
    (hs : step w (.pollYield i) = some w') (b : BId) (hb : b < w.nb) (hreg : (w.bus b).removed = false) :
    (w.bus b).queue = [] := by
  obtain ⟨hg, _⟩ := step_some hs
  simp [guard, checks, Checks.ok] at hg
  have h := hg.2.2.1 b hb
  rw [hreg] at h
  simpa using h

end Thm
end Bubus

namespace Bubus
namespace Thm

/-- **C04 / C03** ("the await never deadlocks", "awaiting always returns"): the polling loop of an in-handler `await` is bounded -
    it suspends at most `maxPoll` (1000) times (every pass over the buses ends in at most one suspension); after that many passes
    the await gives up and returns. -/
theorem C04_the_polling_loop_of_an_await_is_bounded (w w' : World) (i : IId)
    (hs : step w (.pollYield i) = some w') : (w.inst i).yields < w.cfg.maxPoll := by
  obtain ⟨hg, _⟩ := step_some hs
  simp [guard, checks, Checks.ok] at hg
  exact hg.2.2.2

end Thm
end Bubus
