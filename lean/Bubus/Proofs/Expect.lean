/-
  Bubus.Proofs.Expect — C18: the temporary subscription of `expect()` is never left behind, as an invariant of all
  reachable states: every handler of kind `expect x` that is registered on a bus belongs to the call `x`, which is still
  pending on exactly that bus with exactly that key and handler id. When the call ends (match, timeout, cancellation) its
  handler goes with it; nothing else ever registers one.
-/
import Bubus.Proofs.RunLoop
namespace Bubus

/-- labels that write a bus's handler registry -/
def writesHandlers : Label → Bool
  | .newBus .. | .on .. | .off .. | .expectBegin .. | .expectEnd .. | .expectCancel .. | .stopEnd .. => true
  | _ => false

theorem cleanup_handlers (w : World) (b b' : BId) : ((cleanup w b).bus b').handlers = (w.bus b').handlers := by
  by_cases hb : b' = b <;> simp [cleanup, hb, setBus_bus]

theorem dEnqueue_handlers (w : World) (b : BId) (e : EId) (b' : BId) :
    ((dEnqueue w b e).bus b').handlers = (w.bus b').handlers := by
  by_cases hb : b' = b <;> simp [dEnqueue, hb, setBus_bus]

theorem applyDispatch_handlers (w : World) (p : Proc) (b : BId) (e : EId) (res : DRes) (b' : BId) :
    ((applyDispatch w p b e res).bus b').handlers = (w.bus b').handlers := by
  unfold applyDispatch
  cases res <;> simp only [] <;>
    first
    | (rw [cleanup_handlers, dChild_bus, dEnqueue_handlers, dFwd_bus, dPath_bus, dParent_bus])
    | (rw [dFwd_bus, dPath_bus, dParent_bus])

theorem peClose_handlers (w : World) (p : Proc) (b : BId) (e : EId) (b' : BId) :
    ((peClose w p b e).bus b').handlers = (w.bus b').handlers := by
  unfold peClose
  by_cases hb : b' = b
  · subst hb; simp [setBus_bus, cleanup_handlers, parentWalk_bus, markComplete_bus]
  · simp [setBus_bus, hb, cleanup_handlers, parentWalk_bus, markComplete_bus]

theorem releaseRl_handlers (w : World) (b b' : BId) : ((releaseRl w b).bus b').handlers = (w.bus b').handlers := by
  unfold releaseRl rlIdleCheck rlBack; split <;> by_cases hb : b' = b <;> simp [setBus_bus, hb]

/-- all other labels leave every bus's registry alone -/
theorem apply0_handlers_frame (w : World) (l : Label) (b : BId) (h : writesHandlers l = false) :
    ((apply0 w l).bus b).handlers = (w.bus b).handlers := by
  cases l <;> simp [writesHandlers] at h
  case newEvent => simp [apply0]
  case tick => simp [apply0]
  case rlCreate b' => by_cases hb : b = b' <;> simp [apply0, hb, setBus_bus]
  case dispatch p b' e res => exact applyDispatch_handlers w p b' e res b
  case take p b' e =>
    cases p <;> by_cases hb : b = b' <;> simp [apply0, hb, setBus_bus]
  case peBegin p b' e =>
    show ((peOpen (peEnter w p b') p b' e).bus b).handlers = _
    rw [peOpen_bus]
    cases p <;> simp [peEnter]
    by_cases hb : b = b' <;> simp [hb, setBus_bus]
  case peRecTrip p b' e =>
    cases p <;> simp [apply0, rlBack, setBus_bus] <;> split <;> simp_all
  case hSched p i b' e k =>
    show ((applySched w p i b' e k).bus b).handlers = _
    unfold applySched
    cases hA : w.act p <;> simp
  case hStart => simp [apply0]
  case hCancel => simp [apply0]
  case hEnd i out =>
    simp only [apply0]
    split <;> (try split) <;> (try split) <;> simp
  case hFinish i r =>
    simp only [apply0, applyFinish]
    cases hA : w.act (w.inst i).exec <;> simp [hA] <;> split <;> simp [cancelPendingChildren_bus]
  case walWrite p b' e ok =>
    simp only [apply0]
    cases hA : w.act p <;> cases ok <;> by_cases hb : b = b' <;> simp [hA, hb, setBus_bus]
  case peEnd p b' e =>
    cases p <;> simp only [apply0] <;> (try rw [releaseRl_handlers]) <;> exact peClose_handlers _ _ _ _ _
  case peAbort p b' e =>
    cases p <;> simp [apply0, setBus_bus] <;> split <;> simp_all
  case awaitBegin => simp [apply0]
  case pollYield => simp [apply0]
  case awaitEnd => simp [apply0]
  case xAwaitEnd => simp [apply0]
  case readBus => simp [apply0]
  case rlWake b' => by_cases hb : b = b' <;> simp [apply0, hb, setBus_bus]
  case rlPoll b' =>
    simp only [apply0, rlIdleCheck]
    split <;> by_cases hb : b = b' <;> simp [hb, setBus_bus]
  case wiBegin => simp [apply0]
  case wiJoined x => simp only [apply0]; split <;> simp
  case wiIdle x => simp only [apply0]; split <;> simp
  case wiRecheck x =>
    simp only [apply0]
    split
    · rename_i b' _; by_cases hb : b = b' <;> simp [hb, setBus_bus]
    · simp
  case wiEnd => simp [apply0]
  case wiCancel => simp [apply0]
  case expectTimeout x' => simp only [apply0]; split <;> simp
  case expectCancelReq x' => simp only [apply0]; split <;> simp
  case hSkip p_ b_ e_ k_ => simp only [apply0]; split <;> simp
  case stopBegin x b' c => by_cases hb : b = b' <;> simp [apply0, hb, setBus_bus]
  case stopNoop => simp [apply0]
  case rlExit b' =>
    simp only [apply0, rlIdleCheck]
    split <;> (try split) <;> by_cases hb : b = b' <;> simp [hb, setBus_bus]
  case cancelRl b' => by_cases hb : b = b' <;> simp [apply0, hb, setBus_bus]
  case rlCancelled b' => by_cases hb : b = b' <;> simp [apply0, hb, setBus_bus]
  case rlDropExit b' =>
    simp only [apply0, rlIdleCheck]
    split <;> by_cases hb : b = b' <;> simp [hb, setBus_bus]


/-- labels that write the state of a blocked caller -/
def touchesWaiter : Label → Bool
  | .hEnd .. | .wiBegin .. | .wiJoined .. | .wiIdle .. | .wiRecheck .. | .wiEnd .. | .wiCancel ..
  | .stopBegin .. | .stopNoop .. | .stopEnd .. | .expectBegin .. | .expectEnd .. | .expectCancel ..
  | .expectTimeout .. | .expectCancelReq .. => true
  | _ => false

@[simp] theorem setNi_waiter (w : World) (n : Nat) : (w.setNi n).waiter = w.waiter := rfl
@[simp] theorem setNe_waiter (w : World) (n : Nat) : (w.setNe n).waiter = w.waiter := rfl
@[simp] theorem setNb_waiter (w : World) (n : Nat) : (w.setNb n).waiter = w.waiter := rfl
@[simp] theorem setNow_waiter (w : World) (n : Nat) : (w.setNow n).waiter = w.waiter := rfl

theorem apply0_waiter_frame (w : World) (l : Label) (h : touchesWaiter l = false) : (apply0 w l).waiter = w.waiter := by
  cases l <;> simp [touchesWaiter] at h
  case hSched p i b e k => show (applySched w p i b e k).waiter = _; unfold applySched; cases hA : w.act p <;> simp
  case dispatch p b e res =>
    show (applyDispatch w p b e res).waiter = w.waiter
    unfold applyDispatch
    have h1 : ∀ w' : World, (dFwd w' p).waiter = w'.waiter := by intro w'; unfold dFwd; split <;> (try split) <;> simp
    have h2 : ∀ w' : World, (dPath w' b e).waiter = w'.waiter := by intro w'; unfold dPath; split <;> simp
    have h3 : ∀ w' : World, ∀ c, (dParent w' c e).waiter = w'.waiter := by intro w' c; unfold dParent; split <;> (try split) <;> simp
    have h4 : ∀ w' : World, ∀ c, (dChild w' c e).waiter = w'.waiter := by intro w' c; unfold dChild; split <;> (try split) <;> simp
    cases res <;> simp [cleanup, dEnqueue, h1, h2, h3, h4]
  case peBegin p b e =>
    show (peOpen (peEnter w p b) p b e).waiter = w.waiter
    unfold peOpen
    simp only []
    have hm : ∀ (w : World) (x : EId), (markComplete w x).waiter = w.waiter := by
      intro w x; unfold markComplete; simp only []; repeat' split
      all_goals simp
    split <;> cases p <;> simp [hm, peEnter]
  case peEnd p b e =>
    have hm : ∀ (w : World) (x : EId), (markComplete w x).waiter = w.waiter := by
      intro w x; unfold markComplete; simp only []; repeat' split
      all_goals simp
    have hp : ∀ (fuel : Nat) (w : World) (x : EId) (seen : List EId), (parentWalk w fuel x seen).waiter = w.waiter := by
      intro fuel
      induction fuel with
      | zero => intros; rfl
      | succ n ih =>
        intro w x seen; unfold parentWalk
        split
        · rfl
        · split
          · rfl
          · split
            · rw [ih, hm]
            · rfl
    have hc : (peClose w p b e).waiter = w.waiter := by unfold peClose; simp [cleanup, hp, hm]
    have hr : ∀ (w : World) (b : BId), (releaseRl w b).waiter = w.waiter := by
      intro w b; unfold releaseRl rlIdleCheck rlBack; split <;> simp
    simp only [apply0]
    cases p <;> simp [hr, hc]
  case hFinish i r =>
    show (applyFinish w i r).waiter = w.waiter
    have hcp : ∀ (fuel : Nat) (w : World) (x : EId), (cancelPendingChildren w fuel x).waiter = w.waiter := by
      intro fuel
      induction fuel with
      | zero => intros; rfl
      | succ n ih =>
        intro w x; unfold cancelPendingChildren
        generalize (w.ev x).children = cs
        induction cs generalizing w with
        | nil => rfl
        | cons c cs ihc => simp only [List.foldl_cons]; rw [ihc, ih]; simp
    unfold applyFinish
    simp only []
    cases hA : w.act (w.inst i).exec <;> simp only [] <;> split <;> simp [hcp]
  all_goals first
    | rfl
    | (simp only [apply0, rlIdleCheck, rlBack]; (repeat' split) <;> (try simp))

/-- call `x` is blocked in `expect()` on bus `b` with its temporary handler `(key, k)` -/
def Expecting (w : World) (x : Nat) (b : BId) (key : Key) (k : HId) : Prop :=
  ∃ d g dd, w.waiter x = .expecting b key k d g dd

def endsExpect (l : Label) (x : Nat) : Bool :=
  match l with
  | .expectEnd x' _ => x' == x
  | .expectCancel x' => x' == x
  | _ => false

theorem setWaiter_other (w : World) (x x' : Nat) (s : WSt) (h : x ≠ x') : (w.setWaiter x' s).waiter x = w.waiter x := by
  simp [World.setWaiter, h]

/-- a pending `expect()` call stays pending, on the same bus with the same temporary handler, until it ends itself -/
theorem apply0_keeps_expecting (w : World) (l : Label) (x : Nat) (b : BId) (key : Key) (k : HId) (hg : guard w l = true)
    (h : Expecting w x b key k) (hne : endsExpect l x = false) : Expecting (apply0 w l) x b key k := by
  by_cases ht : touchesWaiter l = false
  · unfold Expecting; rw [apply0_waiter_frame w l ht]; exact h
  · obtain ⟨d, g, dd, hw⟩ := h
    have hidle : w.waiter x ≠ .idle := by rw [hw]; intro hc; cases hc
    cases l <;> simp [touchesWaiter] at ht
    case hEnd i out =>
      simp only [apply0]
      split
      · split
        · split
          · rename_i _ x' pred' _ _ _ b' key' k' d' g' dd' hw'
            by_cases hx : x = x'
            · subst hx
              rw [hw] at hw'; cases hw'
              unfold Expecting; simp [World.setWaiter]
            · exact ⟨d, g, dd, by rw [setWaiter_other _ _ _ _ hx]; simpa using hw⟩
          · exact ⟨d, g, dd, by simpa using hw⟩
        · exact ⟨d, g, dd, by simpa using hw⟩
      · exact ⟨d, g, dd, by simpa using hw⟩
    case wiBegin x' b' =>
      simp [guard, checks, Checks.ok] at hg
      have hx : x ≠ x' := by intro hc; subst hc; exact hidle hg.2.1
      exact ⟨d, g, dd, by simp only [apply0]; rw [setWaiter_other _ _ _ _ hx]; exact hw⟩
    case wiJoined x' =>
      simp only [apply0]
      split
      · rename_i b' z i hw'
        have hx : x ≠ x' := by intro hc; subst hc; rw [hw] at hw'; cases hw'
        exact ⟨d, g, dd, by rw [setWaiter_other _ _ _ _ hx]; exact hw⟩
      · exact ⟨d, g, dd, hw⟩
    case wiIdle x' =>
      simp only [apply0]
      split
      · rename_i b' z hw'
        have hx : x ≠ x' := by intro hc; subst hc; rw [hw] at hw'; cases hw'
        exact ⟨d, g, dd, by rw [setWaiter_other _ _ _ _ hx]; exact hw⟩
      · exact ⟨d, g, dd, hw⟩
    case wiRecheck x' =>
      simp only [apply0]
      split
      · rename_i b' hw'
        have hx : x ≠ x' := by intro hc; subst hc; rw [hw] at hw'; cases hw'
        exact ⟨d, g, dd, by rw [setWaiter_other _ _ _ _ hx]; simpa using hw⟩
      · exact ⟨d, g, dd, hw⟩
    case wiEnd x' =>
      simp [guard, checks, Checks.ok] at hg
      have hx : x ≠ x' := by intro hc; subst hc; rw [hw] at hg; simp at hg
      exact ⟨d, g, dd, by simp only [apply0]; rw [setWaiter_other _ _ _ _ hx]; exact hw⟩
    case wiCancel x' =>
      simp [guard, checks, Checks.ok] at hg
      have hx : x ≠ x' := by intro hc; subst hc; rw [hw] at hg; simp at hg
      exact ⟨d, g, dd, by simp only [apply0]; rw [setWaiter_other _ _ _ _ hx]; exact hw⟩
    case stopBegin x' b' c =>
      simp [guard, checks, Checks.ok] at hg
      have hx : x ≠ x' := by intro hc; subst hc; exact hidle hg.2.1
      exact ⟨d, g, dd, by simp only [apply0]; rw [setWaiter_other _ _ _ _ hx]; simpa using hw⟩
    case stopNoop => exact ⟨d, g, dd, by simpa [apply0] using hw⟩
    case stopEnd x' =>
      simp only [apply0]
      split
      · rename_i b' dl clear hw'
        have hx : x ≠ x' := by intro hc; subst hc; rw [hw] at hw'; cases hw'
        refine ⟨d, g, dd, ?_⟩
        rw [setWaiter_other _ _ _ _ hx]
        cases clear <;> simpa using hw
      · exact ⟨d, g, dd, hw⟩
    case expectBegin x' b' key' k' pred to =>
      simp [guard, checks, Checks.ok] at hg
      have hx : x ≠ x' := by intro hc; subst hc; exact hidle hg.2.1
      exact ⟨d, g, dd, by simp only [apply0]; rw [setWaiter_other _ _ _ _ hx]; simpa using hw⟩
    case expectEnd x' got =>
      have hx : x ≠ x' := by intro hc; subst hc; simp [endsExpect] at hne
      simp only [apply0]
      split
      · exact ⟨d, g, dd, by rw [setWaiter_other _ _ _ _ hx]; simpa using hw⟩
      · exact ⟨d, g, dd, hw⟩
    case expectCancel x' =>
      have hx : x ≠ x' := by intro hc; subst hc; simp [endsExpect] at hne
      simp only [apply0]
      split
      · exact ⟨d, g, dd, by rw [setWaiter_other _ _ _ _ hx]; simpa using hw⟩
      · exact ⟨d, g, dd, hw⟩
    case expectTimeout x' =>
      simp only [apply0]
      split
      · rename_i b' key' k' d' dd' hw'
        by_cases hx : x = x'
        · subst hx; rw [hw] at hw'; cases hw'; unfold Expecting; simp [World.setWaiter]
        · exact ⟨d, g, dd, by rw [setWaiter_other _ _ _ _ hx]; exact hw⟩
      · exact ⟨d, g, dd, hw⟩
    case expectCancelReq x' =>
      simp only [apply0]
      split
      · rename_i b' key' k' d' dd' hw'
        by_cases hx : x = x'
        · subst hx; rw [hw] at hw'; cases hw'; unfold Expecting; simp [World.setWaiter]
        · exact ⟨d, g, dd, by rw [setWaiter_other _ _ _ _ hx]; exact hw⟩
      · exact ⟨d, g, dd, hw⟩


def matchesReg (key : Key) (k : HId) (r : Reg) : Bool := r.key == key && r.hid == k

/-- every registered `expect` handler belongs to its still pending call; it is the only registration with its (key, id) -/
structure EInv (w : World) : Prop where
  owner : ∀ b r x pred, r ∈ (w.bus b).handlers → r.kind = .expect x pred → Expecting w x b r.key r.hid
  uniq : ∀ b r, r ∈ (w.bus b).handlers → r.kind.isExpect = true →
    (w.bus b).handlers.countP (matchesReg r.key r.hid) ≤ 1

theorem countP_eraseP_of_mem {α : Type} (p : α → Bool) (l : List α) (r : α) (hr : r ∈ l.eraseP p) (hp : p r = true) :
    2 ≤ l.countP p := by
  induction l with
  | nil => simp at hr
  | cons a t ih =>
    by_cases ha : p a = true
    · simp only [List.eraseP_cons_of_pos ha] at hr
      have : 1 ≤ t.countP p := List.countP_pos_iff.mpr ⟨r, hr, hp⟩
      simp only [List.countP_cons_of_pos ha]; omega
    · have ha' : p a = false := by simpa using ha
      simp only [List.eraseP_cons, ha'] at hr
      simp only [List.countP_cons, ha']
      cases hr with
      | head => rw [hp] at ha'; cases ha'
      | tail _ h => simpa using ih h

/-- what the registry of a bus can become in one step: unchanged, shrunk, or extended by one registration -/
theorem einv_of (w w' : World) (hI : EInv w)
    (hkeep : ∀ x b key k, Expecting w x b key k → (∃ b' r, r ∈ (w'.bus b').handlers ∧ r.kind.isExpect = true ∧
        (∃ pred, r.kind = .expect x pred)) → Expecting w' x b key k)
    (hsub : ∀ b r, r ∈ (w'.bus b).handlers → r.kind.isExpect = true → r ∈ (w.bus b).handlers ∧
        (w'.bus b).handlers.countP (matchesReg r.key r.hid) ≤ (w.bus b).handlers.countP (matchesReg r.key r.hid)) :
    EInv w' := by
  refine ⟨?_, ?_⟩
  · intro b r x pred hr hk
    have hex : r.kind.isExpect = true := by rw [hk]; rfl
    obtain ⟨hold, _⟩ := hsub b r hr hex
    exact hkeep x b r.key r.hid (hI.owner b r x pred hold hk) ⟨b, r, hr, hex, pred, hk⟩
  · intro b r hr hex
    obtain ⟨hold, hle⟩ := hsub b r hr hex
    exact Nat.le_trans hle (hI.uniq b r hold hex)

/-- the end of an `expect()` call: its registration goes, the rest of the registry stays, the call is no longer pending -/
theorem einv_end (w : World) (x0 : Nat) (hI : EInv w) :
    EInv (match w.waiter x0 with
      | .expecting b key k _ _ _ =>
        (w.modBus b fun B => { B with handlers := B.handlers.eraseP fun r => r.key == key && r.hid == k }).setWaiter x0 .idle
      | _ => w) := by
  cases hw : w.waiter x0 with
  | expecting b0 key0 k0 d0 g0 dd0 =>
    simp only []
    have hh : ∀ b, (((w.modBus b0 fun B => { B with handlers := B.handlers.eraseP fun r => r.key == key0 && r.hid == k0 }).setWaiter x0 .idle).bus b).handlers
        = if b = b0 then (w.bus b0).handlers.eraseP (matchesReg key0 k0) else (w.bus b).handlers := by
      intro b; by_cases hb : b = b0
      · subst hb; simp [matchesReg]; rfl
      · simp [setBus_bus, hb]
    have hmem : ∀ b r, r ∈ (((w.modBus b0 fun B => { B with handlers := B.handlers.eraseP fun r => r.key == key0 && r.hid == k0 }).setWaiter x0 .idle).bus b).handlers
        → r ∈ (w.bus b).handlers := by
      intro b r hr; rw [hh] at hr
      by_cases hb : b = b0
      · subst hb; simp at hr; exact List.mem_of_mem_eraseP hr
      · simpa [hb] using hr
    refine ⟨?_, ?_⟩
    · intro b r x pred hr hk
      have hold := hI.owner b r x pred (hmem b r hr) hk
      by_cases hx : x = x0
      · -- the ended call's own registration cannot have survived: it was the only one with its (key, id)
        exfalso
        subst hx
        obtain ⟨d, g, dd, hwx⟩ := hold
        rw [hw] at hwx
        injection hwx with e1 e2 e3
        have hb : b = b0 := e1.symm
        rw [hh, if_pos hb, e2, e3] at hr
        have hp : matchesReg r.key r.hid r = true := by simp [matchesReg]
        have h2 := countP_eraseP_of_mem (matchesReg r.key r.hid) _ r hr hp
        have h1 := hI.uniq b0 r (List.mem_of_mem_eraseP hr) (by rw [hk]; rfl)
        omega
      · obtain ⟨d, g, dd, hwx⟩ := hold
        exact ⟨d, g, dd, by rw [setWaiter_other _ _ _ _ hx]; simpa using hwx⟩
    · intro b r hr hex
      have hold := hmem b r hr
      refine Nat.le_trans ?_ (hI.uniq b r hold hex)
      rw [hh]
      by_cases hb : b = b0
      · subst hb; simp only [if_true]; exact List.Sublist.countP_le List.eraseP_sublist
      · simp only [if_neg hb]; exact Nat.le_refl _
  | idle => exact hI
  | join _ _ _ => exact hI
  | idleWait _ _ => exact hI
  | check _ => exact hI
  | stopping _ _ _ => exact hI

theorem einv_apply0 (w : World) (l : Label) (hg : guard w l = true) (hI : EInv w) : EInv (apply0 w l) := by
  by_cases hw : writesHandlers l = false
  · refine einv_of w _ hI ?_ ?_
    · intro x b key k hx _
      refine apply0_keeps_expecting w l x b key k hg hx ?_
      cases l <;> simp [writesHandlers] at hw <;> rfl
    · intro b r hr _
      rw [apply0_handlers_frame w l b hw] at hr ⊢
      exact ⟨hr, Nat.le_refl _⟩
  · cases l <;> simp [writesHandlers] at hw
    case newBus b0 par maxh wal =>
      refine einv_of w _ hI ?_ ?_
      · intro x b key k hx _; exact apply0_keeps_expecting w _ x b key k hg hx rfl
      · intro b r hr _
        simp only [apply0] at hr ⊢
        by_cases hb : b = b0
        · subst hb; simp at hr
        · simp [setBus_bus, hb] at hr ⊢; exact hr
    case on b0 key0 k0 kind0 =>
      have hgg := hg
      simp [guard, checks, Checks.ok] at hgg
      obtain ⟨_, hkind, hfree⟩ := hgg
      refine einv_of w _ hI ?_ ?_
      · intro x b key k hx _; exact apply0_keeps_expecting w _ x b key k hg hx rfl
      · intro b r hr hex
        simp only [apply0] at hr ⊢
        by_cases hb : b = b0
        · subst hb
          simp [setBus_bus] at hr ⊢
          rcases hr with hr | hr
          · refine ⟨hr, ?_⟩
            have hne : matchesReg r.key r.hid { key := key0, hid := k0, kind := kind0 } = false := by
              have := hfree r hr
              simp [matchesReg]
              intro _ hk
              rw [hex] at this
              simp at this
              exact absurd hk.symm this
            simp [hne]
          · subst hr; simp at hex; rw [hex] at hkind; cases hkind
        · simp [setBus_bus, hb] at hr ⊢; exact hr
    case off b0 key0 k0 =>
      refine einv_of w _ hI ?_ ?_
      · intro x b key k hx _; exact apply0_keeps_expecting w _ x b key k hg hx rfl
      · intro b r hr _
        simp only [apply0] at hr ⊢
        by_cases hb : b = b0
        · subst hb
          have hh : ((w.modBus b fun B => { B with handlers := B.handlers.eraseP fun r => r.key == key0 && r.hid == k0 }).bus b).handlers
              = (w.bus b).handlers.eraseP fun r => r.key == key0 && r.hid == k0 := by simp
          rw [hh] at hr ⊢
          refine And.intro (List.mem_of_mem_eraseP hr) ?_
          exact List.Sublist.countP_le List.eraseP_sublist
        · simp [setBus_bus, hb] at hr ⊢; exact hr
    case stopEnd x0 =>
      refine einv_of w _ hI ?_ ?_
      · intro x b key k hx _; exact apply0_keeps_expecting w _ x b key k hg hx rfl
      · intro b r hr _
        simp only [apply0] at hr ⊢
        split at hr
        · rename_i b0 dl clear _
          cases clear
          · by_cases hb : b = b0 <;> simp [setBus_bus, hb] at hr ⊢ <;> exact hr
          · by_cases hb : b = b0
            · subst hb; simp [setBus_bus] at hr
            · simp [setBus_bus, hb] at hr ⊢; exact hr
        · simp at hr ⊢; exact hr
    case expectBegin x0 b0 key0 k0 pred0 to =>
      have hgg := hg
      simp [guard, checks, Checks.ok] at hgg
      obtain ⟨_, hidle, hfresh⟩ := hgg
      -- the new registration and its owner
      have hnew : Expecting (apply0 w (.expectBegin x0 b0 key0 k0 pred0 to)) x0 b0 key0 k0 := by
        unfold Expecting; simp [apply0, World.setWaiter]
      refine ⟨?_, ?_⟩
      · intro b r x pred hr hk
        simp only [apply0] at hr
        by_cases hb : b = b0
        · subst hb
          simp [setBus_bus] at hr
          rcases hr with hr | hr
          · have hold := hI.owner b r x pred hr hk
            have hx : x ≠ x0 := by
              intro hc; subst hc
              obtain ⟨d, g, dd, hwx⟩ := hold
              rw [hwx] at hidle; cases hidle
            exact apply0_keeps_expecting w _ x b r.key r.hid hg hold rfl
          · subst hr
            simp at hk
            obtain ⟨hx, _⟩ := hk
            subst hx
            exact hnew
        · simp [setBus_bus, hb] at hr
          have hold := hI.owner b r x pred hr hk
          exact apply0_keeps_expecting w _ x b r.key r.hid hg hold rfl
      · intro b r hr hex
        simp only [apply0] at hr ⊢
        by_cases hb : b = b0
        · subst hb
          simp [setBus_bus] at hr ⊢
          rcases hr with hr | hr
          · have hne : matchesReg r.key r.hid { key := key0, hid := k0, kind := .expect x0 pred0 } = false := by
              simp [matchesReg]
              intro _ hk
              exact absurd hk.symm (hfresh r hr)
            simp [hne]
            exact hI.uniq b r hr hex
          · subst hr
            have h0 : (w.bus b).handlers.countP (matchesReg key0 k0) = 0 := by
              rw [List.countP_eq_zero]
              intro a ha
              simp [matchesReg]
              intro _ hk
              exact absurd hk (hfresh a ha)
            simp [h0, matchesReg]
        · simp [setBus_bus, hb] at hr ⊢
          exact hI.uniq b r hr hex
    case expectEnd x0 got => simp only [apply0]; exact einv_end w x0 hI
    case expectCancel x0 => simp only [apply0]; exact einv_end w x0 hI



theorem wake_keeps_expecting (w : World) (x : Nat) (b : BId) (key : Key) (k : HId) (h : Expecting w x b key k) :
    Expecting (wake w) x b key k := by
  unfold wake
  generalize List.range w.nx = l
  induction l generalizing w with
  | nil => exact h
  | cons x' t ih =>
    simp only [List.foldl_cons]
    apply ih
    obtain ⟨d, g, dd, hw⟩ := h
    have hx : ∀ s, (∃ b' z i, w.waiter x' = .join b' z i) ∨ (∃ b' z, w.waiter x' = .idleWait b' z) →
        (w.setWaiter x' s).waiter x = w.waiter x := by
      intro s hcase
      have : x ≠ x' := by
        intro hc; subst hc
        rcases hcase with ⟨b', z, i, h1⟩ | ⟨b', z, h1⟩ <;> rw [hw] at h1 <;> cases h1
      exact setWaiter_other _ _ _ _ this
    refine ⟨d, g, dd, ?_⟩
    split
    · rename_i b' z i hw'
      split
      · rw [hx _ (Or.inl ⟨b', z, i, hw'⟩)]; exact hw
      · exact hw
    · rename_i b' hw'
      split
      · rw [hx _ (Or.inr ⟨b', false, hw'⟩)]; exact hw
      · exact hw
    · exact hw

theorem einv_wake (w : World) (h : EInv w) : EInv (wake w) := by
  refine ⟨?_, ?_⟩
  · intro b r x pred hr hk
    simp only [wake_bus] at hr
    exact wake_keeps_expecting w x b r.key r.hid (h.owner b r x pred hr hk)
  · intro b r hr hex
    simp only [wake_bus] at hr ⊢
    exact h.uniq b r hr hex

theorem einv_step (w w' : World) (l : Label) (hI : EInv w) (hs : step w l = some w') : EInv w' := by
  obtain ⟨hg, rfl⟩ := step_some hs
  exact einv_wake _ (einv_apply0 w l hg hI)

theorem einv_init : EInv ({} : World) := by
  refine ⟨?_, ?_⟩ <;> intro b r <;> intros <;> simp_all [World.bus]

theorem einv_run (w w' : World) (ls : List Label) (hI : EInv w) (h : run w ls = some w') : EInv w' := by
  induction ls generalizing w with
  | nil => simp [run] at h; subst h; exact hI
  | cons l ls ih =>
    simp only [run] at h
    cases hs : step w l with
    | none => simp [hs] at h
    | some w1 => simp only [hs] at h; exact ih w1 (einv_step w w1 l hI hs) h

theorem einv_reachable (w : World) (hr : Reachable w) : EInv w := by
  obtain ⟨ls, h⟩ := hr
  exact einv_run {} w ls einv_init h

namespace Thm

/-- C18 "the temporary subscription is removed when the call ends", for every reachable state: a handler of kind `expect x`
    is registered on a bus only while the call `x` is still blocked in `expect()` on exactly that bus, with exactly that key
    and handler id. No subscription of an `expect()` call is ever left behind - whichever way the call ended (match,
    timeout, cancellation of the caller) and whatever happened on the bus in between. -/
theorem C18_a_registered_expect_handler_belongs_to_a_pending_call (w : World) (hr : Reachable w) (b : BId) (r : Reg)
    (x pred : Nat) (hmem : r ∈ (w.bus b).handlers) (hk : r.kind = .expect x pred) :
    ∃ d g dead, w.waiter x = .expecting b r.key r.hid d g dead :=
  (einv_reachable w hr).owner b r x pred hmem hk

/-- … in particular a task that is not inside `expect()` (idle, or blocked in another bus call) has no subscription
    anywhere. -/
theorem C18_no_subscription_without_a_pending_call (w : World) (hr : Reachable w) (x : Nat)
    (hidle : ∀ b key k d g dead, w.waiter x ≠ .expecting b key k d g dead) (b : BId) (r : Reg) (pred : Nat)
    (hmem : r ∈ (w.bus b).handlers) : r.kind ≠ .expect x pred := by
  intro hk
  obtain ⟨d, g, dead, h⟩ := C18_a_registered_expect_handler_belongs_to_a_pending_call w hr b r x pred hmem hk
  exact hidle _ _ _ _ _ _ h

/-- … and a pending call has at most one subscription: its registration is the only one on its bus with its key and id. -/
theorem C18_the_subscription_of_a_call_is_unique (w : World) (hr : Reachable w) (b : BId) (r : Reg)
    (hmem : r ∈ (w.bus b).handlers) (hk : r.kind.isExpect = true) :
    (w.bus b).handlers.countP (fun r' => r'.key == r.key && r'.hid == r.hid) ≤ 1 :=
  (einv_reachable w hr).uniq b r hmem hk

end Thm

end Bubus
