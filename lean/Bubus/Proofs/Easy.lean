/-
  Bubus.Proofs.Easy — property theorems that follow from a single step of the model.
  Names: `Bubus.Thm.<property>_<what>`; the audit (`Bubus/Audit.lean`) lists every constant in `Bubus.Thm`.
-/
import Bubus.Proofs.Dispatch
import Bubus.Spec.Monitors
namespace Bubus

theorem applyDispatch_parent (w : World) (p : Proc) (b : BId) (e : EId) (res : DRes) (x : EId) :
    ((applyDispatch w p b e res).ev x).parent = ((dParent w (ctxOf w p) e).ev x).parent := by
  unfold applyDispatch
  cases res <;> simp [cleanup_ev, dChild_parent, dEnqueue_ev, dFwd_ev, dPath_parent]

theorem guard_iff (w : World) (l : Label) : guard w l = true ↔ ∀ c ∈ checks w l, c.2 = true := by
  simp [guard, Checks.ok, List.all_eq_true]

namespace Thm

/-- C02 (take order): whoever takes from a bus's queue — the run loop or an awaiting handler — takes its head,
    and the queue loses exactly that element. -/
theorem C02_take_is_head (w w' : World) (p : Proc) (b : BId) (e : EId)
    (h : step w (.take p b e) = some w') :
    (w.bus b).queue = e :: (w'.bus b).queue := by
  obtain ⟨hg, rfl⟩ := step_some h
  simp only [guard, checks, Checks.ok, List.all_cons, List.all_nil, Bool.and_true, Bool.and_eq_true, beq_iff_eq] at hg
  obtain ⟨_, hq, _⟩ := hg
  cases hq' : (w.bus b).queue with
  | nil => simp [hq'] at hq
  | cons x q =>
    simp [hq'] at hq
    subst hq
    cases p <;> simp [apply, apply0, hq']

/-- C09 (a): a dispatch from inside a handler of event `ce` gives a parentless event `e ≠ ce` the parent `ce`. -/
theorem C09_parent_from_handler (w : World) (i : IId) (b : BId) (e : EId) (res : DRes)
    (hp : (w.ev e).parent = none) (hne : (w.inst i).ev ≠ e) :
    ((apply w (.dispatch (.inst i) b e res)).ev e).parent = some (w.inst i).ev := by
  show ((wake (applyDispatch w _ b e res)).ev e).parent = _
  rw [wake_ev]
  rw [applyDispatch_parent, dParent_parent]
  simp [ctxOf, hp, hne]

/-- C09 (b): a dispatch from ordinary (non-handler) code never gives an event a parent. -/
theorem C09_no_parent_from_ordinary_code (w : World) (b : BId) (e : EId) (res : DRes) (x : EId) :
    ((apply w (.dispatch .ext b e res)).ev x).parent = (w.ev x).parent := by
  show ((wake (applyDispatch w _ b e res)).ev x).parent = _
  rw [wake_ev]
  rw [applyDispatch_parent, dParent_parent]
  simp [ctxOf]

/-- C09 (c): an explicitly supplied (or earlier recorded) parent is never overwritten by a dispatch,
    whoever dispatches, whatever the outcome. -/
theorem C09_parent_never_overwritten (w : World) (p : Proc) (b : BId) (e : EId) (res : DRes) (x y : EId)
    (hp : (w.ev x).parent = some y) :
    ((apply w (.dispatch p b e res)).ev x).parent = some y := by
  show ((wake (applyDispatch w _ b e res)).ev x).parent = _
  rw [wake_ev]
  rw [applyDispatch_parent, dParent_parent]
  by_cases hx : x = e
  · subst hx; simp [hp]
  · simp [hx, hp]

/-- C09 (d): forwarding — or any dispatch — never makes an event its own parent. -/
theorem C09_never_own_parent (w : World) (p : Proc) (b : BId) (e : EId) (res : DRes) (x : EId)
    (hp : (w.ev x).parent ≠ some x) :
    ((apply w (.dispatch p b e res)).ev x).parent ≠ some x := by
  show ((wake (applyDispatch w _ b e res)).ev x).parent ≠ _
  rw [wake_ev]
  rw [applyDispatch_parent, dParent_parent]
  split
  · rename_i h
    obtain ⟨hx, _, c, hc, hne⟩ := h
    subst hx
    simp [hc]
    exact hne
  · exact hp

end Thm
end Bubus
