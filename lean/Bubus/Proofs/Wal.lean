/-
  Bubus.Proofs.Wal — C17: every line of a bus's write-ahead log belongs to an event that bus has taken from its queue for
  processing, as an invariant of all reachable states (together with the facts it needs: whatever an executor has in hand -
  an event taken by a run loop or by an awaiting handler, an open activation - was taken from that bus's queue).
-/
import Bubus.Proofs.Expect
namespace Bubus

/-! ### the log only grows by `walWrite` -/

def writesWal : Label → Bool
  | .newBus .. | .walWrite .. => true
  | _ => false

theorem cleanup_wal (w : World) (b b' : BId) : ((cleanup w b).bus b').walLines = (w.bus b').walLines := by
  by_cases hb : b' = b <;> simp [cleanup, hb, setBus_bus]

theorem dEnqueue_wal (w : World) (b : BId) (e : EId) (b' : BId) :
    ((dEnqueue w b e).bus b').walLines = (w.bus b').walLines := by
  by_cases hb : b' = b <;> simp [dEnqueue, hb, setBus_bus]

theorem applyDispatch_wal (w : World) (p : Proc) (b : BId) (e : EId) (res : DRes) (b' : BId) :
    ((applyDispatch w p b e res).bus b').walLines = (w.bus b').walLines := by
  unfold applyDispatch
  cases res <;> simp only [] <;>
    first
    | (rw [cleanup_wal, dChild_bus, dEnqueue_wal, dFwd_bus, dPath_bus, dParent_bus])
    | (rw [dFwd_bus, dPath_bus, dParent_bus])

theorem peClose_wal (w : World) (p : Proc) (b : BId) (e : EId) (b' : BId) :
    ((peClose w p b e).bus b').walLines = (w.bus b').walLines := by
  unfold peClose
  by_cases hb : b' = b
  · subst hb; simp [setBus_bus, cleanup_wal, parentWalk_bus, markComplete_bus]
  · simp [setBus_bus, hb, cleanup_wal, parentWalk_bus, markComplete_bus]

theorem releaseRl_wal (w : World) (b b' : BId) : ((releaseRl w b).bus b').walLines = (w.bus b').walLines := by
  unfold releaseRl rlIdleCheck rlBack; split <;> by_cases hb : b' = b <;> simp [setBus_bus, hb]

theorem apply0_wal_frame (w : World) (l : Label) (b : BId) (h : writesWal l = false) :
    ((apply0 w l).bus b).walLines = (w.bus b).walLines := by
  cases l <;> simp [writesWal] at h
  case on b' key k kind => by_cases hb : b = b' <;> simp [apply0, hb, setBus_bus]
  case off b' key k => by_cases hb : b = b' <;> simp [apply0, hb, setBus_bus]
  case newEvent => simp [apply0]
  case tick => simp [apply0]
  case rlCreate b' => by_cases hb : b = b' <;> simp [apply0, hb, setBus_bus]
  case dispatch p b' e res => exact applyDispatch_wal w p b' e res b
  case take p b' e =>
    cases p <;> by_cases hb : b = b' <;> simp [apply0, hb, setBus_bus]
  case peBegin p b' e =>
    show ((peOpen (peEnter w p b') p b' e).bus b).walLines = _
    rw [peOpen_bus]
    cases p <;> simp [peEnter]
    by_cases hb : b = b' <;> simp [hb, setBus_bus]
  case peRecTrip p b' e =>
    cases p <;> simp [apply0, rlBack, setBus_bus] <;> split <;> simp_all
  case hSched p i b' e k =>
    show ((applySched w p i b' e k).bus b).walLines = _
    unfold applySched
    cases hA : w.act p <;> simp
  case hStart => simp [apply0]
  case hCancel => simp [apply0]
  case hEnd i out =>
    simp only [apply0]
    split <;> (try split) <;> (try split) <;> simp
  case hFinish i r =>
    simp only [apply0, applyFinish]
    cases hA : w.act (w.inst i).exec <;> simp [hA] <;> split <;> simp [cancelPendingChildren_bus]
  case peEnd p b' e =>
    cases p <;> simp only [apply0] <;> (try rw [releaseRl_wal]) <;> exact peClose_wal _ _ _ _ _
  case peAbort p b' e =>
    cases p <;> simp [apply0, setBus_bus] <;> split <;> simp_all
  case awaitBegin => simp [apply0]
  case pollYield => simp [apply0]
  case awaitEnd => simp [apply0]
  case xAwaitEnd => simp [apply0]
  case readBus => simp [apply0]
  case rlWake b' => by_cases hb : b = b' <;> simp [apply0, hb, setBus_bus]
  case rlPoll b' =>
    simp only [apply0, rlIdleCheck]
    split <;> by_cases hb : b = b' <;> simp [hb, setBus_bus]
  case wiBegin => simp [apply0]
  case wiJoined x => simp only [apply0]; split <;> simp
  case wiIdle x => simp only [apply0]; split <;> simp
  case wiRecheck x =>
    simp only [apply0]
    split
    · rename_i b' _; by_cases hb : b = b' <;> simp [hb, setBus_bus]
    · simp
  case wiEnd => simp [apply0]
  case wiCancel => simp [apply0]
  case expectTimeout x' => simp only [apply0]; split <;> simp
  case expectCancelReq x' => simp only [apply0]; split <;> simp
  case hSkip p_ b_ e_ k_ => simp only [apply0]; split <;> simp
  case stopBegin x b' c => by_cases hb : b = b' <;> simp [apply0, hb, setBus_bus]
  case stopNoop => simp [apply0]
  case stopEnd x =>
    simp only [apply0]
    split
    · rename_i b' _ clear _; cases clear <;> by_cases hb : b = b' <;> simp [hb, setBus_bus]
    · simp
  case rlExit b' =>
    simp only [apply0, rlIdleCheck]
    split <;> (try split) <;> by_cases hb : b = b' <;> simp [hb, setBus_bus]
  case cancelRl b' => by_cases hb : b = b' <;> simp [apply0, hb, setBus_bus]
  case rlCancelled b' => by_cases hb : b = b' <;> simp [apply0, hb, setBus_bus]
  case rlDropExit b' =>
    simp only [apply0, rlIdleCheck]
    split <;> by_cases hb : b = b' <;> simp [hb, setBus_bus]
  case expectBegin x b' key k pred to => by_cases hb : b = b' <;> simp [apply0, hb, setBus_bus]
  case expectEnd x got =>
    simp only [apply0]
    split
    · rename_i b' _ _ _ _ _ _; by_cases hb : b = b' <;> simp [hb, setBus_bus]
    · simp
  case expectCancel x =>
    simp only [apply0]
    split
    · rename_i b' _ _ _ _ _ _; by_cases hb : b = b' <;> simp [hb, setBus_bus]
    · simp

/-! ### where an instance's event in hand comes from -/

theorem took_setInst (w : World) (i j : IId) (x : Inst) (h : x.took = (w.inst i).took) :
    ((w.setInst i x).inst j).took = (w.inst j).took := by
  rw [setInst_inst]; split
  · rename_i hji; rw [hji]; exact h
  · rfl

theorem dFwd_took (w : World) (p : Proc) (j : IId) : ((dFwd w p).inst j).took = (w.inst j).took := by
  unfold dFwd
  split
  · split
    · exact took_setInst _ _ _ _ rfl
    · rfl
  · rfl

/-- an instance has an event in hand only because it took it (`take`), and keeps it until it begins it -/
theorem apply0_inst_took (w : World) (l : Label) (j : IId) (b : BId) (e : EId) (hg : guard w l = true)
    (h : ((apply0 w l).inst j).took = some (b, e)) : (w.inst j).took = some (b, e) ∨ l = .take (.inst j) b e := by
  cases l
  case hSched p i b' e' k =>
    left
    have h' : ((applySched w p i b' e' k).inst j).took = some (b, e) := h
    unfold applySched at h'
    by_cases hji : j = i
    · subst hji; cases hA : w.act p <;> simp [hA] at h'
    · cases hA : w.act p <;> simp [hA, hji] at h' <;> exact h'
  case dispatch p b' e' res =>
    left
    have h' : ((applyDispatch w p b' e' res).inst j).took = some (b, e) := h
    unfold applyDispatch at h'
    cases res <;> simp only [cleanup_inst, dChild_inst, dEnqueue_inst] at h' <;>
      (rw [dFwd_took, dPath_inst, dParent_inst] at h'; exact h')
  case peBegin p b' e' =>
    left
    have h' : ((peOpen (peEnter w p b') p b' e').inst j).took = some (b, e) := h
    rw [peOpen_inst] at h'
    cases p
    · simpa [peEnter] using h'
    · rename_i i
      by_cases hji : j = i
      · subst hji; simp [peEnter] at h'
      · simpa [peEnter, hji] using h'
    · simpa [peEnter] using h'
  case peEnd p b' e' =>
    left
    simp only [apply0] at h
    cases p <;> simpa only [releaseRl_inst, peClose_inst] using h
  case hFinish i r =>
    left
    have h' : ((applyFinish w i r).inst j).took = some (b, e) := h
    unfold applyFinish at h'
    simp only [] at h'
    have key : ∀ w2 : World, w2.inst = (w.modEv (w.inst i).ev fun E => E.updRes (w.inst i).bus (w.inst i).hid fun x =>
        { x with status := r.status, err := r.err }).inst → ((w2.setInst i { w.inst i with st := .finished }).inst j).took = (w.inst j).took := by
      intro w2 hw2
      by_cases hji : j = i
      · subst hji; simp
      · simp [hji, hw2]
    cases hA : w.act (w.inst i).exec <;> simp only [hA] at h' <;> split at h' <;>
      simp only [cancelPendingChildren_inst, setAct_inst, setStack_inst] at h' <;>
      (rw [key _ rfl] at h'; exact h')
  case take p b' e' =>
    cases p
    · left; simpa [apply0] using h
    · rename_i i
      by_cases hji : j = i
      · subst hji
        simp [apply0] at h
        right; rw [h.1, h.2]
      · left; simpa [apply0, hji] using h
    · left; simpa [apply0] using h
  case peRecTrip p b' e' =>
    left
    cases p
    · simpa [apply0, rlBack] using h
    · rename_i i
      by_cases hji : j = i
      · subst hji; simp [apply0] at h
      · simpa [apply0, hji] using h
    · simpa [apply0] using h
  case hStart i =>
    left; by_cases hji : j = i
    · subst hji; simpa [apply0] using h
    · simpa [apply0, hji] using h
  case hCancel i =>
    left; by_cases hji : j = i
    · subst hji; simpa [apply0] using h
    · simpa [apply0, hji] using h
  case hEnd i out =>
    left
    simp only [apply0] at h
    have key : ((w.modInst i fun I => { I with st := .ended, out := out }).inst j).took = (w.inst j).took := by
      by_cases hji : j = i
      · subst hji; simp
      · simp [hji]
    split at h <;> (try split at h) <;> (try split at h) <;> (try simp only [setWaiter_inst] at h) <;> (rw [key] at h; exact h)
  case awaitBegin i c =>
    left; by_cases hji : j = i
    · subst hji; simpa [apply0] using h
    · simpa [apply0, hji] using h
  case pollYield i =>
    left; by_cases hji : j = i
    · subst hji; simpa [apply0] using h
    · simpa [apply0, hji] using h
  case awaitEnd i c =>
    left; by_cases hji : j = i
    · subst hji; simpa [apply0] using h
    · simpa [apply0, hji] using h
  case walWrite p b' e' ok => left; simp only [apply0] at h; cases hA : w.act p <;> cases ok <;> simpa [hA] using h
  case peAbort p b' e' => left; cases p <;> simpa [apply0] using h
  case rlPoll b' => left; simp only [apply0, rlIdleCheck] at h; split at h <;> simpa using h
  case wiJoined x => left; simp only [apply0] at h; split at h <;> simpa using h
  case wiIdle x => left; simp only [apply0] at h; split at h <;> simpa using h
  case wiRecheck x => left; simp only [apply0] at h; split at h <;> simpa using h
  case expectTimeout x' => left; simp only [apply0] at h; split at h <;> simpa using h
  case expectCancelReq x' => left; simp only [apply0] at h; split at h <;> simpa using h
  case hSkip p_ b_ e_ k_ => left; simp only [apply0] at h; split at h <;> simpa using h
  case stopEnd x => left; simp only [apply0] at h; split at h <;> (try split at h) <;> simpa using h
  case rlExit b' => left; simp only [apply0, rlIdleCheck] at h; split at h <;> (try split at h) <;> simpa using h
  case rlDropExit b' => left; simp only [apply0, rlIdleCheck] at h; split at h <;> simpa using h
  case expectEnd x got => left; simp only [apply0] at h; split at h <;> simpa using h
  case expectCancel x => left; simp only [apply0] at h; split at h <;> simpa using h
  all_goals (left; simpa [apply0] using h)


/-! ### where a run loop's event in hand and an activation come from -/

theorem apply0_rl_took (w : World) (l : Label) (b : BId) (e : EId) (hg : guard w l = true)
    (h : ((apply0 w l).bus b).rl = .took e) : (w.bus b).rl = .took e ∨ ∃ b0, l = .take (.rl b0) b e := by
  by_cases hw : writesRl l = false
  · left; rw [apply0_rl_frame w l b hw] at h; exact h
  · cases l <;> simp [writesRl] at hw
    case newBus b0 par maxh wal =>
      left
      by_cases hb : b = b0
      · subst hb; simp [apply0] at h
      · simpa [apply0, setBus_bus, hb] using h
    case rlCreate b0 =>
      left
      by_cases hb : b = b0
      · subst hb; simp [apply0] at h
      · simpa [apply0, setBus_bus, hb] using h
    case take p b0 e0 =>
      cases p <;> simp [writesRl] at hw
      rename_i b1
      by_cases hb : b = b0
      · subst hb
        simp [apply0] at h
        right; exact ⟨b1, by rw [h]⟩
      · left; simpa [apply0, setBus_bus, hb] using h
    case peBegin p b0 e0 =>
      cases p <;> simp [writesRl] at hw
      left
      have h' : ((peOpen (peEnter w (.rl _) b0) (.rl _) b0 e0).bus b).rl = .took e := h
      rw [peOpen_bus] at h'
      by_cases hb : b = b0
      · subst hb; simp [peEnter] at h'
      · simpa [peEnter, setBus_bus, hb] using h'
    case peRecTrip p b0 e0 =>
      cases p <;> simp [writesRl] at hw
      rename_i b1
      left
      by_cases hb : b = b1
      · subst hb; simp [apply0, rlBack] at h; split at h <;> cases h
      · simpa [apply0, rlBack, setBus_bus, hb] using h
    case peEnd p b0 e0 =>
      cases p <;> simp [writesRl] at hw
      rename_i b1
      left
      simp only [apply0] at h
      by_cases hb : b = b1
      · subst hb
        unfold releaseRl rlIdleCheck rlBack at h
        split at h <;> simp at h <;> split at h <;> cases h
      · rw [releaseRl_bus_other _ _ _ hb, peClose_rl] at h; exact h
    case peAbort p b0 e0 =>
      cases p <;> simp [writesRl] at hw
      rename_i b1
      left
      by_cases hb : b = b1
      · subst hb; simp [apply0] at h
      · simpa [apply0, setBus_bus, hb] using h
    case rlExit b0 =>
      left
      by_cases hb : b = b0
      · subst hb
        simp only [apply0, rlIdleCheck] at h
        split at h <;> (try split at h) <;> simp at h
      · have : ((apply0 w (.rlExit b0)).bus b).rl = (w.bus b).rl := by
          simp only [apply0, rlIdleCheck]
          split <;> (try split) <;> simp [setBus_bus, hb]
        rw [this] at h; exact h
    case rlCancelled b0 =>
      left
      by_cases hb : b = b0
      · subst hb; simp [apply0] at h
      · simpa [apply0, setBus_bus, hb] using h
    case rlDropExit b0 =>
      left
      by_cases hb : b = b0
      · subst hb
        simp only [apply0, rlIdleCheck] at h
        split at h <;> simp at h
      · have : ((apply0 w (.rlDropExit b0)).bus b).rl = (w.bus b).rl := by
          simp only [apply0, rlIdleCheck]
          split <;> simp [setBus_bus, hb]
        rw [this] at h; exact h

theorem apply0_act_origin (w : World) (l : Label) (p : Proc) (A' : Act) (hg : guard w l = true)
    (h : (apply0 w l).act p = some A') :
    (∃ A, w.act p = some A ∧ A.ev = A'.ev ∧ A.bus = A'.bus) ∨ (∃ b e, l = .peBegin p b e ∧ A'.bus = b ∧ A'.ev = e) := by
  by_cases hw : writesAct l = false
  · left; rw [apply0_act_frame w l hw] at h; exact ⟨A', h, rfl, rfl⟩
  · cases l <;> simp [writesAct] at hw
    case peBegin q b e =>
      simp only [apply0] at h
      by_cases hp : p = q
      · subst hp
        rw [peOpen_act_same] at h
        cases h
        right; exact ⟨b, e, rfl, rfl, rfl⟩
      · rw [peOpen_act_other _ _ _ _ _ hp, peEnter_act] at h
        left; exact ⟨A', h, rfl, rfl⟩
    case hSched q i b e k =>
      simp only [apply0] at h
      by_cases hp : p = q
      · subst hp
        have hgg := hg
        simp [guard, checks, Checks.ok, actIs] at hgg
        cases hA : w.act p with
        | none => simp [hA] at hgg
        | some A =>
          rw [applySched_act_same _ _ _ _ _ _ A hA] at h
          cases h
          left; exact ⟨A, rfl, rfl, rfl⟩
      · rw [applySched_act_other _ _ _ _ _ _ _ hp] at h
        left; exact ⟨A', h, rfl, rfl⟩
    case hFinish i r =>
      simp only [apply0] at h
      by_cases hp : p = (w.inst i).exec
      · have hgg := hg
        simp [guard, checks, Checks.ok] at hgg
        cases hA : w.act (w.inst i).exec with
        | none => simp [hA] at hgg
        | some A =>
          rw [hp, applyFinish_act_same _ _ _ A hA] at h
          cases h
          left; exact ⟨A, by rw [hp]; exact hA, rfl, rfl⟩
      · rw [applyFinish_act_other _ _ _ _ hp] at h
        left; exact ⟨A', h, rfl, rfl⟩
    case walWrite q b e ok =>
      simp only [apply0] at h
      by_cases hp : p = q
      · subst hp
        cases hA : w.act p with
        | none => cases ok <;> simp [hA] at h
        | some A =>
          have : A' = { A with walDone := true } := by cases ok <;> simp [hA] at h <;> exact h.symm
          subst this
          left; exact ⟨A, rfl, rfl, rfl⟩
      · left
        refine ⟨A', ?_, rfl, rfl⟩
        cases hA : w.act q <;> cases ok <;> simp [hA, hp] at h <;> exact h
    case peEnd q b e =>
      simp only [apply0] at h
      have hh : (peClose w q b e).act p = some A' := by cases q <;> simpa [releaseRl_act] using h
      rw [peClose_act] at hh
      by_cases hp : p = q
      · subst hp; simp at hh
      · left; exact ⟨A', by simpa [hp] using hh, rfl, rfl⟩
    case peAbort q b e =>
      by_cases hp : p = q
      · subst hp; cases p <;> simp [apply0] at h
      · left; refine ⟨A', ?_, rfl, rfl⟩
        cases q <;> simpa [apply0, hp] using h
    case hSkip q b e k =>
      simp only [apply0] at h
      by_cases hp : p = q
      · subst hp
        cases hA : w.act p with
        | none => simp [hA] at h
        | some A =>
          simp [hA] at h
          left; exact ⟨A, rfl, by rw [← h], by rw [← h]⟩
      · left; refine ⟨A', ?_, rfl, rfl⟩
        cases hA : w.act q <;> simpa [hA, hp] using h

/-! ### what a bus has taken only grows -/

theorem apply0_taken_mono (w : World) (l : Label) (b : BId) (x : EId)
    (hnb : ∀ b' par maxh wal, l = .newBus b' par maxh wal → b ≠ b') (h : x ∈ (w.bus b).taken) :
    x ∈ ((apply0 w l).bus b).taken := by
  by_cases hw : writesQueue l = false
  · have := apply0_queue_frame w l b hw
    simp only [qview, Prod.mk.injEq] at this
    rw [this.2.2]; exact h
  · cases l <;> simp [writesQueue] at hw
    case newBus b0 par maxh wal =>
      have hb := hnb b0 par maxh wal rfl
      simpa [apply0, setBus_bus, hb] using h
    case dispatch p b0 e res =>
      cases res <;> simp at hw
      show x ∈ ((applyDispatch w p b0 e .ok).bus b).taken
      simp only [applyDispatch]
      have h1 := cleanup_qview (dChild (dEnqueue (dFwd (dPath (dParent w (ctxOf w p) e) b0 e) p) b0 e) (ctxOf w p) e) b0 b
      simp only [qview, Prod.mk.injEq] at h1
      rw [h1.2.2, dChild_bus]
      by_cases hb : b = b0
      · subst hb
        have hq := dEnqueue_qview (dFwd (dPath (dParent w (ctxOf w p) e) b e) p) b e
        simp only [qview, Prod.mk.injEq] at hq
        rw [hq.2.2, dFwd_bus, dPath_bus, dParent_bus]; exact h
      · rw [dEnqueue_bus_other _ _ _ _ hb, dFwd_bus, dPath_bus, dParent_bus]; exact h
    case take p b0 e =>
      by_cases hb : b = b0
      · subst hb; cases p <;> simp [apply0, h]
      · cases p <;> simpa [apply0, setBus_bus, hb] using h

theorem take_adds (w : World) (p : Proc) (b : BId) (e : EId) : e ∈ ((apply0 w (.take p b e)).bus b).taken := by
  cases p <;> simp [apply0]


/-! ### the invariant -/

/-- whatever is in some executor's hand on bus `b`, and every line of `b`'s log, is an event `b` has taken from its queue -/
structure WInv (w : World) : Prop where
  act : ∀ p A, w.act p = some A → A.bus < w.nb ∧ A.ev ∈ (w.bus A.bus).taken
  rl : ∀ b e, (w.bus b).rl = .took e → b < w.nb ∧ e ∈ (w.bus b).taken
  inst : ∀ i b e, (w.inst i).took = some (b, e) → b < w.nb ∧ e ∈ (w.bus b).taken
  wal : ∀ b e, e ∈ (w.bus b).walLines → b < w.nb ∧ e ∈ (w.bus b).taken

theorem winv_apply0 (w : World) (l : Label) (hg : guard w l = true) (hI : WInv w) : WInv (apply0 w l) := by
  have hnb : w.nb ≤ (apply0 w l).nb := by rw [apply0_nb]; cases l <;> simp
  -- a bus that exists is not the one a `newBus` label creates
  have hnew : ∀ b, b < w.nb → ∀ b' par maxh wal, l = .newBus b' par maxh wal → b ≠ b' := by
    intro b hb b' par maxh wal hl
    subst hl
    simp [guard, checks, Checks.ok] at hg
    subst hg
    exact Nat.ne_of_lt hb
  have keep : ∀ b x, b < w.nb → x ∈ (w.bus b).taken → b < (apply0 w l).nb ∧ x ∈ ((apply0 w l).bus b).taken :=
    fun b x hb hx => ⟨Nat.lt_of_lt_of_le hb hnb, apply0_taken_mono w l b x (hnew b hb) hx⟩
  refine ⟨?_, ?_, ?_, ?_⟩
  · intro p A' hA'
    rcases apply0_act_origin w l p A' hg hA' with ⟨A, hA, he, hb⟩ | ⟨b, e, hl, hb, he⟩
    · obtain ⟨h1, h2⟩ := hI.act p A hA
      rw [← he, ← hb]; exact keep _ _ h1 h2
    · subst hl
      rw [hb, he]
      cases p with
      | rl b0 =>
        have hgg := hg
        simp [guard, checks, Checks.ok] at hgg
        obtain ⟨_, ⟨⟨⟨hb0, htook⟩, _⟩, _⟩, _⟩ := hgg
        obtain ⟨h1, h2⟩ := hI.rl b e htook
        exact keep _ _ h1 h2
      | inst i =>
        have hgg := hg
        simp [guard, checks, Checks.ok] at hgg
        obtain ⟨_, htook, _⟩ := hgg
        obtain ⟨h1, h2⟩ := hI.inst i b e htook
        exact keep _ _ h1 h2
      | ext =>
        have hgg := hg
        simp [guard, checks, Checks.ok] at hgg
  · intro b e h
    rcases apply0_rl_took w l b e hg h with h0 | ⟨b0, hl⟩
    · obtain ⟨h1, h2⟩ := hI.rl b e h0; exact keep _ _ h1 h2
    · subst hl
      have hgg := hg
      simp [guard, checks, Checks.ok] at hgg
      exact ⟨Nat.lt_of_lt_of_le hgg.1 hnb, take_adds w _ b e⟩
  · intro i b e h
    rcases apply0_inst_took w l i b e hg h with h0 | hl
    · obtain ⟨h1, h2⟩ := hI.inst i b e h0; exact keep _ _ h1 h2
    · subst hl
      have hgg := hg
      simp [guard, checks, Checks.ok] at hgg
      exact ⟨Nat.lt_of_lt_of_le hgg.1 hnb, take_adds w _ b e⟩
  · intro b e h
    by_cases hw : writesWal l = false
    · rw [apply0_wal_frame w l b hw] at h
      obtain ⟨h1, h2⟩ := hI.wal b e h; exact keep _ _ h1 h2
    · cases l <;> simp [writesWal] at hw
      case newBus b0 par maxh wal =>
        by_cases hb : b = b0
        · subst hb; simp [apply0] at h
        · have h' : e ∈ (w.bus b).walLines := by simpa [apply0, setBus_bus, hb] using h
          obtain ⟨h1, h2⟩ := hI.wal b e h'; exact keep _ _ h1 h2
      case walWrite p b0 e0 ok =>
        have hgg := hg
        simp [guard, checks, Checks.ok, actIs] at hgg
        cases hA : w.act p with
        | none => simp [hA] at hgg
        | some A =>
          simp [hA] at hgg
          obtain ⟨⟨hb0, he0⟩, _⟩ := hgg
          have hold : e ∈ (w.bus b).walLines ∨ (b = b0 ∧ e = e0) := by
            simp only [apply0, hA] at h
            cases ok
            · left; simpa using h
            · by_cases hb : b = b0
              · subst hb
                simp at h
                rcases h with h | h
                · left; exact h
                · right; exact ⟨rfl, h⟩
              · left; simpa [setBus_bus, hb] using h
          rcases hold with h' | ⟨hb, he⟩
          · obtain ⟨h1, h2⟩ := hI.wal b e h'; exact keep _ _ h1 h2
          · subst hb; subst he
            obtain ⟨h1, h2⟩ := hI.act p A hA
            rw [hb0] at h1
            rw [hb0, he0] at h2
            exact keep _ _ h1 h2

theorem winv_wake (w : World) (h : WInv w) : WInv (wake w) := by
  refine ⟨?_, ?_, ?_, ?_⟩
  · intro p A hA; simp only [wake_act] at hA; simpa only [wake_bus, wake_nb] using h.act p A hA
  · intro b e hb; simp only [wake_bus] at hb; simpa only [wake_bus, wake_nb] using h.rl b e hb
  · intro i b e hi; simp only [wake_inst] at hi; simpa only [wake_bus, wake_nb] using h.inst i b e hi
  · intro b e hb; simp only [wake_bus] at hb; simpa only [wake_bus, wake_nb] using h.wal b e hb

theorem winv_step (w w' : World) (l : Label) (hI : WInv w) (hs : step w l = some w') : WInv w' := by
  obtain ⟨hg, rfl⟩ := step_some hs
  exact winv_wake _ (winv_apply0 w l hg hI)

theorem winv_init : WInv ({} : World) := by
  refine ⟨?_, ?_, ?_, ?_⟩
  · intro p A h; simp at h
  · intro b e h; simp at h
  · intro i b e h; simp at h
  · intro b e h; simp at h

theorem winv_run (w w' : World) (ls : List Label) (hI : WInv w) (h : run w ls = some w') : WInv w' := by
  induction ls generalizing w with
  | nil => simp [run] at h; subst h; exact hI
  | cons l ls ih =>
    simp only [run] at h
    cases hs : step w l with
    | none => simp [hs] at h
    | some w1 => simp only [hs] at h; exact ih w1 (winv_step w w1 l hI hs) h

theorem winv_reachable (w : World) (hr : Reachable w) : WInv w := by
  obtain ⟨ls, h⟩ := hr
  exact winv_run {} w ls winv_init h

namespace Thm

/-- C17, for every reachable state: every line of a bus's write-ahead log is an event that this bus has taken from its own
    queue for processing - the log never names an event the bus did not process, nor one of another bus. -/
theorem C17_every_wal_line_is_an_event_the_bus_took_for_processing (w : World) (hr : Reachable w) (b : BId) (e : EId)
    (h : e ∈ (w.bus b).walLines) : e ∈ (w.bus b).taken :=
  ((winv_reachable w hr).wal b e h).2

/-- … and, with the FIFO invariant, an event the bus had accepted: the log is drawn from what was enqueued on that bus. -/
theorem C17_every_wal_line_was_enqueued_on_the_bus (w : World) (hr : Reachable w) (b : BId) (e : EId)
    (h : e ∈ (w.bus b).walLines) : e ∈ (w.bus b).enq := by
  have h1 := C17_every_wal_line_is_an_event_the_bus_took_for_processing w hr b e h
  have h2 := C02_events_are_taken_in_enqueue_order w hr b
  rw [h2]; exact List.mem_append_left _ h1

/-- every open activation, in every reachable state, is for an event its bus took from its queue (what an executor
    processes is never invented) -/
theorem C14_an_activation_processes_only_what_its_bus_took (w : World) (hr : Reachable w) (p : Proc) (A : Act)
    (h : w.act p = some A) : A.ev ∈ (w.bus A.bus).taken :=
  ((winv_reachable w hr).act p A h).2

end Thm

end Bubus
