/-
  Bubus.Proofs.Examples — non-vacuity: concrete, non-trivial states that meet the hypotheses of the invariant theorems.
  The label lists are real accepted histories recorded from bubus by the harness (scenario: a handler of event 0 on a
  serial bus dispatches event 1 and awaits it; ordinary code awaits event 0).  Everything here is evaluated by the
  kernel (`decide`), nothing is assumed.
-/
import Bubus.Proofs.Account
import Bubus.Proofs.MutexThm
import Bubus.Proofs.HistInv
import Bubus.Proofs.Fifo
import Bubus.Proofs.PathInv
import Bubus.Proofs.NoSkip
import Bubus.Proofs.RunLoop
import Bubus.Proofs.Expect
import Bubus.Proofs.Wal
import Bubus.Proofs.Finished
import Bubus.Proofs.InlineDone
import Bubus.Proofs.PathReach
namespace Bubus.Examples
open Bubus

/-- up to the start of the nested handler -/
def nested : List Label :=
  [.newBus 0 false (some 50) false, .on 0 1 0 .async, .on 0 2 1 .async, .newEvent 0 1 none 0, .rlCreate 0,
   .dispatch .ext 0 0 .ok, .take (.rl 0) 0 0, .rlWake 0, .peBegin (.rl 0) 0 0, .hSched (.rl 0) 0 0 0 0, .hStart 0,
   .newEvent 1 2 none 0, .dispatch (.inst 0) 0 1 .ok, .awaitBegin 0 1, .take (.inst 0) 0 1, .peBegin (.inst 0) 0 1,
   .hSched (.inst 0) 1 0 1 1, .hStart 1]

/-- … and on to quiescence -/
def complete : List Label :=
  nested ++ [.hEnd 1 .ret, .hFinish 1 .completed, .peEnd (.inst 0) 0 1, .awaitEnd 0 1, .hEnd 0 .ret, .hFinish 0 .completed,
             .peEnd (.rl 0) 0 0, .xAwaitEnd 0]

/-- the model accepts both histories; the first reaches a state with two live handler instances chained under the lock,
    both queue slots accounted for as "in hand" (the accounting bound of C15 is tight there) -/
example : ((run {} nested).map fun w => (w.stack, w.lock, (w.bus 0).queue, (w.bus 0).unfinished, hand w 0)) =
    some ([1, 0], some 0, [], 2, 2) := by decide

example : ((run {} complete).map fun w => (w.stack, w.lock, (w.bus 0).unfinished, (w.ev 0).signal, (w.ev 1).signal)) =
    some ([], none, 0, true, true) := by decide

example : ((run {} complete).map fun w => ((w.ev 1).parent, (w.bus 0).enq, (w.bus 0).taken)) =
    some (some 0, [0, 1], [0, 1]) := by decide

/-- the premise `SerialRun` of the C06 invariant theorems holds of a run that nests handlers -/
example : SerialRun nested := by
  intro l hl
  simp only [nested, List.mem_cons, List.mem_nil_iff, or_false] at hl
  rcases hl with h | h | h | h | h | h | h | h | h | h | h | h | h | h | h | h | h | h <;> subst h <;> rfl

/-- in that state exactly one instance is executing and the other one is suspended in its await -/
example : ((run {} nested).map fun w => (cs (w.inst 0).st, cs (w.inst 1).st)) = some (.wait, .busy) := by decide

/-- guard-level theorems: their hypothesis `step w l = some w'` is met by real transitions, e.g. the inline take of
    the awaited child (C05) and the start of the nested handler (C06) -/
example : ((run {} (nested.take 14)).bind fun w => step w (.take (.inst 0) 0 1)).isSome = true := by decide
example : ((run {} (nested.take 17)).bind fun w => step w (.hStart 1)).isSome = true := by decide

/-- a reachable state with a bounded, non-empty history and a duplicate-free path (C13, C07) -/
example : ((run {} complete).map fun w => ((w.bus 0).hist, (w.bus 0).maxh, (w.ev 1).path)) = some ([0, 1], some 50, [0]) := by
  decide

/-- a real history with a handler timeout on a bus with `max_history_size = 1`: the handler of event 0 (timeout 90 ticks)
    awaits its child 1 whose handler sleeps; at the deadline the nested handler is cancelled, the inline activation of the
    child is abandoned (finding F5), the outer handler ends with a timeout error whose cleanup turns the child's pending
    result into an error; then event 2 is processed by two serial handlers and the history evicts down to its bound -/
def timeoutRun : List Label :=
  [.newBus 0 false (some 1) false, .on 0 1 0 .async, .on 0 2 1 .async, .on 0 2 2 .async, .newEvent 0 1 none 90, .rlCreate 0,
   .dispatch .ext 0 0 .ok, .take (.rl 0) 0 0, .rlWake 0, .peBegin (.rl 0) 0 0, .hSched (.rl 0) 0 0 0 0, .hStart 0,
   .newEvent 1 2 none 0, .dispatch (.inst 0) 0 1 .ok, .awaitBegin 0 1, .take (.inst 0) 0 1, .peBegin (.inst 0) 0 1,
   .hSched (.inst 0) 1 0 1 1, .hStart 1, .tick 90, .hCancel 1, .hEnd 1 .cancelled, .hFinish 1 .errCancelled,
   .peAbort (.inst 0) 0 1, .hCancel 0, .hEnd 0 .cancelled, .hFinish 0 .errTimeout, .peEnd (.rl 0) 0 0, .xAwaitEnd 0,
   .newEvent 2 2 none 0, .dispatch .ext 0 2 .ok, .take (.rl 0) 0 2, .rlWake 0, .peBegin (.rl 0) 0 2,
   .hSched (.rl 0) 2 0 2 1, .hStart 2, .tick 570, .hEnd 2 .ret, .hFinish 2 .completed, .hSched (.rl 0) 3 0 2 2, .hStart 3,
   .hEnd 3 .ret, .hFinish 3 .completed, .peEnd (.rl 0) 0 2]

/-- accepted by the model; the history is at its bound (C13); the abandoned child is never signalled and its `task_done()`
    was skipped — the accounting inequality of C15 is strict (counter 1, nothing queued or in hand): the model carries
    finding F5 rather than hiding it -/
example : ((run {} timeoutRun).map fun w =>
    ((w.bus 0).hist, (w.bus 0).unfinished, hand w 0, (w.ev 0).signal, (w.ev 1).signal, (w.ev 2).signal)) =
    some ([2], 1, 0, true, false, true) := by decide +kernel

example : ((run {} timeoutRun).map fun w => ((w.ev 1).results.map (·.status), (w.ev 0).results.map (·.err))) =
    some ([.error, .error], [.timeout]) := by decide +kernel

/-- time cannot pass the armed deadline of the running handler (C10): one tick later is rejected -/
example : ((run {} (timeoutRun.take 19)).bind fun w => step w (.tick 91)).isSome = false := by decide +kernel

/-- non-vacuity of the C01 no-skip theorems: the state just before the inner activation ends (the first 20 labels of
    `complete`) is reachable, its activation has a non-empty list of selected handlers, and `peEnd` is enabled there -/
example : ((run {} (complete.take 20)).map fun w =>
      ((w.act (.inst 0)).map (·.sel), (step w (.peEnd (.inst 0) 0 1)).isSome, (w.ev 1).results.map (·.terminal))) =
    some (some [1], true, [true]) := by decide

/-- … and mid-way (the history `nested`) the selected handler of the inner activation is neither on the to-do list nor
    finished: it is the live instance 1 — the middle disjunct of `C01_a_selected_handler_is_never_lost` -/
example : ((run {} nested).map fun w =>
      ((w.act (.inst 0)).map fun A => (A.sel, A.todo, A.running), (w.ev 1).results.map (·.terminal))) =
    some (some ([1], [], [1]), [false]) := by decide

/-- non-vacuity of the C16 run-loop invariant theorems: a reachable state in which the run loop of bus 0 has exited
    (its task was cancelled while it polled) with an event still queued; there `hSched` and `peBegin` of that run loop are
    disabled, and `rlCreate` is the one label that leaves the state -/
def cancelledRun : List Label :=
  [.newBus 0 false (some 50) false, .on 0 1 0 .async, .newEvent 0 1 none 0, .rlCreate 0, .dispatch .ext 0 0 .ok,
   .cancelRl 0, .rlExit 0]

example : ((run {} cancelledRun).map fun w => ((w.bus 0).rl, (w.bus 0).queue, (w.act (.rl 0)).isSome)) =
    some (.exited, [0], false) := by decide

example : ((run {} cancelledRun).bind fun w => step w (.peBegin (.rl 0) 0 0)).isSome = false := by decide
example : ((run {} cancelledRun).bind fun w => step w (.rlCreate 0)).isSome = true := by decide

/-- non-vacuity of the C18 subscription invariant: a reachable state with a pending `expect()` call and its temporary
    handler on the registry; after the call has timed out (`expectTimeout`, then `expectEnd` with no match at the deadline)
    the registry is empty again and the caller idle -/
def expectRun : List Label :=
  [.newBus 0 false (some 50) false, .on 0 1 0 .async, .expectBegin 0 0 1 7 0 (some 5)]

example : ((run {} expectRun).map fun w => ((w.bus 0).handlers.map (·.kind), w.waiter 0)) =
    some ([.async, .expect 0 0], .expecting 0 1 7 (some 5) none false) := by decide

example : ((run {} (expectRun ++ [.tick 5, .expectTimeout 0, .expectEnd 0 none])).map fun w =>
      ((w.bus 0).handlers.map (·.kind), w.waiter 0)) = some ([.async], .idle) := by decide

/-- non-vacuity of the C17 log invariant: a reachable state of a WAL bus with a line in its log (the line's event was
    taken by the bus) -/
def walRun : List Label :=
  [.newBus 0 false (some 50) true, .on 0 1 0 .sync, .newEvent 0 1 none 0, .rlCreate 0, .dispatch .ext 0 0 .ok,
   .take (.rl 0) 0 0, .rlWake 0, .peBegin (.rl 0) 0 0, .hSched (.rl 0) 0 0 0 0, .hStart 0, .hEnd 0 .ret,
   .hFinish 0 .completed, .walWrite (.rl 0) 0 0 true, .peEnd (.rl 0) 0 0]

example : ((run {} walRun).map fun w => ((w.bus 0).walLines, (w.bus 0).taken, (w.bus 0).enq)) = some ([0], [0], [0]) := by
  decide

/-- non-vacuity of the C10 / C11 invariant on recorded outcomes: at the end of `complete` both instances are finished and
    their results terminal; at the end of `timeoutRun` the recorded outcomes include a timeout and a cancellation -/
example : ((run {} complete).map fun w => ((w.inst 0).st, (w.inst 1).st, (w.ev 0).results.map (·.terminal), (w.ev 1).results.map (·.terminal))) =
    some (.finished, .finished, [true], [true]) := by decide

example : ((run {} timeoutRun).map fun w =>
      ((List.range w.ni).all fun i => (w.inst i).st == .finished,
       (List.range w.ne).all fun e => (w.ev e).results.all (·.terminal))) = some (true, true) := by decide +kernel

/-- non-vacuity of the serial-bus theorems about handlers run inside an await (`Proofs/InlineDone.lean`): in the history `nested`
    instance 1 runs inside the await of instance 0 (executor link), instance 0 is suspended, instance 1 executes, and following
    the executor links from 1 reaches 0 (`C05_whatever_executes_while_a_handler_is_alive_runs_inside_it`); after the first 26
    labels of `timeoutRun` the body of instance 0 has ended (cancelled by its deadline) and instance 1 has finished
    (`C10_when_a_handler_has_ended_every_handler_it_ran_inline_has_finished`); both prefixes are serial runs -/
example : ((run {} nested).map fun w => ((w.inst 1).exec, (w.inst 0).st, (w.inst 1).st, iterExec w 1 1)) =
    some (.inst 0, .awaiting 1, .running, some 0) := by decide
example : SerialRun (timeoutRun.take 26) := by
  show ∀ l ∈ timeoutRun.take 26, serialLabel l = true
  decide
example : ((run {} (timeoutRun.take 26)).map fun w => ((w.inst 1).exec, (w.inst 0).st, (w.inst 1).st)) =
    some (.inst 0, .ended, .finished) := by decide +kernel

/-- non-vacuity of `C05_the_await_suspends_only_when_every_queue_is_empty` and of
    `C17_the_wal_line_is_written_after_every_selected_handler_has_finished` / `C01_a_selected_handler_is_passed_over_…`: the
    polling yield is enabled in a reachable state whose queues are empty (instance 0 of `nested`, once its child has been
    processed and before the await returns, is not polling any more - so the state right after `awaitBegin`, with the child
    still queued, is the one where the yield is *disabled*) -/
example : ((run {} (nested.take 14)).map fun w => ((w.bus 0).queue, (step w (.pollYield 0)).isSome, (step w (.take (.inst 0) 0 1)).isSome)) =
    some ([1], false, true) := by decide

/-- non-vacuity of `C07_a_bus_processes_only_events_whose_path_lists_it` (`Proofs/PathReach.lean`): in the history `nested` bus 0 has
    had events 0 and 1 in its queue, both list bus 0 in their path, and the open inline activation of instance 0 is for
    event 1 on bus 0 -/
example : ((run {} nested).map fun w => ((w.bus 0).enq, (w.ev 0).path, (w.ev 1).path, (w.act (.inst 0)).map fun A => (A.bus, A.ev))) =
    some ([0, 1], [0], [0], some (0, 1)) := by decide

end Bubus.Examples
