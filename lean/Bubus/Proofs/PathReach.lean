/-
  Bubus.Proofs.PathReach — C07: a bus only ever holds, takes and processes events whose path names it.  Invariant of all
  reachable states: every event ever enqueued on a bus has that bus in its `event_path` (the path entry is written by the
  dispatch that enqueues the event and is never removed).  With the FIFO invariant (what a bus took it had enqueued) and the
  WAL invariant (what an executor processes its bus took) it follows that every open activation - by a run loop or by an
  awaiting handler's inline loop - is for an event whose path lists the bus of the activation.
-/
import Bubus.Proofs.Wal
namespace Bubus

def EnqPath (w : World) : Prop := ∀ b e, e ∈ (w.bus b).enq → e < w.ne ∧ b ∈ (w.ev e).path

theorem enq_of_qview (w w' : World) (b : BId) (h : qview (w'.bus b) = qview (w.bus b)) : (w'.bus b).enq = (w.bus b).enq := by
  simp only [qview, Prod.mk.injEq] at h
  exact h.2.1

theorem enqPath_apply0 (w : World) (l : Label) (hg : guard w l = true) (hI : EnqPath w) : EnqPath (apply0 w l) := by
  intro b e he
  have hne := apply0_ne_mono w l
  by_cases hq : writesQueue l = false
  · -- the queues are untouched; the path of an old event can only be rewritten by a dispatch (which only appends)
    rw [enq_of_qview w _ b (apply0_queue_frame w l b hq)] at he
    obtain ⟨h1, h2⟩ := hI b e he
    refine ⟨Nat.lt_of_lt_of_le h1 hne, ?_⟩
    by_cases hp : writesPath l = false
    · rw [apply0_path_frame w l e hp]; exact h2
    · cases l <;> simp [writesPath] at hp <;> simp [writesQueue] at hq
      case newEvent e' ty par to =>
        simp [guard, checks, Checks.ok] at hg
        have hee : e ≠ e' := by rw [hg.1]; exact Nat.ne_of_lt h1
        simp only [apply0, setNe_ev, setEv_ev, hee, if_false]
        exact h2
      case dispatch p b' e' res =>
        show b ∈ ((applyDispatch w p b' e' res).ev e).path
        rw [applyDispatch_path]
        by_cases hx : e = e'
        · subst hx
          rw [dPath_path_same]
          split
          · exact h2
          · exact List.mem_append_left _ h2
        · rw [dPath_path_other _ _ _ _ hx]; exact h2
  · cases l <;> simp [writesQueue] at hq
    case newBus b' par maxh wal =>
      simp only [apply0] at he ⊢
      by_cases hb : b = b'
      · subst hb; simp at he
      · simp [hb] at he
        obtain ⟨h1, h2⟩ := hI b e he
        exact ⟨by simpa using h1, by simpa using h2⟩
    case take p b' e' =>
      have hen : ((apply0 w (.take p b' e')).bus b).enq = (w.bus b).enq := by
        by_cases hb : b = b'
        · subst hb; cases p <;> simp [apply0]
        · cases p <;> simp [apply0, hb]
      rw [hen] at he
      obtain ⟨h1, h2⟩ := hI b e he
      refine ⟨Nat.lt_of_lt_of_le h1 hne, ?_⟩
      rw [apply0_path_frame w _ e (by simp [writesPath])]; exact h2
    case dispatch p b' e' res =>
      cases res <;> simp at hq
      have hgg := hg
      simp [guard, checks, Checks.ok] at hgg
      have he' : e' < w.ne := hgg.2.1
      have hen : ((applyDispatch w p b' e' .ok).bus b).enq = if b = b' then (w.bus b).enq ++ [e'] else (w.bus b).enq := by
        simp only [applyDispatch]
        have h0 := enq_of_qview _ _ b (cleanup_qview (dChild (dEnqueue (dFwd (dPath (dParent w (ctxOf w p) e') b' e') p) b' e') (ctxOf w p) e') b' b)
        rw [h0, dChild_bus]
        by_cases hb : b = b'
        · subst hb
          have hq := dEnqueue_qview (dFwd (dPath (dParent w (ctxOf w p) e') b e') p) b e'
          rw [dFwd_bus, dPath_bus, dParent_bus] at hq
          simp only [qview, Prod.mk.injEq] at hq
          simp [hq.2.1]
        · rw [dEnqueue_bus_other _ _ _ _ hb, dFwd_bus, dPath_bus, dParent_bus]; simp [hb]
      have he2 : e ∈ (if b = b' then (w.bus b).enq ++ [e'] else (w.bus b).enq) := by
        have : e ∈ ((applyDispatch w p b' e' .ok).bus b).enq := he
        rw [hen] at this; exact this
      have hpath : ∀ x, ((applyDispatch w p b' e' .ok).ev x).path = ((dPath w b' e').ev x).path := applyDispatch_path w p b' e' .ok
      show e < (applyDispatch w p b' e' .ok).ne ∧ b ∈ ((applyDispatch w p b' e' .ok).ev e).path
      rw [hpath]
      have old : e ∈ (w.bus b).enq → e < (applyDispatch w p b' e' .ok).ne ∧ b ∈ ((dPath w b' e').ev e).path := by
        intro hin
        obtain ⟨h1, h2⟩ := hI b e hin
        refine ⟨Nat.lt_of_lt_of_le h1 hne, ?_⟩
        by_cases hx : e = e'
        · subst hx; rw [dPath_path_same]; split
          · exact h2
          · exact List.mem_append_left _ h2
        · rw [dPath_path_other _ _ _ _ hx]; exact h2
      by_cases hb : b = b'
      · subst hb
        simp only [if_true] at he2
        rcases List.mem_append.mp he2 with hin | hin
        · exact old hin
        · simp only [List.mem_singleton] at hin
          subst hin
          refine ⟨Nat.lt_of_lt_of_le he' hne, ?_⟩
          rw [dPath_path_same]; split
          · rename_i hc; simpa using hc
          · simp
      · simp only [hb, if_false] at he2
        exact old he2

theorem enqPath_step (w w' : World) (l : Label) (hI : EnqPath w) (hs : step w l = some w') : EnqPath w' := by
  obtain ⟨hg, rfl⟩ := step_some hs
  have h := enqPath_apply0 w l hg hI
  intro b e he
  have he' : e ∈ ((apply0 w l).bus b).enq := by
    have : ((wake (apply0 w l)).bus b).enq = ((apply0 w l).bus b).enq := by rw [wake_bus]
    show e ∈ ((apply0 w l).bus b).enq
    rw [← this]; exact he
  obtain ⟨h1, h2⟩ := h b e he'
  refine ⟨?_, ?_⟩
  · show e < (wake (apply0 w l)).ne
    have : (wake (apply0 w l)).ne = (apply0 w l).ne := congrArg Core.ne (wake_core _)
    rw [this]; exact h1
  · show b ∈ ((wake (apply0 w l)).ev e).path
    rw [wake_ev]; exact h2

theorem enqPath_run (w w' : World) (ls : List Label) (hI : EnqPath w) (h : run w ls = some w') : EnqPath w' := by
  induction ls generalizing w with
  | nil => simp [run] at h; subst h; exact hI
  | cons l ls ih =>
    simp only [run] at h
    split at h
    · rename_i w1 hs1; exact ih w1 (enqPath_step w w1 l hI hs1) h
    · cases h

namespace Thm

/-- **C07, for every reachable state**: every event a bus has ever had in its queue (by dispatch or by forwarding) lists that
    bus in its `event_path`. -/
theorem C07_every_event_enqueued_on_a_bus_lists_that_bus_in_its_path (w : World) (hr : Reachable w) (b : BId) (e : EId)
    (he : e ∈ (w.bus b).enq) : b ∈ (w.ev e).path := by
  obtain ⟨ls, hls⟩ := hr
  exact (enqPath_run {} w ls (by intro b e h; cases h) hls b e he).2

/-- **C07** ("event_path lists exactly those buses"): corollary - whatever an executor is processing (a run loop, or an awaiting
    handler's inline loop), in every reachable state the bus of the activation is in the path of its event: no bus processes
    an event that did not reach it through a dispatch or a forward that recorded it. -/
theorem C07_a_bus_processes_only_events_whose_path_lists_it (w : World) (hr : Reachable w) (p : Proc) (A : Act)
    (h : w.act p = some A) : A.bus ∈ (w.ev A.ev).path := by
  have htaken := C14_an_activation_processes_only_what_its_bus_took w hr p A h
  have henq : A.ev ∈ (w.bus A.bus).enq := by
    rw [C02_events_are_taken_in_enqueue_order w hr A.bus]
    exact List.mem_append_left _ htaken
  exact C07_every_event_enqueued_on_a_bus_lists_that_bus_in_its_path w hr A.bus A.ev henq

end Thm
end Bubus
