/-
  Bubus.Proofs.Stable — the completion signal of an existing event is never reset, by any transition (C08), hence an
  external waiter's return stays enabled from the moment the signal is set (C03, release side).
-/
import Bubus.Proofs.Once
namespace Bubus

theorem cancelPendingChildren_signal (w : World) (fuel : Nat) (e : EId) (x : EId) :
    ((cancelPendingChildren w fuel e).ev x).signal = (w.ev x).signal := by
  induction fuel generalizing w e with
  | zero => rfl
  | succ n ih =>
    unfold cancelPendingChildren
    generalize (w.ev e).children = cs
    induction cs generalizing w with
    | nil => rfl
    | cons c cs ihc =>
      simp only [List.foldl_cons]
      rw [ihc, ih]
      simp only [modEv_eq, setEv_ev]
      split
      · rename_i hx; subst hx; rfl
      · rfl

theorem dParent_signal (w ctx e x) : ((dParent w ctx e).ev x).signal = (w.ev x).signal := by
  unfold dParent
  split
  · split
    · simp only [modEv_eq, setEv_ev]; split
      · rename_i hx; subst hx; rfl
      · rfl
    · rfl
  · rfl

theorem dPath_signal (w b e x) : ((dPath w b e).ev x).signal = (w.ev x).signal := by
  unfold dPath
  split
  · rfl
  · simp only [modEv_eq, setEv_ev]; split
    · rename_i hx; subst hx; rfl
    · rfl

theorem dChild_signal (w ctx e x) : ((dChild w ctx e).ev x).signal = (w.ev x).signal := by
  unfold dChild
  split
  · split
    · simp only [modEv_eq, setEv_ev]; split
      · rename_i hx; subst hx; rfl
      · rfl
    · rfl
  · rfl

theorem applyDispatch_signal (w : World) (p : Proc) (b : BId) (e : EId) (res : DRes) (x : EId) :
    ((applyDispatch w p b e res).ev x).signal = (w.ev x).signal := by
  have h1 : ((dFwd (dPath (dParent w (ctxOf w p) e) b e) p).ev x).signal = (w.ev x).signal := by
    rw [dFwd_ev, dPath_signal, dParent_signal]
  unfold applyDispatch
  cases res <;> simp only [] <;> try exact h1
  rw [cleanup_ev, dChild_signal, dEnqueue_ev]; exact h1

theorem peOpen_signal_mono (w : World) (p : Proc) (b : BId) (e x : EId) (h : (w.ev x).signal = true) :
    ((peOpen w p b e).ev x).signal = true := by
  unfold peOpen
  simp only []
  have h1 : (((w.modEv e fun E => { E with results := E.results ++ (applicable w b e).map fun k => { hid := k, bus := b } }).setAct p
      (some { bus := b, ev := e, todo := applicable w b e, running := [], sel := applicable w b e })).ev x).signal = true := by
    simp only [setAct_ev, modEv_eq, setEv_ev]
    split
    · rename_i hx; subst hx; exact h
    · exact h
  split
  · exact markComplete_signal_mono _ _ _ h1
  · exact h1

theorem peClose_signal_mono (w : World) (p : Proc) (b : BId) (e x : EId) (h : (w.ev x).signal = true) :
    ((peClose w p b e).ev x).signal = true := by
  unfold peClose
  simp only [modBus_eq, setBus_ev, setAct_ev, cleanup_ev]
  exact parentWalk_signal_mono _ _ _ _ _ (markComplete_signal_mono _ _ _ h)

theorem applyFinish_signal (w : World) (i : IId) (r : Fin) (x : EId) :
    ((applyFinish w i r).ev x).signal = (w.ev x).signal := by
  unfold applyFinish
  simp only []
  have h1 : ((w.modEv (w.inst i).ev fun E => E.updRes (w.inst i).bus (w.inst i).hid fun y =>
      { y with status := r.status, err := r.err }).ev x).signal = (w.ev x).signal := by
    simp only [modEv_eq, setEv_ev]
    split
    · rename_i hx; subst hx; rfl
    · rfl
  cases hA : w.act (w.inst i).exec <;> simp only [] <;> split <;>
    first
    | (rw [cancelPendingChildren_signal]; simpa using h1)
    | (simpa using h1)

/-- no label ever resets the completion signal of an existing event -/
theorem apply0_signal_mono (w : World) (l : Label) (x : EId) (hx : x < w.ne)
    (hg : guard w l = true) (h : (w.ev x).signal = true) : ((apply0 w l).ev x).signal = true := by
  cases l
  case newEvent e ty par to =>
    simp [guard, checks, Checks.ok] at hg
    have he : x ≠ e := by
      have h0 : e = w.ne := hg.1
      intro hxe
      rw [hxe, h0] at hx
      exact Nat.lt_irrefl _ hx
    simp only [apply0, setNe_ev, setEv_ev, he, if_false]
    exact h
  case dispatch p b' e res => show ((applyDispatch w p b' e res).ev x).signal = true; rw [applyDispatch_signal]; exact h
  case peBegin p b' e =>
    show ((peOpen (peEnter w p b') p b' e).ev x).signal = true
    apply peOpen_signal_mono
    cases p <;> simpa [peEnter] using h
  case hSched p i b' e k' =>
    show ((applySched w p i b' e k').ev x).signal = true
    have h1 : ((w.modEv e fun E => E.updRes b' k' fun r => { r with status := .started }).ev x).signal = true := by
      simp only [modEv_eq, setEv_ev]
      split
      · rename_i hxe; subst hxe; exact h
      · exact h
    unfold applySched
    cases hA : w.act p <;> simpa using h1
  case hFinish i r => show ((applyFinish w i r).ev x).signal = true; rw [applyFinish_signal]; exact h
  case peEnd p b' e =>
    simp only [apply0]
    cases p
    · rw [releaseRl_ev]; exact peClose_signal_mono w _ b' e x h
    · exact peClose_signal_mono w _ b' e x h
    · exact peClose_signal_mono w _ b' e x h
  case newBus => simpa [apply0] using h
  case on => simpa [apply0] using h
  case off => simpa [apply0] using h
  case tick => simpa [apply0] using h
  case rlCreate => simpa [apply0] using h
  case take p b' e => cases p <;> simpa [apply0] using h
  case peRecTrip p b' e => cases p <;> simp [apply0, rlBack] <;> exact h
  case hStart => simpa [apply0] using h
  case hCancel => simpa [apply0] using h
  case hEnd i out =>
    simp only [apply0]
    split <;> (try split) <;> (try split) <;> simpa using h
  case walWrite p b' e ok =>
    simp only [apply0]
    cases hA : w.act p <;> cases ok <;> simpa [hA] using h
  case peAbort p b' e => cases p <;> simpa [apply0] using h
  case awaitBegin => simpa [apply0] using h
  case pollYield => simpa [apply0] using h
  case awaitEnd => simpa [apply0] using h
  case xAwaitEnd => simpa [apply0] using h
  case readBus => simpa [apply0] using h
  case rlWake => simpa [apply0] using h
  case rlPoll b' => simp only [apply0, rlIdleCheck]; split <;> simpa using h
  case wiBegin => simpa [apply0] using h
  case wiJoined x' => simp only [apply0]; split <;> simpa using h
  case wiIdle x' => simp only [apply0]; split <;> simpa using h
  case wiRecheck x' => simp only [apply0]; split <;> simpa using h
  case wiEnd => simpa [apply0] using h
  case wiCancel => simpa [apply0] using h
  case expectTimeout x' => simp only [apply0]; split <;> simpa using h
  case expectCancelReq x' => simp only [apply0]; split <;> simpa using h
  case hSkip p_ b_ e_ k_ => simp only [apply0]; split <;> simpa using h
  case stopBegin => simpa [apply0] using h
  case stopNoop => simpa [apply0] using h
  case stopEnd x' => simp only [apply0]; split <;> (try split) <;> simpa using h
  case rlExit b' => simp only [apply0, rlIdleCheck]; split <;> (try split) <;> simpa using h
  case cancelRl => simpa [apply0] using h
  case rlCancelled => simpa [apply0] using h
  case rlDropExit b' => simp only [apply0, rlIdleCheck]; split <;> simpa using h
  case expectBegin => simpa [apply0] using h
  case expectEnd x' got => simp only [apply0]; split <;> simpa using h
  case expectCancel x' => simp only [apply0]; split <;> simpa using h

theorem step_signal_mono (w w' : World) (l : Label) (x : EId) (hx : x < w.ne) (hs : step w l = some w')
    (h : (w.ev x).signal = true) : (w'.ev x).signal = true ∧ x < w'.ne := by
  obtain ⟨hg, rfl⟩ := step_some hs
  refine ⟨?_, ?_⟩
  · show ((wake (apply0 w l)).ev x).signal = true
    rw [wake_ev]; exact apply0_signal_mono w l x hx hg h
  · show x < (wake (apply0 w l)).ne
    rw [wake_ne]; exact Nat.lt_of_lt_of_le hx (apply0_ne_mono w l)

theorem run_signal_mono (w w' : World) (ls : List Label) (x : EId) (hx : x < w.ne) (hr : run w ls = some w')
    (h : (w.ev x).signal = true) : (w'.ev x).signal = true := by
  induction ls generalizing w with
  | nil => simp [run] at hr; subst hr; exact h
  | cons l ls ih =>
    simp only [run] at hr
    split at hr
    · rename_i w1 hs1
      obtain ⟨h1, hx1⟩ := step_signal_mono w w1 l x hx hs1 h
      exact ih w1 hx1 hr h1
    · cases hr

namespace Thm

/-- **C08**: no transition of the system — whatever the handlers, buses, forwarding, timeouts and schedule — resets the
    completion signal of an existing event: once an await on it could return, it can return forever after. -/
theorem C08_completion_signal_is_never_reset (w w' : World) (ls : List Label) (e : EId) (he : e < w.ne)
    (hr : run w ls = some w') (h : (w.ev e).signal = true) : (w'.ev e).signal = true :=
  run_signal_mono w w' ls e he hr h

/-- **C03 (release side)**: from the moment an event's completion signal is set, the return of an external `await event`
    is enabled in every later state, without further stimulus. -/
theorem C03_release_stays_enabled (w w' : World) (ls : List Label) (e : EId) (he : e < w.ne)
    (hr : run w ls = some w') (h : (w.ev e).signal = true) : guard w' (.xAwaitEnd e) = true := by
  have hs := run_signal_mono w w' ls e he hr h
  have hne : e < w'.ne := by
    clear hs h
    induction ls generalizing w with
    | nil => simp [run] at hr; subst hr; exact he
    | cons l ls ih =>
      simp only [run] at hr
      split at hr
      · rename_i w1 hs1
        obtain ⟨hg, rfl⟩ := step_some hs1
        exact ih _ (by show e < (wake (apply0 w l)).ne; rw [wake_ne]; exact Nat.lt_of_lt_of_le he (apply0_ne_mono w l)) hr
      · cases hr
  simp [guard, checks, Checks.ok, hs, hne]

end Thm
end Bubus

namespace Bubus.Thm

/-- **C17**: an activation of a WAL bus ends normally only after its WAL write was attempted — no processed event is
    skipped — and the write happens after all its handlers finished (the line records the finished event). -/
theorem C17_activation_ends_only_after_its_wal_attempt (w w' : World) (p : Proc) (b : BId) (e : EId)
    (hs : step w (.peEnd p b e) = some w') (hwal : (w.bus b).wal = true) :
    ∃ A, w.act p = some A ∧ A.bus = b ∧ A.ev = e ∧ A.walDone = true ∧ A.todo = [] ∧ A.running = [] := by
  obtain ⟨hg, _⟩ := step_some hs
  simp [guard, checks, Checks.ok] at hg
  obtain ⟨h1, h2, h3, _⟩ := hg
  cases hA : w.act p with
  | none => simp [actIs, hA] at h1
  | some A =>
    simp [actIs, hA] at h1
    simp [hA] at h2
    rcases h3 with h3 | h3
    · rw [hwal] at h3; cases h3
    · simp [hA] at h3
      exact ⟨A, rfl, h1.1, h1.2, h3, h2.1, h2.2⟩

/-- **C17**: the WAL write of an activation happens at most once (the attempt is recorded in the activation, a second
    one is not enabled), only on a WAL bus, and only once every handler of the activation has finished. -/
theorem C17_one_wal_attempt_per_activation (w w' : World) (p : Proc) (b : BId) (e : EId) (ok : Bool)
    (hs : step w (.walWrite p b e ok) = some w') :
    (w.bus b).wal = true ∧
    (∃ A, w.act p = some A ∧ A.bus = b ∧ A.ev = e ∧ A.walDone = false ∧ A.todo = [] ∧ A.running = []) ∧
    (∃ A', w'.act p = some A' ∧ A'.walDone = true) := by
  obtain ⟨hg, rfl⟩ := step_some hs
  simp [guard, checks, Checks.ok] at hg
  obtain ⟨h1, h2, h3, h4⟩ := hg
  cases hA : w.act p with
  | none => simp [actIs, hA] at h1
  | some A =>
    simp [actIs, hA] at h1
    simp [hA] at h2 h4
    refine ⟨h3, ⟨A, rfl, h1.1, h1.2, h4, h2.1, h2.2⟩, ?_⟩
    simp only [apply, apply0, wake_act, hA]
    cases ok <;> simp

end Bubus.Thm
