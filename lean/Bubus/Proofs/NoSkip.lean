/-
  Bubus.Proofs.NoSkip — C01 (no handler is skipped) as an invariant of all reachable states: every handler selected when an
  activation began is still on its to-do list, or has a live instance in the activation, or has a terminal result; so when
  the activation ends normally every selected handler has run to a terminal result.
-/
import Bubus.Proofs.Lineage
namespace Bubus

/-- the result of (bus b, handler k) on the event exists and is terminal (completed or error) -/
def Terminal (E : Ev) (b : BId) (k : HId) : Prop := ∃ r, E.getRes? b k = some r ∧ r.terminal = true

theorem terminal_congr (E E' : Ev) (b : BId) (k : HId) (h : E'.results = E.results) : Terminal E b k → Terminal E' b k := by
  intro ⟨r, hr, hst⟩
  exact ⟨r, by simpa [Ev.getRes?, h] using hr, hst⟩

theorem terminal_append (E : Ev) (b : BId) (k : HId) (extra : List Res) (h : Terminal E b k) :
    Terminal { E with results := E.results ++ extra } b k := by
  obtain ⟨r, hr, hst⟩ := h
  refine ⟨r, ?_, hst⟩
  simp only [Ev.getRes?] at hr ⊢
  rw [List.find?_append, hr]; rfl

/-- mapping the results with a function that keeps identities and keeps the followed result terminal -/
theorem terminal_map (E : Ev) (b : BId) (k : HId) (f : Res → Res)
    (hf : ∀ r, (f r).hid = r.hid ∧ (f r).bus = r.bus)
    (hs : ∀ r, r.hid = k → r.bus = b → r.terminal = true → (f r).terminal = true)
    (h : Terminal E b k) : Terminal { E with results := E.results.map f } b k := by
  obtain ⟨r, hr, hst⟩ := h
  have hrk : r.hid = k ∧ r.bus = b := by
    simp only [Ev.getRes?] at hr
    have := List.find?_some hr
    simpa using this
  refine ⟨f r, ?_, hs r hrk.1 hrk.2 hst⟩
  simp only [Ev.getRes?] at hr ⊢
  rw [getRes_map _ _ _ _ hf, hr]; rfl

theorem updRes_terminal (E : Ev) (b k : Nat) (b' k' : Nat) (f : Res → Res)
    (hf : ∀ r, (f r).hid = r.hid ∧ (f r).bus = r.bus)
    (hs : ∀ r, r.hid = k → r.bus = b → r.hid = k' ∧ r.bus = b' → r.terminal = true → (f r).terminal = true)
    (h : Terminal E b k) : Terminal (E.updRes b' k' f) b k := by
  unfold Ev.updRes
  apply terminal_map E b k _ _ _ h
  · intro r; split <;> simp [hf r]
  · intro r h1 h2 ht
    split
    · rename_i hc
      simp only [Bool.and_eq_true, beq_iff_eq] at hc
      exact hs r h1 h2 hc ht
    · exact ht

theorem cancelPendingChildren_terminal (w : World) (fuel : Nat) (e : EId) (x : EId) (b : BId) (k : HId)
    (h : Terminal (w.ev x) b k) : Terminal ((cancelPendingChildren w fuel e).ev x) b k := by
  induction fuel generalizing w e with
  | zero => exact h
  | succ n ih =>
    unfold cancelPendingChildren
    generalize (w.ev e).children = cs
    induction cs generalizing w with
    | nil => exact h
    | cons c cs ihc =>
      simp only [List.foldl_cons]
      apply ihc
      apply ih
      simp only [modEv_eq, setEv_ev]
      split
      · rename_i hx
        subst hx
        apply terminal_map (w.ev x) b k _ _ _ h
        · intro r; split <;> simp
        · intro r _ _ ht; split
          · simp [Res.terminal]
          · exact ht
      · exact h

theorem markComplete_terminal (w : World) (e x : EId) (b : BId) (k : HId) (h : Terminal (w.ev x) b k) :
    Terminal ((markComplete w e).ev x) b k :=
  terminal_congr _ _ b k (markComplete_results w e x) h

theorem peOpen_terminal (w : World) (p : Proc) (b' : BId) (e x : EId) (b : BId) (k : HId) (h : Terminal (w.ev x) b k) :
    Terminal ((peOpen w p b' e).ev x) b k := by
  unfold peOpen
  simp only []
  have h1 : Terminal (((w.modEv e fun E => { E with results := E.results ++ (applicable w b' e).map fun k => { hid := k, bus := b' } }).setAct p
      (some { bus := b', ev := e, todo := applicable w b' e, running := [], sel := applicable w b' e })).ev x) b k := by
    simp only [setAct_ev, modEv_eq, setEv_ev]
    split
    · rename_i hx; subst hx; exact terminal_append _ _ _ _ h
    · exact h
  split
  · exact markComplete_terminal _ _ _ _ _ h1
  · exact h1

theorem peClose_terminal (w : World) (p : Proc) (b' : BId) (e x : EId) (b : BId) (k : HId) (h : Terminal (w.ev x) b k) :
    Terminal ((peClose w p b' e).ev x) b k := by
  unfold peClose
  simp only [modBus_eq, setBus_ev, setAct_ev, cleanup_ev]
  exact terminal_congr _ _ b k (by rw [parentWalk_results, markComplete_results]) h

theorem applyDispatch_terminal (w : World) (p : Proc) (b' : BId) (e : EId) (res : DRes) (x : EId) (b : BId) (k : HId)
    (h : Terminal (w.ev x) b k) : Terminal ((applyDispatch w p b' e res).ev x) b k := by
  have h1 : Terminal ((dFwd (dPath (dParent w (ctxOf w p) e) b' e) p).ev x) b k :=
    terminal_congr _ _ b k (by rw [dFwd_ev, dPath_results, dParent_results]) h
  unfold applyDispatch
  cases res <;> simp only [] <;> try exact h1
  rw [cleanup_ev]
  unfold dChild
  split
  · split
    · simp only [modEv_eq, setEv_ev]
      split
      · rename_i hx
        subst hx
        apply updRes_terminal
        · intro r; exact ⟨rfl, rfl⟩
        · intro r _ _ _ hr; exact hr
        · rw [dEnqueue_ev]; exact h1
      · rw [dEnqueue_ev]; exact h1
    · rw [dEnqueue_ev]; exact h1
  · rw [dEnqueue_ev]; exact h1

theorem applyFinish_terminal (w : World) (i : IId) (r : Fin) (x : EId) (b : BId) (k : HId)
    (h : Terminal (w.ev x) b k) : Terminal ((applyFinish w i r).ev x) b k := by
  unfold applyFinish
  simp only []
  have h1 : Terminal ((w.modEv (w.inst i).ev fun E => E.updRes (w.inst i).bus (w.inst i).hid fun x =>
      { x with status := r.status, err := r.err }).ev x) b k := by
    simp only [modEv_eq, setEv_ev]
    split
    · rename_i hx; subst hx
      apply updRes_terminal _ _ _ _ _ _ _ _ h
      · intro y; exact ⟨rfl, rfl⟩
      · intro y _ _ _ _; cases r <;> simp [Fin.status, Res.terminal]
    · exact h
  cases hA : w.act (w.inst i).exec <;> simp only [] <;> split <;>
    first
    | (apply cancelPendingChildren_terminal; simpa using h1)
    | (simpa using h1)

/-- no label ever makes a terminal result non-terminal, for any existing event -/
theorem apply0_terminal (w : World) (l : Label) (x : EId) (b : BId) (k : HId) (hx : x < w.ne)
    (hg : guard w l = true) (h : Terminal (w.ev x) b k) : Terminal ((apply0 w l).ev x) b k := by
  cases l
  case newEvent e ty par to =>
    simp [guard, checks, Checks.ok] at hg
    have he : x ≠ e := by
      have h0 : e = w.ne := hg.1
      intro hxe
      rw [hxe, h0] at hx
      exact Nat.lt_irrefl _ hx
    simp only [apply0, setNe_ev, setEv_ev, he, if_false]
    exact h
  case dispatch p b' e res => exact applyDispatch_terminal w p b' e res x b k h
  case peBegin p b' e =>
    show Terminal ((peOpen (peEnter w p b') p b' e).ev x) b k
    apply peOpen_terminal
    cases p <;> simpa [peEnter] using h
  case hSched p i b' e k' =>
    show Terminal ((applySched w p i b' e k').ev x) b k
    have hstep : step w (.hSched p i b' e k') = some (apply w (.hSched p i b' e k')) := by simp [step, hg]
    obtain ⟨r0, hr0, hp0⟩ := Thm.C01_scheduling_requires_a_pending_result w _ p i b' e k' hstep
    have h1 : Terminal ((w.modEv e fun E => E.updRes b' k' fun r => { r with status := .started }).ev x) b k := by
      simp only [modEv_eq, setEv_ev]
      split
      · rename_i hxe; subst hxe
        by_cases hkey : k = k' ∧ b = b'
        · -- the result being started is pending by the guard, the one we follow is terminal: different results
          obtain ⟨r, hr, ht⟩ := h
          rw [hkey.1, hkey.2, hr0] at hr
          injection hr with hr
          subst hr
          simp [Res.terminal, hp0] at ht
        · apply updRes_terminal (w.ev x) b k b' k' _ _ _ h
          · intro y; exact ⟨rfl, rfl⟩
          · intro y hy1 hy2 hy3 _
            exfalso; exact hkey ⟨hy1.symm.trans hy3.1, hy2.symm.trans hy3.2⟩
      · exact h
    unfold applySched
    cases hA : w.act p <;> simpa using h1
  case hFinish i r => exact applyFinish_terminal w i r x b k h
  case peEnd p b' e =>
    simp only [apply0]
    cases p
    · rw [releaseRl_ev]; exact peClose_terminal w _ b' e x b k h
    · exact peClose_terminal w _ b' e x b k h
    · exact peClose_terminal w _ b' e x b k h
  case newBus => simpa [apply0] using h
  case on => simpa [apply0] using h
  case off => simpa [apply0] using h
  case tick => simpa [apply0] using h
  case rlCreate => simpa [apply0] using h
  case take p b' e => cases p <;> simpa [apply0] using h
  case peRecTrip p b' e => cases p <;> simp [apply0, rlBack] <;> exact h
  case hStart => simpa [apply0] using h
  case hCancel => simpa [apply0] using h
  case hEnd i out =>
    simp only [apply0]
    split <;> (try split) <;> (try split) <;> simpa using h
  case walWrite p b' e ok =>
    simp only [apply0]
    cases hA : w.act p <;> cases ok <;> simpa [hA] using h
  case peAbort p b' e => cases p <;> simpa [apply0] using h
  case awaitBegin => simpa [apply0] using h
  case pollYield => simpa [apply0] using h
  case awaitEnd => simpa [apply0] using h
  case xAwaitEnd => simpa [apply0] using h
  case readBus => simpa [apply0] using h
  case rlWake => simpa [apply0] using h
  case rlPoll b' => simp only [apply0, rlIdleCheck]; split <;> simpa using h
  case wiBegin => simpa [apply0] using h
  case wiJoined x' => simp only [apply0]; split <;> simpa using h
  case wiIdle x' => simp only [apply0]; split <;> simpa using h
  case wiRecheck x' => simp only [apply0]; split <;> simpa using h
  case wiEnd => simpa [apply0] using h
  case wiCancel => simpa [apply0] using h
  case expectTimeout x' => simp only [apply0]; split <;> simpa using h
  case expectCancelReq x' => simp only [apply0]; split <;> simpa using h
  case hSkip p_ b_ e_ k_ => simp only [apply0]; split <;> simpa using h
  case stopBegin => simpa [apply0] using h
  case stopNoop => simpa [apply0] using h
  case stopEnd x' => simp only [apply0]; split <;> (try split) <;> simpa using h
  case rlExit b' => simp only [apply0, rlIdleCheck]; split <;> (try split) <;> simpa using h
  case cancelRl => simpa [apply0] using h
  case rlCancelled => simpa [apply0] using h
  case rlDropExit b' => simp only [apply0, rlIdleCheck]; split <;> simpa using h
  case expectBegin => simpa [apply0] using h
  case expectEnd x' got => simp only [apply0]; split <;> simpa using h
  case expectCancel x' => simp only [apply0]; split <;> simpa using h


end Bubus

namespace Bubus

def writesAct : Label → Bool
  | .peBegin .. | .hSched .. | .hFinish .. | .walWrite .. | .peEnd .. | .peAbort .. | .hSkip .. => true
  | _ => false

theorem markComplete_act (w : World) (x : EId) : (markComplete w x).act = w.act := by
  unfold markComplete; simp only []; repeat' split
  all_goals simp

theorem applyDispatch_act (w : World) (p : Proc) (b : BId) (e : EId) (res : DRes) : (applyDispatch w p b e res).act = w.act := by
  have h1 : ∀ w' : World, (dFwd w' p).act = w'.act := by intro w'; unfold dFwd; split <;> (try split) <;> simp
  have h2 : ∀ w' : World, (dPath w' b e).act = w'.act := by intro w'; unfold dPath; split <;> simp
  have h3 : ∀ w' : World, ∀ c, (dParent w' c e).act = w'.act := by intro w' c; unfold dParent; split <;> (try split) <;> simp
  have h4 : ∀ w' : World, ∀ c, (dChild w' c e).act = w'.act := by intro w' c; unfold dChild; split <;> (try split) <;> simp
  unfold applyDispatch
  cases res <;> simp [cleanup, dEnqueue, h1, h2, h3, h4]

/-- every other label leaves all activations alone -/
theorem apply0_act_frame (w : World) (l : Label) (h : writesAct l = false) : (apply0 w l).act = w.act := by
  cases l <;> simp [writesAct] at h
  case dispatch p b e res => exact applyDispatch_act w p b e res
  case newBus => simp [apply0]
  case on => simp [apply0]
  case off => simp [apply0]
  case newEvent => simp [apply0]
  case tick => simp [apply0]
  case rlCreate => simp [apply0]
  case take p b e => cases p <;> simp [apply0]
  case peRecTrip p b e => cases p <;> simp [apply0, rlBack]
  case hStart => simp [apply0]
  case hCancel => simp [apply0]
  case hEnd i out =>
    simp only [apply0]
    split <;> (try split) <;> (try split) <;> simp
  case awaitBegin => simp [apply0]
  case pollYield => simp [apply0]
  case awaitEnd => simp [apply0]
  case xAwaitEnd => simp [apply0]
  case readBus => simp [apply0]
  case rlWake => simp [apply0]
  case rlPoll b => simp only [apply0, rlIdleCheck]; split <;> simp
  case wiBegin => simp [apply0]
  case wiJoined x' => simp only [apply0]; split <;> simp
  case wiIdle x' => simp only [apply0]; split <;> simp
  case wiRecheck x' => simp only [apply0]; split <;> simp
  case wiEnd => simp [apply0]
  case wiCancel => simp [apply0]
  case expectTimeout x' => simp only [apply0]; split <;> simp
  case expectCancelReq x' => simp only [apply0]; split <;> simp
  case stopBegin => simp [apply0]
  case stopNoop => simp [apply0]
  case stopEnd x' => simp only [apply0]; split <;> (try split) <;> simp
  case rlExit b => simp only [apply0, rlIdleCheck]; split <;> (try split) <;> simp
  case cancelRl => simp [apply0]
  case rlCancelled => simp [apply0]
  case rlDropExit b => simp only [apply0, rlIdleCheck]; split <;> simp
  case expectBegin => simp [apply0]
  case expectEnd x' got => simp only [apply0]; split <;> simp
  case expectCancel x' => simp only [apply0]; split <;> simp

/-- handler `k` of activation `A` has been dealt with: it has a terminal result, or a live instance of the activation runs it -/
def Done (w : World) (A : Act) (k : HId) : Prop :=
  Terminal (w.ev A.ev) A.bus k ∨ ∃ i, i ∈ A.running ∧ idOf (w.inst i) = (A.ev, A.bus, k)

structure NSInv (w : World) : Prop where
  acts : ∀ p A, w.act p = some A → ∃ n, A.todo = A.sel.drop n ∧ (n = 0 ∨ A.ev < w.ne) ∧ ∀ k, k ∈ A.sel.take n → Done w A k
  run : ∀ p A i, w.act p = some A → i ∈ A.running → i < w.ni
  disj : ∀ p p' A A' i, w.act p = some A → w.act p' = some A' → i ∈ A.running → i ∈ A'.running → p = p'

/-- what carries `Done` from one world to the next -/
theorem done_mono (w w' : World) (A A' : Act) (k : HId) (hev : A'.ev = A.ev) (hbus : A'.bus = A.bus)
    (hne : A.ev < w.ne)
    (hterm : ∀ b k, Terminal (w.ev A.ev) b k → Terminal (w'.ev A.ev) b k)
    (hrun : ∀ i, i ∈ A.running → i ∈ A'.running ∧ idOf (w'.inst i) = idOf (w.inst i))
    (h : Done w A k) : Done w' A' k := by
  rcases h with h | ⟨i, hi, hid⟩
  · left; rw [hev, hbus]; exact hterm _ _ h
  · right
    obtain ⟨h1, h2⟩ := hrun i hi
    exact ⟨i, h1, by rw [h2, hid, hev, hbus]⟩

/-- the shape shared by all cases: every activation other than `p`'s is untouched, `p`'s new activation is justified separately -/
theorem nsinv_of (w : World) (l : Label) (hg : guard w l = true) (hI : NSInv w) (p : Proc)
    (hni : w.ni ≤ (apply0 w l).ni)
    (hoth : ∀ q, q ≠ p → (apply0 w l).act q = w.act q)
    (hp : ∀ A', (apply0 w l).act p = some A' →
        (∃ n, A'.todo = A'.sel.drop n ∧ (n = 0 ∨ A'.ev < (apply0 w l).ne) ∧ ∀ k, k ∈ A'.sel.take n → Done (apply0 w l) A' k) ∧
        (∀ i, i ∈ A'.running → i < (apply0 w l).ni) ∧
        (∀ q A i, q ≠ p → w.act q = some A → i ∈ A.running → i ∉ A'.running)) :
    NSInv (apply0 w l) := by
  have hne := apply0_ne_mono w l
  refine ⟨?_, ?_, ?_⟩
  · intro q A hA
    by_cases hq : q = p
    · subst hq; exact (hp A hA).1
    · rw [hoth q hq] at hA
      obtain ⟨n, h2, h1, h3⟩ := hI.acts q A hA
      refine ⟨n, h2, h1.imp id (fun h => Nat.lt_of_lt_of_le h hne), fun k hk => ?_⟩
      rcases h1 with h1 | h1
      · subst h1; simp at hk
      · exact done_mono w _ A A k rfl rfl h1 (fun b k ht => apply0_terminal w l A.ev b k h1 hg ht)
          (fun i hi => ⟨hi, apply0_inst_id w l i (hI.run q A i hA hi) hg⟩) (h3 k hk)
  · intro q A i hA hi
    by_cases hq : q = p
    · subst hq; exact (hp A hA).2.1 i hi
    · rw [hoth q hq] at hA
      exact Nat.lt_of_lt_of_le (hI.run q A i hA hi) hni
  · intro q q' A A' i hA hA' hi hi'
    by_cases hq : q = p <;> by_cases hq' : q' = p
    · rw [hq, hq']
    · subst hq; rw [hoth q' hq'] at hA'
      exact absurd hi ((hp A hA).2.2 q' A' i hq' hA' hi')
    · subst hq'; rw [hoth q hq] at hA
      exact absurd hi' ((hp A' hA').2.2 q A i hq hA hi)
    · rw [hoth q hq] at hA; rw [hoth q' hq'] at hA'
      exact hI.disj q q' A A' i hA hA' hi hi'

/-- labels that leave the activations alone preserve the invariant -/
theorem nsinv_frame (w : World) (l : Label) (hg : guard w l = true) (hI : NSInv w) (hwa : writesAct l = false) :
    NSInv (apply0 w l) := by
  have hact := apply0_act_frame w l hwa
  have hni : w.ni ≤ (apply0 w l).ni := by
    rw [apply0_ni]; cases l <;> simp [writesAct] at hwa ⊢
  refine nsinv_of w l hg hI .ext hni (fun q _ => by rw [hact]) ?_
  intro A' hA'
  rw [hact] at hA'
  have hne := apply0_ne_mono w l
  obtain ⟨n, h2, h1, h3⟩ := hI.acts .ext A' hA'
  refine ⟨⟨n, h2, h1.imp id (fun h => Nat.lt_of_lt_of_le h hne), fun k hk => ?_⟩, ?_, ?_⟩
  · rcases h1 with h1 | h1
    · subst h1; simp at hk
    · exact done_mono w _ A' A' k rfl rfl h1 (fun b k ht => apply0_terminal w l A'.ev b k h1 hg ht)
        (fun i hi => ⟨hi, apply0_inst_id w l i (hI.run .ext A' i hA' hi) hg⟩) (h3 k hk)
  · intro i hi; exact Nat.lt_of_lt_of_le (hI.run .ext A' i hA' hi) hni
  · intro q A i hq hA hi hi'
    exact hq (hI.disj q .ext A A' i hA hA' hi hi')


/-! ### the labels that write an activation -/

theorem peEnter_act (w : World) (p : Proc) (b : BId) : (peEnter w p b).act = w.act := by
  cases p <;> simp [peEnter]

theorem peOpen_act_same (w : World) (p : Proc) (b : BId) (e : EId) :
    (peOpen w p b e).act p = some { bus := b, ev := e, todo := applicable w b e, running := [], sel := applicable w b e } := by
  unfold peOpen; simp only []; split <;> simp [markComplete_act]

theorem peOpen_act_other (w : World) (p q : Proc) (b : BId) (e : EId) (h : q ≠ p) : (peOpen w p b e).act q = w.act q := by
  unfold peOpen; simp only []; split <;> simp [markComplete_act, h]

theorem nsinv_peBegin (w : World) (p : Proc) (b : BId) (e : EId) (hg : guard w (.peBegin p b e) = true) (hI : NSInv w) :
    NSInv (apply0 w (.peBegin p b e)) := by
  refine nsinv_of w _ hg hI p (by rw [apply0_ni]; exact Nat.le_refl _) ?_ ?_
  · intro q hq
    simp only [apply0]
    rw [peOpen_act_other _ _ _ _ _ hq, peEnter_act]
  · intro A' hA'
    simp only [apply0] at hA'
    rw [peOpen_act_same] at hA'
    cases hA'
    refine ⟨⟨0, by simp, Or.inl rfl, by simp⟩, by simp, by simp⟩


theorem applySched_act_same (w : World) (p : Proc) (i : IId) (b : BId) (e : EId) (k : HId) (A : Act) (hA : w.act p = some A) :
    (applySched w p i b e k).act p = some { A with todo := A.todo.tail, running := A.running ++ [i] } := by
  unfold applySched; simp [hA]

theorem applySched_act_other (w : World) (p q : Proc) (i : IId) (b : BId) (e : EId) (k : HId) (h : q ≠ p) :
    (applySched w p i b e k).act q = w.act q := by
  unfold applySched; cases hA : w.act p <;> simp [h]

theorem nsinv_hSched (w : World) (p : Proc) (i : IId) (b : BId) (e : EId) (k : HId)
    (hg : guard w (.hSched p i b e k) = true) (hI : NSInv w) : NSInv (apply0 w (.hSched p i b e k)) := by
  have hgg := hg
  simp [guard, checks, Checks.ok] at hgg
  obtain ⟨hi, hne, hact, _, hhead, _, hp, _⟩ := hgg
  subst hi
  cases hA : w.act p with
  | none => simp [actIs, hA] at hact
  | some A =>
    simp [actIs, hA] at hact
    obtain ⟨hb, he⟩ := hact
    simp [hA] at hhead
    cases hr : (w.ev e).getRes? b k with
    | none => simp [hr] at hp
    | some r =>
    obtain ⟨_, hid⟩ := hSched_new_instance w p b e k r hr
    have hne' := apply0_ne_mono w (.hSched p w.ni b e k)
    refine nsinv_of w _ hg hI p (by rw [apply0_ni]; exact Nat.le_succ _) ?_ ?_
    · intro q hq; simp only [apply0]; exact applySched_act_other _ _ _ _ _ _ _ hq
    · intro A' hA'
      have hA'' := hA'
      simp only [apply0] at hA''
      rw [applySched_act_same _ _ _ _ _ _ A hA] at hA''
      cases hA''
      obtain ⟨n, h2, _, h3⟩ := hI.acts p A hA
      have hAne : A.ev < w.ne := by rw [he]; exact hne
      have hn : A.sel[n]? = some k := by
        have := hhead; rw [h2, List.head?_drop] at this; exact this
      refine ⟨⟨n + 1, ?_, Or.inr (Nat.lt_of_lt_of_le hAne hne'), ?_⟩, ?_, ?_⟩
      · show A.todo.tail = A.sel.drop (n + 1)
        rw [h2, List.tail_drop]
      · intro k' hk'
        have hk'' : k' ∈ A.sel.take n ∨ k' = k := by
          have : k' ∈ A.sel.take (n + 1) := hk'
          rw [List.take_succ, hn] at this
          simpa using this
        rcases hk'' with hk'' | hk''
        · refine done_mono w _ A _ k' rfl rfl hAne
            (fun b' k'' ht => apply0_terminal w _ A.ev b' k'' hAne hg ht) ?_ (h3 k' hk'')
          intro j hj
          exact ⟨by simp [hj], apply0_inst_id w _ j (hI.run p A j hA hj) hg⟩
        · subst hk''
          right
          refine ⟨w.ni, by simp, ?_⟩
          rw [hid, he, hb]
      · intro j hj
        rw [apply0_ni]
        have : j ∈ A.running ++ [w.ni] := hj
        simp at this
        rcases this with h | h
        · exact Nat.lt_succ_of_lt (hI.run p A j hA h)
        · subst h; exact Nat.lt_succ_self _
      · intro q B j hq hB hj hj'
        have : j ∈ A.running ++ [w.ni] := hj'
        simp at this
        rcases this with h | h
        · exact hq (hI.disj q p B A j hB hA hj h)
        · subst h; exact absurd (hI.run q B _ hB hj) (Nat.lt_irrefl _)


theorem cancelPendingChildren_act (fuel : Nat) (w : World) (x : EId) : (cancelPendingChildren w fuel x).act = w.act := by
  induction fuel generalizing w x with
  | zero => rfl
  | succ n ih =>
    unfold cancelPendingChildren
    generalize (w.ev x).children = cs
    induction cs generalizing w with
    | nil => rfl
    | cons c cs ihc => simp only [List.foldl_cons]; rw [ihc, ih]; simp

theorem applyFinish_act_same (w : World) (i : IId) (r : Fin) (A : Act) (hA : w.act (w.inst i).exec = some A) :
    (applyFinish w i r).act (w.inst i).exec = some { A with running := A.running.erase i } := by
  unfold applyFinish; simp only [hA]; split <;> simp [cancelPendingChildren_act]

theorem applyFinish_act_other (w : World) (i : IId) (r : Fin) (q : Proc) (h : q ≠ (w.inst i).exec) :
    (applyFinish w i r).act q = w.act q := by
  unfold applyFinish; simp only []
  cases hA : w.act (w.inst i).exec <;> simp only [] <;> split <;> simp [cancelPendingChildren_act, h]

/-- recording an instance's outcome makes the result of its (event, bus, handler) terminal -/
theorem applyFinish_makes_terminal (w : World) (i : IId) (r : Fin)
    (hst : Started (w.ev (w.inst i).ev) (w.inst i).bus (w.inst i).hid) :
    Terminal ((applyFinish w i r).ev (w.inst i).ev) (w.inst i).bus (w.inst i).hid := by
  obtain ⟨r0, hr0, _⟩ := hst
  have hfound := List.find?_some hr0
  have h1 : Terminal ((w.modEv (w.inst i).ev fun E => E.updRes (w.inst i).bus (w.inst i).hid fun x =>
      { x with status := r.status, err := r.err }).ev (w.inst i).ev) (w.inst i).bus (w.inst i).hid := by
    simp only [modEv_eq, setEv_ev, if_true]
    refine ⟨{ r0 with status := r.status, err := r.err }, ?_, by cases r <;> simp [Fin.status, Res.terminal]⟩
    simp only [Ev.getRes?, Ev.updRes] at hr0 ⊢
    rw [getRes_map _ _ _ _ (by intro y; split <;> simp), hr0]
    simp only [Option.map_some, hfound, if_true]
  unfold applyFinish
  simp only []
  cases hA : w.act (w.inst i).exec <;> simp only [] <;> split <;>
    first
    | (apply cancelPendingChildren_terminal; simpa using h1)
    | (simpa using h1)

theorem nsinv_hFinish (w : World) (i : IId) (r : Fin) (hg : guard w (.hFinish i r) = true) (hI : NSInv w) (hO : OnceInv w) :
    NSInv (apply0 w (.hFinish i r)) := by
  have hgg := hg
  simp [guard, checks, Checks.ok] at hgg
  obtain ⟨hi, _, _, hrun⟩ := hgg
  cases hA : w.act (w.inst i).exec with
  | none => simp [hA] at hrun
  | some A =>
    simp [hA] at hrun
    have hne' := apply0_ne_mono w (.hFinish i r)
    refine nsinv_of w _ hg hI (w.inst i).exec (by rw [apply0_ni]; exact Nat.le_refl _) ?_ ?_
    · intro q hq; simp only [apply0]; exact applyFinish_act_other _ _ _ _ hq
    · intro A' hA'
      have hA'' := hA'
      simp only [apply0] at hA''
      rw [applyFinish_act_same _ _ _ A hA] at hA''
      cases hA''
      obtain ⟨n, h2, h1, h3⟩ := hI.acts _ A hA
      refine ⟨⟨n, h2, h1.imp id (fun h => Nat.lt_of_lt_of_le h hne'), ?_⟩, ?_, ?_⟩
      · intro k hk
        rcases h1 with h1 | h1
        · subst h1; simp at hk
        · rcases h3 k hk with ht | ⟨j, hj, hid⟩
          · left; exact apply0_terminal w _ A.ev A.bus k h1 hg ht
          · by_cases hji : j = i
            · -- the finishing instance was the witness: its result is terminal now
              subst hji
              left
              have := applyFinish_makes_terminal w j r (hO j hi).1
              simp only [idOf, Prod.mk.injEq] at hid
              obtain ⟨e1, e2, e3⟩ := hid
              rw [e1, e2, e3] at this
              exact this
            · right
              refine ⟨j, (List.mem_erase_of_ne hji).mpr hj, ?_⟩
              rw [apply0_inst_id w _ j (hI.run _ A j hA hj) hg]; exact hid
      · intro j hj
        rw [apply0_ni]
        exact hI.run _ A j hA (List.mem_of_mem_erase hj)
      · intro q B j hq hB hj hj'
        exact hq (hI.disj q _ B A j hB hA hj (List.mem_of_mem_erase hj'))


theorem parentWalk_act (fuel : Nat) (w : World) (x : EId) (seen : List EId) : (parentWalk w fuel x seen).act = w.act := by
  induction fuel generalizing w x seen with
  | zero => rfl
  | succ n ih =>
    unfold parentWalk
    split
    · rfl
    · split
      · rfl
      · split
        · rw [ih, markComplete_act]
        · rfl

theorem releaseRl_act (w : World) (b : BId) : (releaseRl w b).act = w.act := by
  unfold releaseRl rlIdleCheck rlBack; split <;> simp

theorem peClose_act (w : World) (p : Proc) (b : BId) (e : EId) : (peClose w p b e).act = (w.setAct p none).act := by
  unfold peClose
  funext q
  by_cases hq : q = p
  · subst hq; simp
  · simp [hq, cleanup_act, parentWalk_act, markComplete_act]

/-- closing an activation (normally or not) removes it and touches no other -/
theorem nsinv_close (w : World) (l : Label) (p : Proc) (hg : guard w l = true) (hI : NSInv w)
    (hni : (apply0 w l).ni = w.ni) (hact : (apply0 w l).act = (w.setAct p none).act) : NSInv (apply0 w l) := by
  refine nsinv_of w l hg hI p (by rw [hni]; exact Nat.le_refl _) ?_ ?_
  · intro q hq; rw [hact]; simp [hq]
  · intro A' hA'; rw [hact] at hA'; simp at hA'

theorem nsinv_peEnd (w : World) (p : Proc) (b : BId) (e : EId) (hg : guard w (.peEnd p b e) = true) (hI : NSInv w) :
    NSInv (apply0 w (.peEnd p b e)) := by
  refine nsinv_close w _ p hg hI (by rw [apply0_ni]) ?_
  cases p <;> simp only [apply0] <;> simp [releaseRl_act, peClose_act]

theorem nsinv_peAbort (w : World) (p : Proc) (b : BId) (e : EId) (hg : guard w (.peAbort p b e) = true) (hI : NSInv w) :
    NSInv (apply0 w (.peAbort p b e)) := by
  refine nsinv_close w _ p hg hI (by rw [apply0_ni]) ?_
  cases p <;> simp [apply0]

theorem nsinv_walWrite (w : World) (p : Proc) (b : BId) (e : EId) (ok : Bool) (hg : guard w (.walWrite p b e ok) = true)
    (hI : NSInv w) : NSInv (apply0 w (.walWrite p b e ok)) := by
  have hne' := apply0_ne_mono w (.walWrite p b e ok)
  have hoth : ∀ q, q ≠ p → (apply0 w (.walWrite p b e ok)).act q = w.act q := by
    intro q hq
    simp only [apply0]
    cases hA : w.act p <;> cases ok <;> simp [hq]
  refine nsinv_of w _ hg hI p (by rw [apply0_ni]; exact Nat.le_refl _) hoth ?_
  intro A' hA'
  cases hA : w.act p with
  | none =>
    exfalso
    simp only [apply0, hA] at hA'
    cases ok <;> simp [hA] at hA'
  | some A =>
    have hsame : A' = { A with walDone := true } := by
      simp only [apply0, hA] at hA'
      cases ok <;> simp at hA' <;> exact hA'.symm
    subst hsame
    obtain ⟨n, h2, h1, h3⟩ := hI.acts p A hA
    refine ⟨⟨n, h2, h1.imp id (fun h => Nat.lt_of_lt_of_le h hne'), ?_⟩, ?_, ?_⟩
    · intro k hk
      rcases h1 with h1 | h1
      · subst h1; simp at hk
      · exact done_mono w _ A _ k rfl rfl h1 (fun b' k' ht => apply0_terminal w _ A.ev b' k' h1 hg ht)
          (fun j hj => ⟨hj, apply0_inst_id w _ j (hI.run p A j hA hj) hg⟩) (h3 k hk)
    · intro j hj; rw [apply0_ni]; exact hI.run p A j hA hj
    · intro q B j hq hB hj hj'
      exact hq (hI.disj q p B A j hB hA hj hj')


/-- passing over a handler whose result was made terminal meanwhile: the handler moves from the to-do part to the part that
    is accounted for, by its terminal result -/
theorem nsinv_hSkip (w : World) (p : Proc) (b : BId) (e : EId) (k : HId)
    (hg : guard w (.hSkip p b e k) = true) (hI : NSInv w) : NSInv (apply0 w (.hSkip p b e k)) := by
  have hgg := hg
  simp [guard, checks, Checks.ok] at hgg
  obtain ⟨hact, _, hhead, hterm, hlt⟩ := hgg
  have hne' := apply0_ne_mono w (.hSkip p b e k)
  have hev : (apply0 w (.hSkip p b e k)).ev = w.ev := by
    simp only [apply0]; cases hA : w.act p <;> simp
  have hinst : (apply0 w (.hSkip p b e k)).inst = w.inst := by
    simp only [apply0]; cases hA : w.act p <;> simp
  cases hA : w.act p with
  | none => simp [actIs, hA] at hact
  | some A =>
    simp [actIs, hA] at hact
    obtain ⟨hb, he⟩ := hact
    simp [hA] at hhead
    have hT : Terminal (w.ev A.ev) A.bus k := by
      rw [he, hb]
      cases hr : (w.ev e).getRes? b k with
      | none => simp [hr] at hterm
      | some r => simp [hr] at hterm; exact ⟨r, hr, hterm⟩
    have hoth : ∀ q, q ≠ p → (apply0 w (.hSkip p b e k)).act q = w.act q := by
      intro q hq; simp only [apply0, hA]; simp [hq]
    refine nsinv_of w _ hg hI p (by rw [apply0_ni]; exact Nat.le_refl _) hoth ?_
    intro A' hA'
    have hsame : A' = { A with todo := A.todo.tail } := by
      simp only [apply0, hA] at hA'; simp at hA'; exact hA'.symm
    subst hsame
    obtain ⟨n, h2, h1, h3⟩ := hI.acts p A hA
    have hn : A.sel[n]? = some k := by
      have := hhead; rw [h2, List.head?_drop] at this; exact this
    -- the skipped handler's result exists, so its event exists
    refine ⟨⟨n + 1, ?_, ?_, ?_⟩, ?_, ?_⟩
    · show A.todo.tail = A.sel.drop (n + 1)
      rw [h2, List.tail_drop]
    · exact Or.inr (Nat.lt_of_lt_of_le (by rw [he]; exact hlt) hne')
    · intro k' hk'
      have hk'' : k' ∈ A.sel.take n ∨ k' = k := by
        have : k' ∈ A.sel.take (n + 1) := hk'
        rw [List.take_add_one, hn] at this
        simpa using this
      rcases hk'' with hk'' | hk''
      · rcases h3 k' hk'' with ht | ⟨j, hj, hid⟩
        · left; show Terminal ((apply0 w (.hSkip p b e k)).ev A.ev) A.bus k'; rw [hev]; exact ht
        · right; exact ⟨j, hj, by rw [hinst]; exact hid⟩
      · subst hk''
        left; show Terminal ((apply0 w (.hSkip p b e k')).ev A.ev) A.bus k'; rw [hev]; exact hT
    · intro j hj; rw [apply0_ni]; exact hI.run p A j hA hj
    · intro q B j hq hB hj hj'
      exact hq (hI.disj q p B A j hB hA hj hj')

/-! ### every reachable state -/

theorem nsinv_apply0 (w : World) (l : Label) (hg : guard w l = true) (hI : NSInv w) (hO : OnceInv w) : NSInv (apply0 w l) := by
  cases hw : writesAct l
  · exact nsinv_frame w l hg hI hw
  · cases l <;> simp [writesAct] at hw
    case peBegin p b e => exact nsinv_peBegin w p b e hg hI
    case hSched p i b e k => exact nsinv_hSched w p i b e k hg hI
    case hFinish i r => exact nsinv_hFinish w i r hg hI hO
    case walWrite p b e ok => exact nsinv_walWrite w p b e ok hg hI
    case peEnd p b e => exact nsinv_peEnd w p b e hg hI
    case peAbort p b e => exact nsinv_peAbort w p b e hg hI
    case hSkip p b e k => exact nsinv_hSkip w p b e k hg hI

theorem nsinv_wake (w : World) (h : NSInv w) : NSInv (wake w) := by
  refine ⟨?_, ?_, ?_⟩
  · intro p A hA
    simp only [wake_act] at hA
    obtain ⟨n, h2, h1, h3⟩ := h.acts p A hA
    refine ⟨n, h2, by simpa only [wake_ne] using h1, fun k hk => ?_⟩
    have := h3 k hk
    unfold Done at this ⊢
    simpa only [wake_ev, wake_inst] using this
  · intro p A i hA hi
    simp only [wake_act] at hA
    simpa only [wake_ni] using h.run p A i hA hi
  · intro p p' A A' i hA hA' hi hi'
    simp only [wake_act] at hA hA'
    exact h.disj p p' A A' i hA hA' hi hi'

theorem nsinv_step (w w' : World) (l : Label) (hI : NSInv w) (hO : OnceInv w) (hs : step w l = some w') : NSInv w' := by
  obtain ⟨hg, rfl⟩ := step_some hs
  exact nsinv_wake _ (nsinv_apply0 w l hg hI hO)

theorem nsinv_init : NSInv ({} : World) := by
  refine ⟨?_, ?_, ?_⟩ <;> intro p <;> intros <;> simp_all [World.act]

theorem nsinv_run (w w' : World) (ls : List Label) (hI : NSInv w) (hO : OnceInv w) (h : run w ls = some w') :
    NSInv w' ∧ OnceInv w' := by
  induction ls generalizing w with
  | nil => simp [run] at h; subst h; exact ⟨hI, hO⟩
  | cons l ls ih =>
    simp only [run] at h
    cases hs : step w l with
    | none => simp [hs] at h
    | some w1 =>
      simp only [hs] at h
      exact ih w1 (nsinv_step w w1 l hI hO hs) (onceInv_step w w1 l hO hs) h

theorem nsinv_reachable (w : World) (hr : Reachable w) : NSInv w := by
  obtain ⟨ls, h⟩ := hr
  exact (nsinv_run {} w ls nsinv_init onceInv_init h).1

namespace Thm

/-- C01, "no handler is skipped", for every reachable state: in every open activation each handler that was selected when the
    activation began is still on its to-do list, or is being run by a live instance of this activation, or already has a
    terminal result on the event. Nothing selected is ever lost from all three. -/
theorem C01_a_selected_handler_is_never_lost (w : World) (hr : Reachable w) (p : Proc) (A : Act) (hA : w.act p = some A)
    (k : HId) (hk : k ∈ A.sel) :
    k ∈ A.todo ∨ (∃ i, i ∈ A.running ∧ (w.inst i).ev = A.ev ∧ (w.inst i).bus = A.bus ∧ (w.inst i).hid = k) ∨
      (∃ r, (w.ev A.ev).getRes? A.bus k = some r ∧ r.terminal = true) := by
  obtain ⟨n, h2, _, h3⟩ := (nsinv_reachable w hr).acts p A hA
  have hsplit : k ∈ A.sel.take n ∨ k ∈ A.sel.drop n := by
    rw [← List.take_append_drop n A.sel] at hk
    exact List.mem_append.mp hk
  rcases hsplit with h | h
  · rcases h3 k h with ht | ⟨i, hi, hid⟩
    · exact Or.inr (Or.inr ht)
    · simp only [idOf, Prod.mk.injEq] at hid
      exact Or.inr (Or.inl ⟨i, hi, hid⟩)
  · left; rw [h2]; exact h

/-- C01, "no handler is skipped": when an activation ends normally in a reachable state (`peEnd` is enabled only with an
    empty to-do list and no running instance), every handler selected at its beginning has a terminal result on the event. -/
theorem C01_an_activation_ends_only_after_every_selected_handler_has_a_terminal_result (w w' : World) (hr : Reachable w)
    (p : Proc) (b : BId) (e : EId) (hs : step w (.peEnd p b e) = some w') :
    ∃ A, w.act p = some A ∧ A.bus = b ∧ A.ev = e ∧
      ∀ k, k ∈ A.sel → ∃ r, (w.ev e).getRes? b k = some r ∧ r.terminal = true := by
  obtain ⟨hg, _⟩ := step_some hs
  have hgg := hg
  simp [guard, checks, Checks.ok] at hgg
  obtain ⟨hact, hout, _⟩ := hgg
  cases hA : w.act p with
  | none => simp [actIs, hA] at hact
  | some A =>
    simp [actIs, hA] at hact
    simp [hA] at hout
    obtain ⟨hb, he⟩ := hact
    obtain ⟨htodo, hrun⟩ := hout
    refine ⟨A, rfl, hb, he, fun k hk => ?_⟩
    rcases C01_a_selected_handler_is_never_lost w hr p A hA k hk with h | ⟨i, hi, _⟩ | h
    · rw [htodo] at h; simp at h
    · rw [hrun] at hi; simp at hi
    · rw [← hb, ← he]; exact h

end Thm

end Bubus
