/-
  Bubus.Proofs.NoSkip — C01 (no handler is skipped) as an invariant of all reachable states: every handler selected when an
  activation began is still on its to-do list, or has a live instance in the activation, or has a terminal result; so when
  the activation ends normally every selected handler has run to a terminal result.
-/
import Bubus.Proofs.Lineage
namespace Bubus

/-- the result of (bus b, handler k) on the event exists and is terminal (completed or error) -/
def Terminal (E : Ev) (b : BId) (k : HId) : Prop := ∃ r, E.getRes? b k = some r ∧ r.terminal = true

theorem terminal_congr (E E' : Ev) (b : BId) (k : HId) (h : E'.results = E.results) : Terminal E b k → Terminal E' b k := by
  intro ⟨r, hr, hst⟩
  exact ⟨r, by simpa [Ev.getRes?, h] using hr, hst⟩

theorem terminal_append (E : Ev) (b : BId) (k : HId) (extra : List Res) (h : Terminal E b k) :
    Terminal { E with results := E.results ++ extra } b k := by
  obtain ⟨r, hr, hst⟩ := h
  refine ⟨r, ?_, hst⟩
  simp only [Ev.getRes?] at hr ⊢
  rw [List.find?_append, hr]; rfl

/-- mapping the results with a function that keeps identities and keeps the followed result terminal -/
theorem terminal_map (E : Ev) (b : BId) (k : HId) (f : Res → Res)
    (hf : ∀ r, (f r).hid = r.hid ∧ (f r).bus = r.bus)
    (hs : ∀ r, r.hid = k → r.bus = b → r.terminal = true → (f r).terminal = true)
    (h : Terminal E b k) : Terminal { E with results := E.results.map f } b k := by
  obtain ⟨r, hr, hst⟩ := h
  have hrk : r.hid = k ∧ r.bus = b := by
    simp only [Ev.getRes?] at hr
    have := List.find?_some hr
    simpa using this
  refine ⟨f r, ?_, hs r hrk.1 hrk.2 hst⟩
  simp only [Ev.getRes?] at hr ⊢
  rw [getRes_map _ _ _ _ hf, hr]; rfl

theorem updRes_terminal (E : Ev) (b k : Nat) (b' k' : Nat) (f : Res → Res)
    (hf : ∀ r, (f r).hid = r.hid ∧ (f r).bus = r.bus)
    (hs : ∀ r, r.hid = k → r.bus = b → r.hid = k' ∧ r.bus = b' → r.terminal = true → (f r).terminal = true)
    (h : Terminal E b k) : Terminal (E.updRes b' k' f) b k := by
  unfold Ev.updRes
  apply terminal_map E b k _ _ _ h
  · intro r; split <;> simp [hf r]
  · intro r h1 h2 ht
    split
    · rename_i hc
      simp only [Bool.and_eq_true, beq_iff_eq] at hc
      exact hs r h1 h2 hc ht
    · exact ht

theorem cancelPendingChildren_terminal (w : World) (fuel : Nat) (e : EId) (x : EId) (b : BId) (k : HId)
    (h : Terminal (w.ev x) b k) : Terminal ((cancelPendingChildren w fuel e).ev x) b k := by
  induction fuel generalizing w e with
  | zero => exact h
  | succ n ih =>
    unfold cancelPendingChildren
    generalize (w.ev e).children = cs
    induction cs generalizing w with
    | nil => exact h
    | cons c cs ihc =>
      simp only [List.foldl_cons]
      apply ihc
      apply ih
      simp only [modEv_eq, setEv_ev]
      split
      · rename_i hx
        subst hx
        apply terminal_map (w.ev x) b k _ _ _ h
        · intro r; split <;> simp
        · intro r _ _ ht; split
          · simp [Res.terminal]
          · exact ht
      · exact h

theorem markComplete_terminal (w : World) (e x : EId) (b : BId) (k : HId) (h : Terminal (w.ev x) b k) :
    Terminal ((markComplete w e).ev x) b k :=
  terminal_congr _ _ b k (markComplete_results w e x) h

theorem peOpen_terminal (w : World) (p : Proc) (b' : BId) (e x : EId) (b : BId) (k : HId) (h : Terminal (w.ev x) b k) :
    Terminal ((peOpen w p b' e).ev x) b k := by
  unfold peOpen
  simp only []
  have h1 : Terminal (((w.modEv e fun E => { E with results := E.results ++ (applicable w b' e).map fun k => { hid := k, bus := b' } }).setAct p
      (some { bus := b', ev := e, todo := applicable w b' e, running := [], sel := applicable w b' e })).ev x) b k := by
    simp only [setAct_ev, modEv_eq, setEv_ev]
    split
    · rename_i hx; subst hx; exact terminal_append _ _ _ _ h
    · exact h
  split
  · exact markComplete_terminal _ _ _ _ _ h1
  · exact h1

theorem peClose_terminal (w : World) (p : Proc) (b' : BId) (e x : EId) (b : BId) (k : HId) (h : Terminal (w.ev x) b k) :
    Terminal ((peClose w p b' e).ev x) b k := by
  unfold peClose
  simp only [modBus_eq, setBus_ev, setAct_ev, cleanup_ev]
  exact terminal_congr _ _ b k (by rw [parentWalk_results, markComplete_results]) h

theorem applyDispatch_terminal (w : World) (p : Proc) (b' : BId) (e : EId) (res : DRes) (x : EId) (b : BId) (k : HId)
    (h : Terminal (w.ev x) b k) : Terminal ((applyDispatch w p b' e res).ev x) b k := by
  have h1 : Terminal ((dFwd (dPath (dParent w (ctxOf w p) e) b' e) p).ev x) b k :=
    terminal_congr _ _ b k (by rw [dFwd_ev, dPath_results, dParent_results]) h
  unfold applyDispatch
  cases res <;> simp only [] <;> try exact h1
  rw [cleanup_ev]
  unfold dChild
  split
  · split
    · simp only [modEv_eq, setEv_ev]
      split
      · rename_i hx
        subst hx
        apply updRes_terminal
        · intro r; exact ⟨rfl, rfl⟩
        · intro r _ _ _ hr; exact hr
        · rw [dEnqueue_ev]; exact h1
      · rw [dEnqueue_ev]; exact h1
    · rw [dEnqueue_ev]; exact h1
  · rw [dEnqueue_ev]; exact h1

theorem applyFinish_terminal (w : World) (i : IId) (r : Fin) (x : EId) (b : BId) (k : HId)
    (h : Terminal (w.ev x) b k) : Terminal ((applyFinish w i r).ev x) b k := by
  unfold applyFinish
  simp only []
  have h1 : Terminal ((w.modEv (w.inst i).ev fun E => E.updRes (w.inst i).bus (w.inst i).hid fun x =>
      { x with status := r.status, err := r.err }).ev x) b k := by
    simp only [modEv_eq, setEv_ev]
    split
    · rename_i hx; subst hx
      apply updRes_terminal _ _ _ _ _ _ _ _ h
      · intro y; exact ⟨rfl, rfl⟩
      · intro y _ _ _ _; cases r <;> simp [Fin.status, Res.terminal]
    · exact h
  cases hA : w.act (w.inst i).exec <;> simp only [] <;> split <;>
    first
    | (apply cancelPendingChildren_terminal; simpa using h1)
    | (simpa using h1)

/-- no label ever makes a terminal result non-terminal, for any existing event -/
theorem apply0_terminal (w : World) (l : Label) (x : EId) (b : BId) (k : HId) (hx : x < w.ne)
    (hg : guard w l = true) (h : Terminal (w.ev x) b k) : Terminal ((apply0 w l).ev x) b k := by
  cases l
  case newEvent e ty par to =>
    simp [guard, checks, Checks.ok] at hg
    have he : x ≠ e := by
      have h0 : e = w.ne := hg.1
      intro hxe
      rw [hxe, h0] at hx
      exact Nat.lt_irrefl _ hx
    simp only [apply0, setNe_ev, setEv_ev, he, if_false]
    exact h
  case dispatch p b' e res => exact applyDispatch_terminal w p b' e res x b k h
  case peBegin p b' e =>
    show Terminal ((peOpen (peEnter w p b') p b' e).ev x) b k
    apply peOpen_terminal
    cases p <;> simpa [peEnter] using h
  case hSched p i b' e k' =>
    show Terminal ((applySched w p i b' e k').ev x) b k
    have hstep : step w (.hSched p i b' e k') = some (apply w (.hSched p i b' e k')) := by simp [step, hg]
    obtain ⟨r0, hr0, hp0⟩ := Thm.C01_scheduling_requires_a_pending_result w _ p i b' e k' hstep
    have h1 : Terminal ((w.modEv e fun E => E.updRes b' k' fun r => { r with status := .started }).ev x) b k := by
      simp only [modEv_eq, setEv_ev]
      split
      · rename_i hxe; subst hxe
        by_cases hkey : k = k' ∧ b = b'
        · -- the result being started is pending by the guard, the one we follow is terminal: different results
          obtain ⟨r, hr, ht⟩ := h
          rw [hkey.1, hkey.2, hr0] at hr
          injection hr with hr
          subst hr
          simp [Res.terminal, hp0] at ht
        · apply updRes_terminal (w.ev x) b k b' k' _ _ _ h
          · intro y; exact ⟨rfl, rfl⟩
          · intro y hy1 hy2 hy3 _
            exfalso; exact hkey ⟨hy1.symm.trans hy3.1, hy2.symm.trans hy3.2⟩
      · exact h
    unfold applySched
    cases hA : w.act p <;> simpa using h1
  case hFinish i r => exact applyFinish_terminal w i r x b k h
  case peEnd p b' e =>
    simp only [apply0]
    cases p
    · rw [releaseRl_ev]; exact peClose_terminal w _ b' e x b k h
    · exact peClose_terminal w _ b' e x b k h
    · exact peClose_terminal w _ b' e x b k h
  case newBus => simpa [apply0] using h
  case on => simpa [apply0] using h
  case off => simpa [apply0] using h
  case tick => simpa [apply0] using h
  case rlCreate => simpa [apply0] using h
  case take p b' e => cases p <;> simpa [apply0] using h
  case peRecTrip p b' e => cases p <;> simp [apply0, rlBack] <;> exact h
  case hStart => simpa [apply0] using h
  case hCancel => simpa [apply0] using h
  case hEnd i out =>
    simp only [apply0]
    split <;> (try split) <;> (try split) <;> simpa using h
  case walWrite p b' e ok =>
    simp only [apply0]
    cases hA : w.act p <;> cases ok <;> simpa [hA] using h
  case peAbort p b' e => cases p <;> simpa [apply0] using h
  case awaitBegin => simpa [apply0] using h
  case pollYield => simpa [apply0] using h
  case awaitEnd => simpa [apply0] using h
  case xAwaitEnd => simpa [apply0] using h
  case readBus => simpa [apply0] using h
  case rlWake => simpa [apply0] using h
  case rlPoll b' => simp only [apply0, rlIdleCheck]; split <;> simpa using h
  case wiBegin => simpa [apply0] using h
  case wiJoined x' => simp only [apply0]; split <;> simpa using h
  case wiIdle x' => simp only [apply0]; split <;> simpa using h
  case wiRecheck x' => simp only [apply0]; split <;> simpa using h
  case wiEnd => simpa [apply0] using h
  case wiCancel => simpa [apply0] using h
  case expectTimeout x' => simp only [apply0]; split <;> simpa using h
  case expectCancelReq x' => simp only [apply0]; split <;> simpa using h
  case stopBegin => simpa [apply0] using h
  case stopNoop => simpa [apply0] using h
  case stopEnd x' => simp only [apply0]; split <;> (try split) <;> simpa using h
  case rlExit b' => simp only [apply0, rlIdleCheck]; split <;> (try split) <;> simpa using h
  case cancelRl => simpa [apply0] using h
  case rlCancelled => simpa [apply0] using h
  case rlDropExit b' => simp only [apply0, rlIdleCheck]; split <;> simpa using h
  case expectBegin => simpa [apply0] using h
  case expectEnd x' got => simp only [apply0]; split <;> simpa using h
  case expectCancel x' => simp only [apply0]; split <;> simpa using h


end Bubus

namespace Bubus

def writesAct : Label → Bool
  | .peBegin .. | .hSched .. | .hFinish .. | .walWrite .. | .peEnd .. | .peAbort .. => true
  | _ => false

theorem markComplete_act (w : World) (x : EId) : (markComplete w x).act = w.act := by
  unfold markComplete; simp only []; repeat' split
  all_goals simp

theorem applyDispatch_act (w : World) (p : Proc) (b : BId) (e : EId) (res : DRes) : (applyDispatch w p b e res).act = w.act := by
  have h1 : ∀ w' : World, (dFwd w' p).act = w'.act := by intro w'; unfold dFwd; split <;> (try split) <;> simp
  have h2 : ∀ w' : World, (dPath w' b e).act = w'.act := by intro w'; unfold dPath; split <;> simp
  have h3 : ∀ w' : World, ∀ c, (dParent w' c e).act = w'.act := by intro w' c; unfold dParent; split <;> (try split) <;> simp
  have h4 : ∀ w' : World, ∀ c, (dChild w' c e).act = w'.act := by intro w' c; unfold dChild; split <;> (try split) <;> simp
  unfold applyDispatch
  cases res <;> simp [cleanup, dEnqueue, h1, h2, h3, h4]

/-- every other label leaves all activations alone -/
theorem apply0_act_frame (w : World) (l : Label) (h : writesAct l = false) : (apply0 w l).act = w.act := by
  cases l <;> simp [writesAct] at h
  case dispatch p b e res => exact applyDispatch_act w p b e res
  case newBus => simp [apply0]
  case on => simp [apply0]
  case off => simp [apply0]
  case newEvent => simp [apply0]
  case tick => simp [apply0]
  case rlCreate => simp [apply0]
  case take p b e => cases p <;> simp [apply0]
  case peRecTrip p b e => cases p <;> simp [apply0, rlBack]
  case hStart => simp [apply0]
  case hCancel => simp [apply0]
  case hEnd i out =>
    simp only [apply0]
    split <;> (try split) <;> (try split) <;> simp
  case awaitBegin => simp [apply0]
  case pollYield => simp [apply0]
  case awaitEnd => simp [apply0]
  case xAwaitEnd => simp [apply0]
  case readBus => simp [apply0]
  case rlWake => simp [apply0]
  case rlPoll b => simp only [apply0, rlIdleCheck]; split <;> simp
  case wiBegin => simp [apply0]
  case wiJoined x' => simp only [apply0]; split <;> simp
  case wiIdle x' => simp only [apply0]; split <;> simp
  case wiRecheck x' => simp only [apply0]; split <;> simp
  case wiEnd => simp [apply0]
  case wiCancel => simp [apply0]
  case expectTimeout x' => simp only [apply0]; split <;> simp
  case expectCancelReq x' => simp only [apply0]; split <;> simp
  case stopBegin => simp [apply0]
  case stopNoop => simp [apply0]
  case stopEnd x' => simp only [apply0]; split <;> (try split) <;> simp
  case rlExit b => simp only [apply0, rlIdleCheck]; split <;> (try split) <;> simp
  case cancelRl => simp [apply0]
  case rlCancelled => simp [apply0]
  case rlDropExit b => simp only [apply0, rlIdleCheck]; split <;> simp
  case expectBegin => simp [apply0]
  case expectEnd x' got => simp only [apply0]; split <;> simp
  case expectCancel x' => simp only [apply0]; split <;> simp

/-- handler `k` of activation `A` has been dealt with: it has a terminal result, or a live instance of the activation runs it -/
def Done (w : World) (A : Act) (k : HId) : Prop :=
  Terminal (w.ev A.ev) A.bus k ∨ ∃ i, i ∈ A.running ∧ idOf (w.inst i) = (A.ev, A.bus, k)

structure NSInv (w : World) : Prop where
  acts : ∀ p A, w.act p = some A → ∃ n, A.todo = A.sel.drop n ∧ (n = 0 ∨ A.ev < w.ne) ∧ ∀ k, k ∈ A.sel.take n → Done w A k
  run : ∀ p A i, w.act p = some A → i ∈ A.running → i < w.ni
  disj : ∀ p p' A A' i, w.act p = some A → w.act p' = some A' → i ∈ A.running → i ∈ A'.running → p = p'

/-- what carries `Done` from one world to the next -/
theorem done_mono (w w' : World) (A A' : Act) (k : HId) (hev : A'.ev = A.ev) (hbus : A'.bus = A.bus)
    (hne : A.ev < w.ne)
    (hterm : ∀ b k, Terminal (w.ev A.ev) b k → Terminal (w'.ev A.ev) b k)
    (hrun : ∀ i, i ∈ A.running → i ∈ A'.running ∧ idOf (w'.inst i) = idOf (w.inst i))
    (h : Done w A k) : Done w' A' k := by
  rcases h with h | ⟨i, hi, hid⟩
  · left; rw [hev, hbus]; exact hterm _ _ h
  · right
    obtain ⟨h1, h2⟩ := hrun i hi
    exact ⟨i, h1, by rw [h2, hid, hev, hbus]⟩

/-- the shape shared by all cases: every activation other than `p`'s is untouched, `p`'s new activation is justified separately -/
theorem nsinv_of (w : World) (l : Label) (hg : guard w l = true) (hI : NSInv w) (p : Proc)
    (hni : w.ni ≤ (apply0 w l).ni)
    (hoth : ∀ q, q ≠ p → (apply0 w l).act q = w.act q)
    (hp : ∀ A', (apply0 w l).act p = some A' →
        (∃ n, A'.todo = A'.sel.drop n ∧ (n = 0 ∨ A'.ev < (apply0 w l).ne) ∧ ∀ k, k ∈ A'.sel.take n → Done (apply0 w l) A' k) ∧
        (∀ i, i ∈ A'.running → i < (apply0 w l).ni) ∧
        (∀ q A i, q ≠ p → w.act q = some A → i ∈ A.running → i ∉ A'.running)) :
    NSInv (apply0 w l) := by
  have hne := apply0_ne_mono w l
  refine ⟨?_, ?_, ?_⟩
  · intro q A hA
    by_cases hq : q = p
    · subst hq; exact (hp A hA).1
    · rw [hoth q hq] at hA
      obtain ⟨n, h2, h1, h3⟩ := hI.acts q A hA
      refine ⟨n, h2, h1.imp id (fun h => Nat.lt_of_lt_of_le h hne), fun k hk => ?_⟩
      rcases h1 with h1 | h1
      · subst h1; simp at hk
      · exact done_mono w _ A A k rfl rfl h1 (fun b k ht => apply0_terminal w l A.ev b k h1 hg ht)
          (fun i hi => ⟨hi, apply0_inst_id w l i (hI.run q A i hA hi) hg⟩) (h3 k hk)
  · intro q A i hA hi
    by_cases hq : q = p
    · subst hq; exact (hp A hA).2.1 i hi
    · rw [hoth q hq] at hA
      exact Nat.lt_of_lt_of_le (hI.run q A i hA hi) hni
  · intro q q' A A' i hA hA' hi hi'
    by_cases hq : q = p <;> by_cases hq' : q' = p
    · rw [hq, hq']
    · subst hq; rw [hoth q' hq'] at hA'
      exact absurd hi ((hp A hA).2.2 q' A' i hq' hA' hi')
    · subst hq'; rw [hoth q hq] at hA
      exact absurd hi' ((hp A' hA').2.2 q A i hq hA hi)
    · rw [hoth q hq] at hA; rw [hoth q' hq'] at hA'
      exact hI.disj q q' A A' i hA hA' hi hi'

/-- labels that leave the activations alone preserve the invariant -/
theorem nsinv_frame (w : World) (l : Label) (hg : guard w l = true) (hI : NSInv w) (hwa : writesAct l = false) :
    NSInv (apply0 w l) := by
  have hact := apply0_act_frame w l hwa
  have hni : w.ni ≤ (apply0 w l).ni := by
    rw [apply0_ni]; cases l <;> simp [writesAct] at hwa ⊢
  refine nsinv_of w l hg hI .ext hni (fun q _ => by rw [hact]) ?_
  intro A' hA'
  rw [hact] at hA'
  have hne := apply0_ne_mono w l
  obtain ⟨n, h2, h1, h3⟩ := hI.acts .ext A' hA'
  refine ⟨⟨n, h2, h1.imp id (fun h => Nat.lt_of_lt_of_le h hne), fun k hk => ?_⟩, ?_, ?_⟩
  · rcases h1 with h1 | h1
    · subst h1; simp at hk
    · exact done_mono w _ A' A' k rfl rfl h1 (fun b k ht => apply0_terminal w l A'.ev b k h1 hg ht)
        (fun i hi => ⟨hi, apply0_inst_id w l i (hI.run .ext A' i hA' hi) hg⟩) (h3 k hk)
  · intro i hi; exact Nat.lt_of_lt_of_le (hI.run .ext A' i hA' hi) hni
  · intro q A i hq hA hi hi'
    exact hq (hI.disj q .ext A A' i hA hA' hi hi')

end Bubus
