/-
  Bubus.Proofs.Fifo — C02 (take order) as an invariant of all reachable states:
  on every bus, the events ever enqueued are exactly the events ever taken followed by the events still queued,
  in order — so events are taken for processing (by the run loop or by an awaiting handler's inline loop) in the order
  they were enqueued, and no accepted event is ever lost from the queue or taken twice.
-/
import Bubus.Proofs.Once
namespace Bubus

/-- the queue-related part of a bus -/
def qview (B : Bus) : List EId × List EId × List EId := (B.queue, B.enq, B.taken)

def FifoOk (w : World) (b : BId) : Prop := (w.bus b).enq = (w.bus b).taken ++ (w.bus b).queue

def writesQueue : Label → Bool
  | .dispatch _ _ _ .ok => true
  | .take .. => true
  | .newBus .. => true
  | _ => false

theorem dEnqueue_qview (w : World) (b : BId) (e : EId) :
    qview ((dEnqueue w b e).bus b) = ((w.bus b).queue ++ [e], (w.bus b).enq ++ [e], (w.bus b).taken) := by
  simp [dEnqueue, qview]

theorem cleanup_qview (w : World) (b b' : BId) : qview ((cleanup w b).bus b') = qview (w.bus b') := by
  by_cases h : b' = b <;> simp [cleanup, qview, h, setBus_bus]

theorem releaseRl_qview (w : World) (b' b : BId) : qview ((releaseRl w b').bus b) = qview (w.bus b) := by
  unfold releaseRl rlIdleCheck rlBack
  split <;> by_cases hb : b = b' <;> simp [qview, hb, setBus_bus]

theorem peClose_qview (w : World) (p : Proc) (b' : BId) (e : EId) (b : BId) :
    qview ((peClose w p b' e).bus b) = qview (w.bus b) := by
  unfold peClose
  simp only []
  have h0 : qview ((cleanup (parentWalk (markComplete w e) ((markComplete w e).ne + 1) e []) b').bus b) = qview (w.bus b) := by
    rw [cleanup_qview, parentWalk_bus, markComplete_bus]
  by_cases hb : b = b'
  · subst hb; simpa [qview] using h0
  · simpa [qview, hb, setBus_bus] using h0

/-- every label that is not a dispatch-accept, a take or a bus creation leaves queue, enq and taken of every bus alone -/
theorem apply0_queue_frame (w : World) (l : Label) (b : BId) (h : writesQueue l = false) :
    qview ((apply0 w l).bus b) = qview (w.bus b) := by
  cases l <;> simp [writesQueue] at h
  case on b' key k kind => by_cases hb : b = b' <;> simp [apply0, qview, hb, setBus_bus]
  case off b' key k => by_cases hb : b = b' <;> simp [apply0, qview, hb, setBus_bus]
  case newEvent => simp [apply0]
  case tick => simp [apply0]
  case rlCreate b' => by_cases hb : b = b' <;> simp [apply0, qview, hb, setBus_bus]
  case dispatch p b' e res =>
    have hres : res ≠ .ok := by intro hc; subst hc; simp at h
    show qview ((applyDispatch w p b' e res).bus b) = _
    rw [applyDispatch_rejected w p b' e res hres, dFwd_bus, dPath_bus, dParent_bus]
  case peBegin p b' e =>
    show qview ((peOpen (peEnter w p b') p b' e).bus b) = _
    rw [peOpen_bus]
    cases p <;> simp [peEnter, qview]
    by_cases hb : b = b' <;> simp [hb, setBus_bus]
  case peRecTrip p b' e =>
    cases p <;> simp [apply0, rlBack, setBus_bus, qview] <;> split <;> simp_all
  case hSched p i b' e k =>
    show qview ((applySched w p i b' e k).bus b) = _
    unfold applySched
    cases hA : w.act p <;> simp
  case hStart => simp [apply0]
  case hCancel => simp [apply0]
  case hEnd i out =>
    simp only [apply0]
    split <;> (try split) <;> (try split) <;> simp
  case hFinish i r =>
    show qview ((applyFinish w i r).bus b) = _
    unfold applyFinish
    simp only []
    cases hA : w.act (w.inst i).exec <;> simp only [] <;> split <;> simp [cancelPendingChildren_bus]
  case walWrite p b' e ok =>
    simp only [apply0]
    cases hA : w.act p <;> cases ok <;> by_cases hb : b = b' <;> simp [hA, hb, setBus_bus, qview]
  case peEnd p b' e =>
    simp only [apply0]
    cases p
    · rw [releaseRl_qview, peClose_qview]
    · rw [peClose_qview]
    · rw [peClose_qview]
  case peAbort p b' e =>
    cases p <;> simp [apply0, setBus_bus, qview] <;> split <;> simp_all
  case awaitBegin => simp [apply0]
  case pollYield => simp [apply0]
  case awaitEnd => simp [apply0]
  case xAwaitEnd => simp [apply0]
  case readBus => simp [apply0]
  case rlWake b' => by_cases hb : b = b' <;> simp [apply0, qview, hb, setBus_bus]
  case rlPoll b' =>
    simp only [apply0, rlIdleCheck]
    split <;> by_cases hb : b = b' <;> simp [qview, hb, setBus_bus]
  case wiBegin => simp [apply0]
  case wiJoined x => simp only [apply0]; split <;> simp
  case wiIdle x => simp only [apply0]; split <;> simp
  case wiRecheck x =>
    simp only [apply0]
    split
    · rename_i b' _; by_cases hb : b = b' <;> simp [qview, hb, setBus_bus]
    · simp
  case wiEnd => simp [apply0]
  case wiCancel => simp [apply0]
  case expectTimeout x' => simp only [apply0]; split <;> simp
  case expectCancelReq x' => simp only [apply0]; split <;> simp
  case hSkip p_ b_ e_ k_ => simp only [apply0]; split <;> simp
  case stopBegin x b' c => by_cases hb : b = b' <;> simp [apply0, qview, hb, setBus_bus]
  case stopNoop => simp [apply0]
  case stopEnd x =>
    simp only [apply0]
    split
    · rename_i b' d clear _
      by_cases hb : b = b' <;> cases clear <;> simp [qview, hb, setBus_bus]
    · rfl
  case rlExit b' =>
    simp only [apply0, rlIdleCheck]
    split <;> (try split) <;> by_cases hb : b = b' <;> simp [qview, hb, setBus_bus]
  case cancelRl b' => by_cases hb : b = b' <;> simp [apply0, qview, hb, setBus_bus]
  case rlCancelled b' => by_cases hb : b = b' <;> simp [apply0, qview, hb, setBus_bus]
  case rlDropExit b' =>
    simp only [apply0, rlIdleCheck]
    split <;> by_cases hb : b = b' <;> simp [qview, hb, setBus_bus]
  case expectBegin x b' key k pred to => by_cases hb : b = b' <;> simp [apply0, qview, hb, setBus_bus]
  case expectEnd x got =>
    simp only [apply0]
    split
    · rename_i b' _ _ _ _ _ _; by_cases hb : b = b' <;> simp [qview, hb, setBus_bus]
    · simp
  case expectCancel x =>
    simp only [apply0]
    split
    · rename_i b' _ _ _ _ _ _; by_cases hb : b = b' <;> simp [qview, hb, setBus_bus]
    · simp

theorem fifoOk_of_qview (w w' : World) (b : BId) (h : qview (w'.bus b) = qview (w.bus b)) : FifoOk w b → FifoOk w' b := by
  unfold FifoOk
  simp only [qview, Prod.mk.injEq] at h
  obtain ⟨h1, h2, h3⟩ := h
  rw [h1, h2, h3]; exact id

theorem fifo_step (w w' : World) (l : Label) (hI : ∀ b, FifoOk w b) (hs : step w l = some w') : ∀ b, FifoOk w' b := by
  obtain ⟨hg, rfl⟩ := step_some hs
  intro b
  show FifoOk (wake (apply0 w l)) b
  refine fifoOk_of_qview (apply0 w l) _ b (by rw [wake_bus]) ?_
  by_cases hw : writesQueue l = false
  · exact fifoOk_of_qview w _ b (apply0_queue_frame w l b hw) (hI b)
  · cases l <;> simp [writesQueue] at hw
    case newBus b' par maxh wal =>
      simp only [apply0]
      by_cases hb : b = b'
      · subst hb; simp [FifoOk]
      · refine fifoOk_of_qview w _ b ?_ (hI b); simp [qview, hb]
    case dispatch p b' e res =>
      cases res <;> simp at hw
      show FifoOk (applyDispatch w p b' e .ok) b
      simp only [applyDispatch]
      refine fifoOk_of_qview _ _ b (cleanup_qview _ b' b) ?_
      by_cases hb : b = b'
      · subst hb
        have hq := dEnqueue_qview (dFwd (dPath (dParent w (ctxOf w p) e) b e) p) b e
        rw [dFwd_bus, dPath_bus, dParent_bus] at hq
        simp only [qview, Prod.mk.injEq] at hq
        obtain ⟨h1, h2, h3⟩ := hq
        unfold FifoOk
        rw [dChild_bus, h1, h2, h3, hI b, List.append_assoc]
      · refine fifoOk_of_qview w _ b ?_ (hI b)
        rw [dChild_bus, dEnqueue_bus_other _ _ _ _ hb, dFwd_bus, dPath_bus, dParent_bus]
    case take p b' e =>
      simp [guard, checks, Checks.ok] at hg
      have hhead := hg.2.1
      by_cases hb : b = b'
      · subst hb
        have hfi := hI b
        unfold FifoOk at hfi ⊢
        cases hq : (w.bus b).queue with
        | nil => simp [hq] at hhead
        | cons x q =>
          simp [hq] at hhead
          subst hhead
          cases p <;> simp [apply0, hq, hfi]
      · refine fifoOk_of_qview w _ b ?_ (hI b)
        cases p <;> simp [apply0, qview, hb, setBus_bus]

theorem fifo_run (w w' : World) (ls : List Label) (hI : ∀ b, FifoOk w b) (h : run w ls = some w') : ∀ b, FifoOk w' b := by
  induction ls generalizing w with
  | nil => simp [run] at h; subst h; exact hI
  | cons l ls ih =>
    simp only [run] at h
    split at h
    · rename_i w1 hs1; exact ih w1 (fifo_step w w1 l hI hs1) h
    · cases h

namespace Thm

/-- **C02 (take order), for every reachable state**: on every bus the sequence of events ever taken for processing —
    by the run loop or by an awaiting handler — followed by the events still queued is exactly the sequence of events
    ever enqueued there (by dispatch or forwarding): events are taken in enqueue order, none is lost, none is taken twice. -/
theorem C02_events_are_taken_in_enqueue_order (w : World) (hr : Reachable w) (b : BId) :
    (w.bus b).enq = (w.bus b).taken ++ (w.bus b).queue := by
  obtain ⟨ls, hls⟩ := hr
  exact fifo_run {} w ls (fun _ => rfl) hls b

/-- C02 / C14: corollary — what has been taken is a prefix of what has been enqueued. -/
theorem C02_taken_is_a_prefix_of_enqueued (w : World) (hr : Reachable w) (b : BId) :
    (w.bus b).taken <+: (w.bus b).enq := by
  rw [C02_events_are_taken_in_enqueue_order w hr b]
  exact List.prefix_append _ _

/-- C14: an accepted event is never silently dropped from the queue: it stays queued until it is taken. -/
theorem C14_accepted_events_stay_queued_until_taken (w : World) (hr : Reachable w) (b : BId) (e : EId)
    (he : e ∈ (w.bus b).enq) : e ∈ (w.bus b).taken ∨ e ∈ (w.bus b).queue := by
  rw [C02_events_are_taken_in_enqueue_order w hr b] at he
  exact List.mem_append.mp he

end Thm
end Bubus
