/-
  Bubus.Proofs.Lineage — identity and lineage of an existing event are stable along every run:
  its type never changes, its parent link — once set — is never changed (C09), and its path only grows at the end (C07:
  "in order of arrival").
-/
import Bubus.Proofs.Guards2
import Bubus.Proofs.PathInv
namespace Bubus

theorem markComplete_parent (w : World) (e x : EId) : ((markComplete w e).ev x).parent = (w.ev x).parent := by
  by_cases h : x = e
  · subst h
    unfold markComplete
    simp only []
    repeat' split
    all_goals simp
  · rw [markComplete_ev_other w e x h]

theorem parentWalk_parent (w : World) (fuel : Nat) (e : EId) (seen : List EId) (x : EId) :
    ((parentWalk w fuel e seen).ev x).parent = (w.ev x).parent := by
  induction fuel generalizing w e seen with
  | zero => simp [parentWalk]
  | succ n ih =>
    unfold parentWalk
    split
    · rfl
    · split
      · rfl
      · split
        · rw [ih, markComplete_parent]
        · rfl

theorem cancelPendingChildren_parent (w : World) (fuel : Nat) (e x : EId) :
    ((cancelPendingChildren w fuel e).ev x).parent = (w.ev x).parent := by
  induction fuel generalizing w e with
  | zero => rfl
  | succ n ih =>
    unfold cancelPendingChildren
    generalize (w.ev e).children = cs
    induction cs generalizing w with
    | nil => rfl
    | cons c cs ihc =>
      simp only [List.foldl_cons]
      rw [ihc, ih]
      simp only [modEv_eq, setEv_ev]
      split
      · rename_i hx; subst hx; rfl
      · rfl

theorem peOpen_parent (w : World) (p : Proc) (b : BId) (e x : EId) : ((peOpen w p b e).ev x).parent = (w.ev x).parent := by
  unfold peOpen
  simp only []
  split <;> (try rw [markComplete_parent]) <;> simp only [setAct_ev, modEv_eq, setEv_ev] <;> split <;> simp_all

theorem peClose_parent (w : World) (p : Proc) (b : BId) (e x : EId) : ((peClose w p b e).ev x).parent = (w.ev x).parent := by
  unfold peClose
  simp only [modBus_eq, setBus_ev, setAct_ev, cleanup_ev]
  rw [parentWalk_parent, markComplete_parent]


theorem apply0_parent_frame (w : World) (l : Label) (x : EId) (h : writesPath l = false) :
    ((apply0 w l).ev x).parent = (w.ev x).parent := by
  cases l <;> simp [writesPath] at h
  case peBegin p b e =>
    show ((peOpen (peEnter w p b) p b e).ev x).parent = _
    rw [peOpen_parent]
    cases p <;> simp [peEnter]
  case hSched p i b e k =>
    show ((applySched w p i b e k).ev x).parent = _
    unfold applySched
    cases hA : w.act p <;> simp [setEv_ev, Ev.updRes] <;> split <;> simp_all
  case hFinish i r =>
    show ((applyFinish w i r).ev x).parent = _
    unfold applyFinish
    simp only []
    cases hA : w.act (w.inst i).exec <;> simp only [] <;> split <;>
      simp [cancelPendingChildren_parent, setEv_ev, Ev.updRes] <;> split <;> simp_all
  case peEnd p b e =>
    simp only [apply0]
    cases p <;> simp only [releaseRl_ev, peClose_parent]
  case newBus => simp [apply0]
  case on => simp [apply0]
  case off => simp [apply0]
  case tick => simp [apply0]
  case rlCreate => simp [apply0]
  case take p b e => cases p <;> simp [apply0]
  case peRecTrip p b e => cases p <;> simp [apply0, rlBack]
  case hStart => simp [apply0]
  case hCancel => simp [apply0]
  case hEnd i out =>
    simp only [apply0]
    split <;> (try split) <;> (try split) <;> simp
  case walWrite p b e ok => simp only [apply0]; cases hA : w.act p <;> cases ok <;> simp [hA]
  case peAbort p b e => cases p <;> simp [apply0]
  case awaitBegin => simp [apply0]
  case pollYield => simp [apply0]
  case awaitEnd => simp [apply0]
  case xAwaitEnd => simp [apply0]
  case readBus => simp [apply0]
  case rlWake => simp [apply0]
  case rlPoll b => simp only [apply0, rlIdleCheck]; split <;> simp
  case wiBegin => simp [apply0]
  case wiJoined x' => simp only [apply0]; split <;> simp
  case wiIdle x' => simp only [apply0]; split <;> simp
  case wiRecheck x' => simp only [apply0]; split <;> simp
  case wiEnd => simp [apply0]
  case wiCancel => simp [apply0]
  case expectTimeout x' => simp only [apply0]; split <;> simp
  case expectCancelReq x' => simp only [apply0]; split <;> simp
  case hSkip p_ b_ e_ k_ => simp only [apply0]; split <;> simp
  case stopBegin => simp [apply0]
  case stopNoop => simp [apply0]
  case stopEnd x' => simp only [apply0]; split <;> (try split) <;> simp
  case rlExit b => simp only [apply0, rlIdleCheck]; split <;> (try split) <;> simp
  case cancelRl => simp [apply0]
  case rlCancelled => simp [apply0]
  case rlDropExit b => simp only [apply0, rlIdleCheck]; split <;> simp
  case expectBegin => simp [apply0]
  case expectEnd x' got => simp only [apply0]; split <;> simp
  case expectCancel x' => simp only [apply0]; split <;> simp


theorem markComplete_etype (w : World) (e x : EId) : ((markComplete w e).ev x).etype = (w.ev x).etype := by
  by_cases h : x = e
  · subst h
    unfold markComplete
    simp only []
    repeat' split
    all_goals simp
  · rw [markComplete_ev_other w e x h]

theorem parentWalk_etype (w : World) (fuel : Nat) (e : EId) (seen : List EId) (x : EId) :
    ((parentWalk w fuel e seen).ev x).etype = (w.ev x).etype := by
  induction fuel generalizing w e seen with
  | zero => simp [parentWalk]
  | succ n ih =>
    unfold parentWalk
    split
    · rfl
    · split
      · rfl
      · split
        · rw [ih, markComplete_etype]
        · rfl

theorem cancelPendingChildren_etype (w : World) (fuel : Nat) (e x : EId) :
    ((cancelPendingChildren w fuel e).ev x).etype = (w.ev x).etype := by
  induction fuel generalizing w e with
  | zero => rfl
  | succ n ih =>
    unfold cancelPendingChildren
    generalize (w.ev e).children = cs
    induction cs generalizing w with
    | nil => rfl
    | cons c cs ihc =>
      simp only [List.foldl_cons]
      rw [ihc, ih]
      simp only [modEv_eq, setEv_ev]
      split
      · rename_i hx; subst hx; rfl
      · rfl

theorem peOpen_etype (w : World) (p : Proc) (b : BId) (e x : EId) : ((peOpen w p b e).ev x).etype = (w.ev x).etype := by
  unfold peOpen
  simp only []
  split <;> (try rw [markComplete_etype]) <;> simp only [setAct_ev, modEv_eq, setEv_ev] <;> split <;> simp_all

theorem peClose_etype (w : World) (p : Proc) (b : BId) (e x : EId) : ((peClose w p b e).ev x).etype = (w.ev x).etype := by
  unfold peClose
  simp only [modBus_eq, setBus_ev, setAct_ev, cleanup_ev]
  rw [parentWalk_etype, markComplete_etype]


theorem apply0_etype_frame (w : World) (l : Label) (x : EId) (h : writesPath l = false) :
    ((apply0 w l).ev x).etype = (w.ev x).etype := by
  cases l <;> simp [writesPath] at h
  case peBegin p b e =>
    show ((peOpen (peEnter w p b) p b e).ev x).etype = _
    rw [peOpen_etype]
    cases p <;> simp [peEnter]
  case hSched p i b e k =>
    show ((applySched w p i b e k).ev x).etype = _
    unfold applySched
    cases hA : w.act p <;> simp [setEv_ev, Ev.updRes] <;> split <;> simp_all
  case hFinish i r =>
    show ((applyFinish w i r).ev x).etype = _
    unfold applyFinish
    simp only []
    cases hA : w.act (w.inst i).exec <;> simp only [] <;> split <;>
      simp [cancelPendingChildren_etype, setEv_ev, Ev.updRes] <;> split <;> simp_all
  case peEnd p b e =>
    simp only [apply0]
    cases p <;> simp only [releaseRl_ev, peClose_etype]
  case newBus => simp [apply0]
  case on => simp [apply0]
  case off => simp [apply0]
  case tick => simp [apply0]
  case rlCreate => simp [apply0]
  case take p b e => cases p <;> simp [apply0]
  case peRecTrip p b e => cases p <;> simp [apply0, rlBack]
  case hStart => simp [apply0]
  case hCancel => simp [apply0]
  case hEnd i out =>
    simp only [apply0]
    split <;> (try split) <;> (try split) <;> simp
  case walWrite p b e ok => simp only [apply0]; cases hA : w.act p <;> cases ok <;> simp [hA]
  case peAbort p b e => cases p <;> simp [apply0]
  case awaitBegin => simp [apply0]
  case pollYield => simp [apply0]
  case awaitEnd => simp [apply0]
  case xAwaitEnd => simp [apply0]
  case readBus => simp [apply0]
  case rlWake => simp [apply0]
  case rlPoll b => simp only [apply0, rlIdleCheck]; split <;> simp
  case wiBegin => simp [apply0]
  case wiJoined x' => simp only [apply0]; split <;> simp
  case wiIdle x' => simp only [apply0]; split <;> simp
  case wiRecheck x' => simp only [apply0]; split <;> simp
  case wiEnd => simp [apply0]
  case wiCancel => simp [apply0]
  case expectTimeout x' => simp only [apply0]; split <;> simp
  case expectCancelReq x' => simp only [apply0]; split <;> simp
  case hSkip p_ b_ e_ k_ => simp only [apply0]; split <;> simp
  case stopBegin => simp [apply0]
  case stopNoop => simp [apply0]
  case stopEnd x' => simp only [apply0]; split <;> (try split) <;> simp
  case rlExit b => simp only [apply0, rlIdleCheck]; split <;> (try split) <;> simp
  case cancelRl => simp [apply0]
  case rlCancelled => simp [apply0]
  case rlDropExit b => simp only [apply0, rlIdleCheck]; split <;> simp
  case expectBegin => simp [apply0]
  case expectEnd x' got => simp only [apply0]; split <;> simp
  case expectCancel x' => simp only [apply0]; split <;> simp



theorem applyDispatch_etype (w : World) (p : Proc) (b : BId) (e : EId) (res : DRes) (x : EId) :
    ((applyDispatch w p b e res).ev x).etype = (w.ev x).etype := by
  unfold applyDispatch
  cases res <;> simp only [cleanup_ev, dChild_etype, dEnqueue_ev, dFwd_ev, dPath_etype, dParent_etype]

theorem applyDispatch_parent_stable (w : World) (p : Proc) (b : BId) (e : EId) (res : DRes) (x y : EId)
    (h : (w.ev x).parent = some y) : ((applyDispatch w p b e res).ev x).parent = some y := by
  have h1 : ((dPath (dParent w (ctxOf w p) e) b e).ev x).parent = some y := by
    rw [dPath_parent, dParent_parent]
    split
    · rename_i hc; rw [hc.1] at h; rw [hc.2.1] at h; cases h
    · exact h
  unfold applyDispatch
  cases res <;> simp only [cleanup_ev, dChild_parent, dEnqueue_ev, dFwd_ev] <;> exact h1

/-- one accepted label: type kept, a set parent link kept, path extended at the end only -/
theorem apply0_lineage (w : World) (l : Label) (x : EId) (hx : x < w.ne) (hg : guard w l = true) :
    ((apply0 w l).ev x).etype = (w.ev x).etype ∧
    (∀ y, (w.ev x).parent = some y → ((apply0 w l).ev x).parent = some y) ∧
    (w.ev x).path <+: ((apply0 w l).ev x).path := by
  cases hw : writesPath l
  · exact ⟨apply0_etype_frame w l x hw, fun y hy => by rw [apply0_parent_frame w l x hw]; exact hy,
           by rw [apply0_path_frame w l x hw]; exact List.prefix_refl _⟩
  · cases l <;> simp [writesPath] at hw
    case dispatch p b e res =>
      refine ⟨applyDispatch_etype w p b e res x, fun y hy => applyDispatch_parent_stable w p b e res x y hy, ?_⟩
      show (w.ev x).path <+: ((applyDispatch w p b e res).ev x).path
      rw [applyDispatch_path]
      by_cases hxe : x = e
      · subst hxe
        rw [dPath_path_same]
        split
        · exact List.prefix_refl _
        · exact List.prefix_append _ _
      · rw [dPath_path_other _ _ _ _ hxe]; exact List.prefix_refl _
    case newEvent e ty par to =>
      simp [guard, checks, Checks.ok] at hg
      have he : x ≠ e := by
        have h0 : e = w.ne := hg.1
        intro hxe
        rw [hxe, h0] at hx
        exact Nat.lt_irrefl _ hx
      have hev : ((apply0 w (.newEvent e ty par to)).ev x) = w.ev x := by
        simp only [apply0, setNe_ev, setEv_ev, he, if_false]
      rw [hev]
      exact ⟨rfl, fun _ h => h, List.prefix_refl _⟩

theorem run_lineage (w w' : World) (ls : List Label) (x : EId) (hx : x < w.ne) (hr : run w ls = some w') :
    (w'.ev x).etype = (w.ev x).etype ∧ (∀ y, (w.ev x).parent = some y → (w'.ev x).parent = some y) ∧
    (w.ev x).path <+: (w'.ev x).path := by
  induction ls generalizing w with
  | nil => simp [run] at hr; subst hr; exact ⟨rfl, fun _ h => h, List.prefix_refl _⟩
  | cons l ls ih =>
    simp only [run] at hr
    split at hr
    · rename_i w1 hs1
      obtain ⟨hg, rfl⟩ := step_some hs1
      obtain ⟨a1, a2, a3⟩ := apply0_lineage w l x hx hg
      have hx1 : x < (wake (apply0 w l)).ne := by rw [wake_ne]; exact Nat.lt_of_lt_of_le hx (apply0_ne_mono w l)
      obtain ⟨b1, b2, b3⟩ := ih (wake (apply0 w l)) hx1 hr
      simp only [wake_ev] at b1 b2 b3
      exact ⟨b1.trans a1, fun y hy => b2 y (a2 y hy), List.IsPrefix.trans a3 b3⟩
    · cases hr

namespace Thm

/-- **C09**: the parent link of an existing event, once set, is never changed — by any transition, along any run
    (so a child is never re-attributed to another handler's event later). -/
theorem C09_parent_link_is_never_changed (w w' : World) (ls : List Label) (e p : EId) (he : e < w.ne)
    (hr : run w ls = some w') (hp : (w.ev e).parent = some p) : (w'.ev e).parent = some p :=
  (run_lineage w w' ls e he hr).2.1 p hp

/-- **C07**: an event's path only ever grows at its end — buses are listed in order of arrival and an entry is never
    removed or reordered — and (with `C07_no_bus_twice_in_any_path`) each bus at most once. -/
theorem C07_path_only_grows_at_the_end (w w' : World) (ls : List Label) (e : EId) (he : e < w.ne)
    (hr : run w ls = some w') : (w.ev e).path <+: (w'.ev e).path :=
  (run_lineage w w' ls e he hr).2.2

/-- **C03 / C07 (same event)**: an event keeps its type along every run. -/
theorem C07_event_type_is_stable (w w' : World) (ls : List Label) (e : EId) (he : e < w.ne)
    (hr : run w ls = some w') : (w'.ev e).etype = (w.ev e).etype :=
  (run_lineage w w' ls e he hr).1

end Thm
end Bubus
