/-
  Bubus.Proofs.Frames2 — C14 (rejected dispatch leaves no trace), C11 (recording a handler's outcome changes only its
  own result).
-/
import Bubus.Proofs.Pure
namespace Bubus

theorem applyDispatch_rejected (w : World) (p : Proc) (b : BId) (e : EId) (res : DRes) (h : res ≠ .ok) :
    applyDispatch w p b e res = dFwd (dPath (dParent w (ctxOf w p) e) b e) p := by
  cases res <;> simp_all [applyDispatch]

namespace Thm

/-- C14: a rejected dispatch (capacity, queue full, shut down) leaves every bus exactly as it was:
    queue, history, unfinished count, idle flag, handlers — of the target bus and of every other bus. -/
theorem C14_rejected_dispatch_leaves_buses_alone (w : World) (p : Proc) (b : BId) (e : EId) (res : DRes)
    (h : res ≠ .ok) : (apply w (.dispatch p b e res)).bus = w.bus := by
  show (wake (applyDispatch w p b e res)).bus = _
  rw [wake_bus, applyDispatch_rejected w p b e res h, dFwd_bus, dPath_bus, dParent_bus]

/-- C14: a rejected dispatch is not recorded as a child of anything: all handler results (and their child lists)
    of all events are unchanged. -/
theorem C14_rejected_dispatch_records_no_child (w : World) (p : Proc) (b : BId) (e : EId) (res : DRes)
    (h : res ≠ .ok) (x : EId) : ((apply w (.dispatch p b e res)).ev x).results = (w.ev x).results := by
  show ((wake (applyDispatch w p b e res)).ev x).results = _
  rw [wake_ev, applyDispatch_rejected w p b e res h, dFwd_ev, dPath_results, dParent_results]

/-- C14: dispatch has exactly the outcomes of the model's `dispatchOutcome`: accepted, or one of the three
    documented rejections — never a silent drop. -/
theorem C14_dispatch_outcome_is_determined (w w' : World) (p : Proc) (b : BId) (e : EId) (res : DRes)
    (h : step w (.dispatch p b e res) = some w') : res = dispatchOutcome w b := by
  obtain ⟨hg, _⟩ := step_some h
  simp [guard, checks, Checks.ok] at hg
  exact hg.2.2.2.2.1

/-- C14: an accepted dispatch puts the event at the tail of the bus's queue. -/
theorem C14_accepted_dispatch_enqueues (w : World) (p : Proc) (b : BId) (e : EId) :
    ((apply w (.dispatch p b e .ok)).bus b).queue =
      (w.bus b).queue ++ [e] := by
  show ((wake (applyDispatch w p b e .ok)).bus b).queue = _
  rw [wake_bus]
  simp only [applyDispatch]
  rw [cleanup_queue, dChild_bus, dEnqueue_queue, dFwd_bus, dPath_bus, dParent_bus]

end Thm

/-! ### C11 -/

namespace Thm

/-- C11: recording a handler's outcome (a returned value, a raised or returned exception, a validation failure)
    touches no other event. -/
theorem C11_recording_an_outcome_touches_no_other_event (w : World) (i : IId) (r : Fin) (x : EId)
    (hr : r ≠ .errTimeout) (hx : x ≠ (w.inst i).ev) :
    ((apply w (.hFinish i r)).ev x) = w.ev x := by
  show ((wake (applyFinish w i r)).ev x) = _
  rw [wake_ev]
  unfold applyFinish
  simp only []
  have hne : (r == Fin.errTimeout) = false := by cases r <;> simp_all
  cases hA : w.act (w.inst i).exec <;> simp [hA, hne, hx]

/-- C11: … and within the handled event it changes only that handler's own result: every other handler's result
    (the siblings, on any bus) is exactly as before, in the same order. -/
theorem C11_recording_an_outcome_changes_only_its_own_result (w : World) (i : IId) (r : Fin)
    (hr : r ≠ .errTimeout) :
    (((apply w (.hFinish i r)).ev (w.inst i).ev).results.map fun y =>
        if y.hid == (w.inst i).hid && y.bus == (w.inst i).bus then none else some y) =
    ((w.ev (w.inst i).ev).results.map fun y =>
        if y.hid == (w.inst i).hid && y.bus == (w.inst i).bus then none else some y) := by
  show (((wake (applyFinish w i r)).ev _).results.map _) = _
  rw [wake_ev]
  unfold applyFinish
  simp only []
  have hne : (r == Fin.errTimeout) = false := by cases r <;> simp_all
  cases hA : w.act (w.inst i).exec <;> simp [hA, hne, Ev.updRes, List.map_map, Function.comp_def] <;>
    (intro y _; split <;> simp_all)

end Thm
end Bubus
