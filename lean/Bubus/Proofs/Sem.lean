/-
  Bubus.Proofs.Sem — C20: slot accounting of the retry semaphore wrapper.
-/
import Bubus.Model.Retry
namespace Bubus.Retry

/-- changing a predicate at one point of a duplicate-free list changes the count by that point only -/
theorem countP_update (l : List Nat) (hn : l.Nodup) (p q : Nat → Bool) (c : Nat) (hc : c ∈ l)
    (hpq : ∀ x, x ≠ c → q x = p x) :
    l.countP q + (if p c then 1 else 0) = l.countP p + (if q c then 1 else 0) := by
  induction l with
  | nil => cases hc
  | cons a t ih =>
    rw [List.nodup_cons] at hn
    by_cases hac : a = c
    · subst hac
      have ht : t.countP q = t.countP p := by
        apply List.countP_congr
        intro x hx
        have : x ≠ a := fun h => hn.1 (h ▸ hx)
        simp [hpq x this]
      simp only [List.countP_cons, ht]
      cases hp : p a <;> cases hq : q a <;> simp
    · have hct : c ∈ t := by
        cases hc with
        | head => exact absurd rfl hac
        | tail _ h => exact h
      have := ih hn.2 hct
      simp only [List.countP_cons, hpq a hac]
      omega

theorem countP_same (l : List Nat) (p q : Nat → Bool) (h : ∀ x ∈ l, q x = p x) : l.countP q = l.countP p := by
  apply List.countP_congr
  intro x hx
  simp [h x hx]

def nHolding (s : Sem) : Nat := (List.range s.ncallers).countP fun c => s.phase c == .holding

theorem holders_length (s : Sem) : (holders s).length = nHolding s := by
  simp [holders, nHolding, List.countP_eq_length_filter]

structure Inv (s : Sem) : Prop where
  slots : s.value + nHolding s = s.limit
  known : ∀ c, s.phase c ≠ .done → c < s.ncallers

theorem nHolding_setPhase (s : Sem) (c : Nat) (p : Phase) (hc : c < s.ncallers) :
    nHolding (s.setPhase c p) + (if s.phase c == .holding then 1 else 0) =
      nHolding s + (if p == .holding then 1 else 0) := by
  unfold nHolding
  have hmem : c ∈ List.range s.ncallers := List.mem_range.mpr hc
  have := countP_update (List.range s.ncallers) List.nodup_range
    (fun x => s.phase x == .holding) (fun x => (s.setPhase c p).phase x == .holding) c hmem
    (by intro x hx; simp [Sem.setPhase, hx])
  simp only [Sem.setPhase] at this ⊢
  simpa using this

/-- every action of the wrapper's bookkeeping preserves `value + holders = limit` -/
theorem inv_step (s s' : Sem) (l : SLabel) (hI : Inv s) (h : sstep s l = some s') : Inv s' := by
  unfold sstep at h
  split at h
  · rename_i hg
    injection h with h
    subst h
    cases l with
    | call c lax =>
      simp [sguard] at hg
      constructor
      · have hslots := hI.slots
        show (sapply s (.call c lax)).value + nHolding (sapply s (.call c lax)) = _
        simp only [sapply]
        unfold nHolding at hslots ⊢
        simp only [Sem.setPhase]
        rw [← hslots]
        congr 1
        -- the new range only adds callers that are `done` (or `c`, which becomes `waiting`)
        have : (List.range (max s.ncallers (c + 1))).countP (fun x => (if x = c then Phase.waiting else s.phase x) == .holding)
             = (List.range s.ncallers).countP (fun x => s.phase x == .holding) := by
          have hle : s.ncallers ≤ max s.ncallers (c + 1) := Nat.le_max_left _ _
          obtain ⟨d, hd⟩ := Nat.exists_eq_add_of_le hle
          rw [hd, List.range_add, List.countP_append]
          have h2 : (List.map (fun x => s.ncallers + x) (List.range d)).countP
              (fun x => (if x = c then Phase.waiting else s.phase x) == .holding) = 0 := by
            rw [List.countP_eq_zero]
            intro x hx
            simp at hx
            obtain ⟨y, _, rfl⟩ := hx
            by_cases hyc : s.ncallers + y = c
            · simp [hyc]
            · simp only [hyc, if_false]
              have : s.phase (s.ncallers + y) = .done := by
                cases hph : s.phase (s.ncallers + y) <;>
                  first
                  | rfl
                  | (have := hI.known (s.ncallers + y) (by simp [hph]); omega)
              simp [this]
          rw [h2, Nat.add_zero]
          apply countP_same
          intro x hx
          by_cases hxc : x = c
          · subst hxc; simp [hg.1]; decide
          · simp [hxc]
        exact this
      · intro x hx
        simp only [sapply, Sem.setPhase] at hx ⊢
        by_cases hxc : x = c
        · subst hxc; omega
        · simp [hxc] at hx
          have := hI.known x hx
          omega
    | acquired c =>
      simp [sguard] at hg
      have hc : c < s.ncallers := hI.known c (by simp [hg.1])
      constructor
      · have := nHolding_setPhase s c .holding hc
        simp [hg.1] at this
        have hs := hI.slots
        show (s.setPhase c .holding).value - 1 + nHolding { (s.setPhase c .holding) with value := s.value - 1 } = s.limit
        have hn : nHolding { (s.setPhase c .holding) with value := s.value - 1 } = nHolding (s.setPhase c .holding) := rfl
        rw [hn]
        simp only [Sem.setPhase] at *
        omega
      · intro x hx
        simp only [sapply, Sem.setPhase] at hx ⊢
        by_cases hxc : x = c
        · subst hxc; exact hc
        · simp [hxc] at hx; exact hI.known x hx
    | acqTimeout c =>
      simp [sguard] at hg
      have hc : c < s.ncallers := hI.known c (by simp [hg])
      constructor
      · show (sapply s (.acqTimeout c)).value + nHolding (sapply s (.acqTimeout c)) = _
        simp only [sapply]
        split
        · have := nHolding_setPhase s c .laxEntered hc
          simp [hg] at this
          have hs := hI.slots
          simp only [Sem.setPhase] at *
          omega
        · have := nHolding_setPhase s c .done hc
          simp [hg] at this
          have hs := hI.slots
          simp only [Sem.setPhase] at *
          omega
      · intro x hx
        simp only [sapply] at hx ⊢
        split at hx <;> simp only [Sem.setPhase] at hx ⊢ <;> (by_cases hxc : x = c) <;>
          first
          | (subst hxc; split <;> exact hc)
          | (simp [hxc] at hx; split <;> exact hI.known x hx)
          | (subst hxc; exact hc)
          | (simp [hxc] at hx; exact hI.known x hx)
    | cancelWaiting c =>
      simp [sguard] at hg
      have hc : c < s.ncallers := hI.known c (by simp [hg])
      constructor
      · have := nHolding_setPhase s c .done hc
        simp [hg] at this
        have hs := hI.slots
        show (s.setPhase c .done).value + nHolding (s.setPhase c .done) = s.limit
        simp only [Sem.setPhase] at *
        omega
      · intro x hx
        simp only [sapply, Sem.setPhase] at hx ⊢
        by_cases hxc : x = c
        · subst hxc; exact hc
        · simp [hxc] at hx; exact hI.known x hx
    | bodyStart c => exact ⟨hI.slots, hI.known⟩
    | bodyEnd c => exact ⟨hI.slots, hI.known⟩
    | finish c released =>
      simp [sguard] at hg
      obtain ⟨⟨_, hph⟩, hrel⟩ := hg
      have hc : c < s.ncallers := hI.known c (by rcases hph with h | h <;> simp [h])
      constructor
      · have := nHolding_setPhase s c .done hc
        have hs := hI.slots
        show (if released then (s.setPhase c .done).value + 1 else (s.setPhase c .done).value) +
              nHolding { (s.setPhase c .done) with value := _ } = s.limit
        have hn : ∀ v, nHolding { (s.setPhase c .done) with value := v } = nHolding (s.setPhase c .done) := fun _ => rfl
        rw [hn]
        rcases hph with h | h
        · simp [h] at this hrel
          subst hrel
          simp only [Sem.setPhase, if_true] at *
          omega
        · simp [h] at this hrel
          subst hrel
          simp only [Sem.setPhase] at *
          simp
          omega
      · intro x hx
        simp only [sapply, Sem.setPhase] at hx ⊢
        by_cases hxc : x = c
        · subst hxc; exact hc
        · simp [hxc] at hx; exact hI.known x hx
  · cases h

def srun (s : Sem) : List SLabel → Option Sem
  | [] => some s
  | l :: ls => match sstep s l with
    | some s' => srun s' ls
    | none => none

theorem inv_run (s s' : Sem) (ls : List SLabel) (hI : Inv s) (h : srun s ls = some s') : Inv s' := by
  induction ls generalizing s with
  | nil => simp [srun] at h; subst h; exact hI
  | cons l ls ih =>
    simp only [srun] at h
    split at h
    · rename_i s1 hs
      exact ih s1 (inv_step s s1 l hI hs) h
    · cases h

theorem inv_init (L : Nat) : Inv { limit := L, value := L } := by
  constructor
  · simp [nHolding]
  · intro c hc; simp at hc

end Bubus.Retry

namespace Bubus.Thm
open Bubus.Retry

/-- C20: for every sequence of wrapper actions (any number of callers, any outcomes, timeouts and cancellations)
    the free slots plus the callers holding a slot always equal the limit: no slot leaks, none is released twice. -/
theorem C20_slots_never_leak (L : Nat) (ls : List SLabel) (s : Sem)
    (h : srun { limit := L, value := L } ls = some s) : s.value + (holders s).length = L := by
  have hI := inv_run _ s ls (inv_init L) h
  have hl : s.limit = L := by
    clear hI
    generalize hs0 : ({ limit := L, value := L } : Sem) = s0 at h
    have h0 : s0.limit = L := by subst hs0; rfl
    clear hs0
    induction ls generalizing s0 with
    | nil => simp [srun] at h; subst h; exact h0
    | cons l ls ih =>
      simp only [srun] at h
      split at h
      · rename_i s1 hs1
        apply ih s1 h
        unfold sstep at hs1
        split at hs1
        · injection hs1 with hs1; subst hs1
          cases l <;> simp [sapply, Sem.setPhase, h0] <;> (try split) <;> simp [h0]
        · cases hs1
      · cases h
  rw [holders_length, ← hl]
  exact hI.slots

/-- C20: at most `limit` callers hold a slot at any time. -/
theorem C20_at_most_limit_holders (L : Nat) (ls : List SLabel) (s : Sem)
    (h : srun { limit := L, value := L } ls = some s) : (holders s).length ≤ L := by
  have := C20_slots_never_leak L ls s h
  omega

/-- C20: a caller enters the wrapped function only while holding a slot, or as a lax entrant after an acquisition timeout;
    a non-lax caller whose acquisition times out never runs the function. -/
theorem C20_body_needs_slot_or_lax_timeout (s s' : Sem) (c : Nat) (h : sstep s (.bodyStart c) = some s') :
    s.phase c = .holding ∨ s.phase c = .laxEntered := by
  unfold sstep at h
  split at h
  · rename_i hg
    simp [sguard] at hg
    exact hg.1
  · cases h

theorem C20_nonlax_timeout_never_runs (s : Sem) (c : Nat) (hl : s.lax c = false) :
    (sapply s (.acqTimeout c)).phase c = .done := by
  simp [sapply, hl, Sem.setPhase]

end Bubus.Thm
