/-
  Bubus.Proofs.MutexInv — the chain invariant is preserved by every transition of serial buses.
-/
import Bubus.Proofs.MutexFrame
namespace Bubus

theorem sv_modBus (w : World) (b : BId) (f : Bus → Bus) (h : (f (w.bus b)).parallel = (w.bus b).parallel) :
    SameView w (w.modBus b f) := sameView_of_skel _ _ (modBus_skel w b f h)

/-- `X.skel = w.skel` for worlds built from `w` by bus updates that keep the parallel flag and skeleton-neutral setters -/
macro "skel_tac" : tactic =>
  `(tactic| (repeat (first | rw [setWaiter_skel] | rw [modBus_skel] | rw [rlIdleCheck_skel] | rw [cleanup_skel] | rw [setEv_skel]
                           | rw [modEv_skel] | rw [setNow_skel] | rw [setNb_skel] | rw [setNe_skel])
             all_goals rfl))

theorem sv_skel {w w' : World} (h : w'.skel = w.skel) : SameView w w' := sameView_of_skel _ _ h

theorem sv_setAct_running (w : World) (p : Proc) (A A' : Act) (hA : w.act p = some A) (hr : A'.running = A.running) :
    SameView w (w.setAct p (some A')) := by
  refine ⟨fun _ => rfl, fun _ => rfl, fun _ => rfl, ?_, rfl, rfl, fun _ => id, rfl⟩
  intro q
  unfold runOf
  by_cases hq : q = p
  · subst hq; simp [hA, hr]
  · simp [hq]

/-- labels that leave the chain's view of the world alone -/
theorem apply0_sameView_easy (w : World) (l : Label) (hg : guard w l) (hI : MInv w)
    (hser : ∀ b par maxh wal, l = .newBus b par maxh wal → par = false) :
    (match l with
     | .peBegin .. | .peRecTrip .. | .hSched .. | .hCancel .. | .hFinish .. | .peEnd .. | .peAbort ..
     | .awaitBegin .. | .awaitEnd .. | .take .. => True
     | _ => SameView w (apply0 w l)) := by
  cases l
  all_goals (first | (show SameView _ _) | skip)
  case newBus b par maxh wal =>
    have hp := hser b par maxh wal rfl
    subst hp
    simp only [apply0]
    exact (sameView_of_skel _ _ (setBus_skel w b { parallel := false, maxh := maxh, wal := wal } (by simp [hI.serial b]))).trans (sv_skel (by rfl))
  case on b key k kind => simp only [apply0]; exact sv_modBus _ _ _ (by rfl)
  case off b key k => simp only [apply0]; exact sv_modBus _ _ _ (by rfl)
  case newEvent e ty parent to => simp only [apply0]; exact sv_skel (by rfl)
  case tick t => simp only [apply0]; exact sv_skel (by rfl)
  case rlCreate b => simp only [apply0]; exact sv_modBus _ _ _ (by rfl)
  case dispatch p b e res => exact applyDispatch_sameView w p b e res
  case take => trivial
  case peBegin => trivial
  case peRecTrip => trivial
  case hSched => trivial
  case hStart i =>
    simp [guard, checks, Checks.ok] at hg
    simp only [apply0]
    exact sameView_modInst w i _ (by simp [hg.2, cs]) (by rfl) id
  case hCancel => trivial
  case hEnd i out =>
    simp [guard, checks, Checks.ok] at hg
    have h1 : SameView w (w.modInst i fun I => { I with st := .ended, out := out }) :=
      sameView_modInst w i _ (by simp [hg.2.2.1, cs]) (by rfl) id
    simp only [apply0]
    split
    · split
      · split
        · exact h1.trans (sv_skel (by rfl))
        · exact h1
      · exact h1
    · exact h1
  case hFinish => trivial
  case walWrite p b e ok =>
    simp only [apply0]
    have h1 : SameView w (match w.act p with | some A => w.setAct p (some { A with walDone := true }) | none => w) := by
      cases hA : w.act p with
      | none => exact SameView.refl _
      | some A => exact sv_setAct_running w p A _ hA rfl
    split
    · exact h1.trans (sv_modBus _ _ _ (by rfl))
    · exact h1
  case peEnd => trivial
  case peAbort => trivial
  case awaitBegin => trivial
  case pollYield i => simp only [apply0]; exact sameView_modInst w i _ (by rfl) (by rfl) id
  case awaitEnd => trivial
  case xAwaitEnd => exact SameView.refl _
  case readBus => exact SameView.refl _
  case rlWake b => simp only [apply0]; exact sv_modBus _ _ _ (by rfl)
  case rlPoll b => simp only [apply0]; exact sv_skel (rlIdleCheck_skel _ _)
  case wiBegin x b => simp only [apply0]; exact sv_skel (by rfl)
  case wiJoined x => simp only [apply0]; split <;> first | exact sv_skel (by rfl) | exact SameView.refl _
  case wiIdle x => simp only [apply0]; split <;> first | exact sv_skel (by rfl) | exact SameView.refl _
  case wiRecheck x =>
    simp only [apply0]; split
    · exact sv_skel (by skel_tac)
    · exact SameView.refl _
  case wiEnd x => simp only [apply0]; exact sv_skel (by rfl)
  case wiCancel x => simp only [apply0]; exact sv_skel (by rfl)
  case stopBegin x b clear => simp only [apply0]; exact sv_skel (by skel_tac)
  case stopNoop => exact SameView.refl _
  case stopEnd x =>
    simp only [apply0]; split
    · split
      · exact sv_skel (by skel_tac)
      · exact sv_skel (by skel_tac)
    · exact SameView.refl _
  case rlExit b =>
    simp only [apply0]; split
    · exact sv_skel (by skel_tac)
    · exact sv_skel (by skel_tac)
  case cancelRl b => simp only [apply0]; exact sv_modBus _ _ _ (by rfl)
  case rlCancelled b => simp only [apply0]; exact sv_modBus _ _ _ (by rfl)
  case rlDropExit b => simp only [apply0]; exact sv_skel (by skel_tac)
  case expectBegin x b key k pred to => simp only [apply0]; exact sv_skel (by skel_tac)
  case expectEnd x got =>
    simp only [apply0]; split
    · exact sv_skel (by skel_tac)
    · exact SameView.refl _
  case expectCancel x =>
    simp only [apply0]; split
    · exact sv_skel (by skel_tac)
    · exact SameView.refl _
  case expectTimeout x => simp only [apply0]; split <;> first | exact sv_skel (by rfl) | exact SameView.refl _
  case expectCancelReq x => simp only [apply0]; split <;> first | exact sv_skel (by rfl) | exact SameView.refl _
  case hSkip p_ b_ e_ k_ =>
    simp only [apply0]
    cases hA : w.act p_ with
    | none => exact SameView.refl _
    | some A => exact sv_setAct_running w p_ A _ hA rfl


theorem lock_none_stack_nil (w : World) (hI : MInv w) (h : w.lock = none) : w.stack = [] := by
  cases hst : w.stack with
  | nil => rfl
  | cons a t =>
    obtain ⟨i, b, _, _, h2, _⟩ := chain_bottom w w.stack (by simp [hst]) hI.chain
    rw [h] at h2; cases h2

/-- a live instance without an open inline activation is the innermost one -/
theorem act_none_head (w : World) (hI : MInv w) (i : IId) (hne : cs (w.inst i).st ≠ .fin) (hact : w.act (.inst i) = none) :
    ∃ rest, w.stack = i :: rest := by
  have hi : i ∈ w.stack := (hI.mem i).mpr hne
  obtain ⟨pre, rest, hsplit⟩ := List.append_of_mem hi
  cases pre with
  | nil => exact ⟨rest, by simpa using hsplit⟩
  | cons a t =>
    have hc := hI.chain
    rw [hsplit] at hc
    obtain ⟨x, hx⟩ := chain_above w i rest (a :: t) (by simp) hc
    unfold runOf at hx
    rw [hact] at hx
    simp at hx

theorem lt_ni_of_live (w : World) (hI : MInv w) (i : IId) (hne : cs (w.inst i).st ≠ .fin) : i < w.ni := by
  cases Nat.lt_or_ge i w.ni with
  | inl h => exact h
  | inr h => exact absurd (hI.fresh i h).1 hne

/-- an update of the innermost live instance that keeps it live and keeps its executor -/
theorem minv_modInst_head (w : World) (hI : MInv w) (i : IId) (rest : List IId) (f : Inst → Inst)
    (hst : w.stack = i :: rest) (hact : w.act (.inst i) = none)
    (hexec : (f (w.inst i)).exec = (w.inst i).exec)
    (hcs : cs (f (w.inst i)).st ≠ .fin)
    (htook : (f (w.inst i)).took.isSome → cs (f (w.inst i)).st = .wait) :
    MInv (w.modInst i f) := by
  have hnd := hI.nodup
  rw [hst] at hnd
  have hirest : i ∉ rest := (List.nodup_cons.mp hnd).1
  have hsame : ∀ j, j ≠ i → (w.modInst i f).inst j = w.inst j := fun j hj => by simp [World.modInst, hj]
  have hself : (w.modInst i f).inst i = f (w.inst i) := by simp [World.modInst]
  have hlive : cs (w.inst i).st ≠ .fin := (hI.mem i).mp (by rw [hst]; simp)
  refine ⟨hI.serial, ?_, hI.nodup, ?_, hI.actRl, ?_, hI.actExt, ?_, ?_, ?_⟩
  · intro j
    by_cases hj : j = i
    · subst hj; rw [hself]; show j ∈ w.stack ↔ _; rw [hst]; simp [hcs]
    · rw [hsame j hj]; exact hI.mem j
  · show Chain (w.modInst i f) w.stack
    apply chain_congr_tail w (w.modInst i f) (fun _ => rfl) rfl w.stack _ _ hI.chain
    · intro x _
      by_cases hx : x = i
      · subst hx; rw [hself]; exact hexec
      · rw [hsame x hx]
    · intro x hx
      rw [hst] at hx
      have hxi : x ≠ i := fun h => hirest (h ▸ (by simpa using hx))
      rw [hsame x hxi]; exact ⟨rfl, rfl⟩
  · intro j hj
    have hji : j ≠ i := fun h => by subst h; simp [World.modInst, hact] at hj
    rw [hsame j hji]; exact hI.actInst j hj
  · intro p l hl x hx
    obtain ⟨h1, h2⟩ := hI.runLive p l hl x hx
    refine ⟨h1, ?_⟩
    by_cases hxi : x = i
    · subst hxi; rw [hself, hexec]; exact h2
    · rw [hsame x hxi]; exact h2
  · intro j hj
    by_cases hji : j = i
    · subst hji; rw [hself] at hj ⊢; exact htook hj
    · rw [hsame j hji] at hj ⊢; exact hI.tookWait j hj
  · intro j hj
    have hji : j ≠ i := fun h => by
      subst h
      exact absurd (lt_ni_of_live w hI j hlive) (Nat.not_lt.mpr hj)
    rw [hsame j hji]
    exact hI.fresh j hj

theorem cs_of_isAwaiting (st : ISt) (h : isAwaiting st = true) : cs st = .wait := by
  cases st <;> simp [isAwaiting] at h <;> rfl

theorem act_none_of_busy (w : World) (hI : MInv w) (i : IId) (h : cs (w.inst i).st = .busy) : w.act (.inst i) = none := by
  cases ha : w.act (.inst i) with
  | none => rfl
  | some A =>
    have := hI.actInst i (by simp [ha])
    rw [h] at this; cases this

theorem minv_take (w : World) (p : Proc) (b : BId) (e : EId) (hI : MInv w) (hg : guard w (.take p b e)) :
    MInv (apply0 w (.take p b e)) := by
  simp [guard, checks, Checks.ok] at hg
  obtain ⟨_, _, hp⟩ := hg
  simp only [apply0]
  have h1 : MInv (w.modBus b fun B => { B with queue := B.queue.tail, taken := B.taken ++ [e] }) :=
    minv_of_sameView _ _ (sv_modBus _ _ _ (by rfl)) hI
  cases p with
  | rl b' => exact minv_of_sameView _ _ (sv_modBus _ _ _ (by rfl)) h1
  | ext => exact h1
  | inst i =>
    simp at hp
    obtain ⟨⟨⟨haw, hact⟩, _⟩, _⟩ := hp
    have hw := cs_of_isAwaiting _ haw
    obtain ⟨rest, hst⟩ := act_none_head _ h1 i (by show cs (w.inst i).st ≠ .fin; rw [hw]; decide) hact
    exact minv_modInst_head _ h1 i rest _ hst hact rfl (by show cs (w.inst i).st ≠ .fin; rw [hw]; decide) (fun _ => hw)

theorem minv_hCancel (w : World) (i : IId) (hI : MInv w) (hg : guard w (.hCancel i)) : MInv (apply0 w (.hCancel i)) := by
  simp [guard, checks, Checks.ok] at hg
  obtain ⟨_, hst, _, ⟨hact, htook⟩, _, _⟩ := hg
  simp only [apply0]
  have hlive : cs (w.inst i).st ≠ .fin := by
    rcases hst with h | h
    · rw [h]; decide
    · rw [cs_of_isAwaiting _ h]; decide
  obtain ⟨rest, hs⟩ := act_none_head w hI i hlive hact
  exact minv_modInst_head w hI i rest _ hs hact rfl (by simp [cs]) (fun h => by simp [htook] at h)

theorem minv_awaitBegin (w : World) (i : IId) (c : EId) (hI : MInv w) (hg : guard w (.awaitBegin i c)) :
    MInv (apply0 w (.awaitBegin i c)) := by
  simp [guard, checks, Checks.ok] at hg
  obtain ⟨_, hst, _⟩ := hg
  simp only [apply0]
  have hb : cs (w.inst i).st = .busy := by rw [hst]; rfl
  have hact := act_none_of_busy w hI i hb
  obtain ⟨rest, hs⟩ := act_none_head w hI i (by rw [hb]; decide) hact
  exact minv_modInst_head w hI i rest _ hs hact rfl (by simp [cs]) (fun _ => rfl)

theorem minv_awaitEnd (w : World) (i : IId) (c : EId) (hI : MInv w) (hg : guard w (.awaitEnd i c)) :
    MInv (apply0 w (.awaitEnd i c)) := by
  simp [guard, checks, Checks.ok] at hg
  obtain ⟨_, hst, ⟨hact, htook⟩, _⟩ := hg
  simp only [apply0]
  obtain ⟨rest, hs⟩ := act_none_head w hI i (by rw [hst]; simp [cs]) hact
  exact minv_modInst_head w hI i rest _ hs hact rfl (by simp [cs]) (fun h => by simp [htook] at h)

theorem minv_of_skel (w w' : World) (h : w'.skel = w.skel) (hI : MInv w) : MInv w' :=
  minv_of_sameView w w' (sameView_of_skel w w' h) hI

theorem act_rl_none_of_lock_none (w : World) (hI : MInv w) (hl : w.lock = none) (b : BId) : w.act (.rl b) = none := by
  cases ha : w.act (.rl b) with
  | none => rfl
  | some A =>
    have := hI.actRl b (by simp [ha])
    rw [hl] at this; cases this

/-- a run loop acquires the lock and opens an activation -/
theorem minv_open_rl (w : World) (hI : MInv w) (b : BId) (A : Act) (hl : w.lock = none) (hr : A.running = []) :
    MInv ((w.setLock (some b)).setAct (.rl b) (some A)) := by
  have hst := lock_none_stack_nil w hI hl
  refine ⟨hI.serial, hI.mem, hI.nodup, ?_, ?_, ?_, ?_, ?_, hI.tookWait, ?_⟩
  · show Chain _ w.stack; rw [hst]; trivial
  · intro b' hb'
    by_cases hbb : b' = b
    · subst hbb; rfl
    · have : (Proc.rl b') ≠ Proc.rl b := fun h => hbb (by injection h)
      simp [this] at hb'
      rw [act_rl_none_of_lock_none w hI hl b'] at hb'
      simp at hb'
  · intro j hj
    have : (Proc.inst j) ≠ Proc.rl b := fun h => by cases h
    simp [this] at hj
    exact hI.actInst j hj
  · have : Proc.ext ≠ Proc.rl b := fun h => by cases h
    simp [this]; exact hI.actExt
  · intro p l hl' x hx
    by_cases hp : p = .rl b
    · subst hp; simp [runOf, hr] at hl'; subst hl'; cases hx
    · simp [runOf, hp] at hl'
      exact hI.runLive p l (by simpa [runOf] using hl') x hx
  · intro j hj
    obtain ⟨f1, f2, f3⟩ := hI.fresh j hj
    have : (Proc.inst j) ≠ Proc.rl b := fun h => by cases h
    exact ⟨f1, by simp [this]; exact f2, f3⟩

/-- an awaiting handler opens an inline activation -/
theorem minv_open_inst (w : World) (hI : MInv w) (i : IId) (A : Act) (hact : w.act (.inst i) = none)
    (hw : cs (w.inst i).st = .wait) (hr : A.running = []) :
    MInv (w.setAct (.inst i) (some A)) := by
  obtain ⟨rest, hst⟩ := act_none_head w hI i (by rw [hw]; decide) hact
  have hnd := hI.nodup
  rw [hst] at hnd
  have hirest : i ∉ rest := (List.nodup_cons.mp hnd).1
  refine ⟨hI.serial, hI.mem, hI.nodup, ?_, ?_, ?_, ?_, ?_, hI.tookWait, ?_⟩
  · show Chain _ w.stack
    apply chain_congr_tail w (w.setAct (.inst i) (some A)) _ rfl w.stack (fun _ _ => rfl) _ hI.chain
    · intro b
      have : (Proc.rl b) ≠ Proc.inst i := fun h => by cases h
      simp [runOf, this]
    · intro x hx
      rw [hst] at hx
      have hxi : x ≠ i := fun h => hirest (h ▸ (by simpa using hx))
      have : (Proc.inst x) ≠ Proc.inst i := fun h => hxi (by injection h)
      exact ⟨rfl, by simp [runOf, this]⟩
  · intro b' hb'
    have : (Proc.rl b') ≠ Proc.inst i := fun h => by cases h
    simp [this] at hb'
    exact hI.actRl b' hb'
  · intro j hj
    by_cases hji : j = i
    · subst hji; exact hw
    · have : (Proc.inst j) ≠ Proc.inst i := fun h => hji (by injection h)
      simp [this] at hj
      exact hI.actInst j hj
  · have : Proc.ext ≠ Proc.inst i := fun h => by cases h
    simp [this]; exact hI.actExt
  · intro p l hl' x hx
    by_cases hp : p = .inst i
    · subst hp; simp [runOf, hr] at hl'; subst hl'; cases hx
    · simp [runOf, hp] at hl'
      exact hI.runLive p l (by simpa [runOf] using hl') x hx
  · intro j hj
    obtain ⟨f1, f2, f3⟩ := hI.fresh j hj
    have hji : j ≠ i := fun h => by
      subst h; rw [hw] at f1; cases f1
    have : (Proc.inst j) ≠ Proc.inst i := fun h => hji (by injection h)
    exact ⟨f1, by simp [this]; exact f2, f3⟩

/-- a run loop closes (or abandons) its activation and releases the lock -/
theorem minv_close_rl (w : World) (hI : MInv w) (b : BId) (hrun : runOf w (.rl b) = some []) :
    MInv ((w.setAct (.rl b) none).setLock none) := by
  have hst : w.stack = [] := innermost w hI (.rl b) hrun
  have hsome : (w.act (.rl b)).isSome := by
    unfold runOf at hrun
    cases h : w.act (.rl b) <;> simp [h] at hrun ⊢
  have hlock := hI.actRl b hsome
  refine ⟨hI.serial, hI.mem, hI.nodup, ?_, ?_, ?_, ?_, ?_, hI.tookWait, ?_⟩
  · show Chain _ w.stack; rw [hst]; trivial
  · intro b' hb'
    by_cases hbb : b' = b
    · subst hbb; simp at hb'
    · have : (Proc.rl b') ≠ Proc.rl b := fun h => hbb (by injection h)
      simp [this] at hb'
      have := hI.actRl b' hb'
      rw [hlock] at this
      injection this with this
      exact absurd this.symm hbb
  · intro j hj
    have : (Proc.inst j) ≠ Proc.rl b := fun h => by cases h
    simp [this] at hj
    exact hI.actInst j hj
  · have : Proc.ext ≠ Proc.rl b := fun h => by cases h
    simp [this]; exact hI.actExt
  · intro p l hl' x hx
    by_cases hp : p = .rl b
    · subst hp; simp [runOf] at hl'
    · simp [runOf, hp] at hl'
      exact hI.runLive p l (by simpa [runOf] using hl') x hx
  · intro j hj
    obtain ⟨f1, f2, f3⟩ := hI.fresh j hj
    have : (Proc.inst j) ≠ Proc.rl b := fun h => by cases h
    exact ⟨f1, by simp [this]; exact f2, f3⟩

/-- an awaiting handler closes (or abandons) its inline activation -/
theorem minv_close_inst (w : World) (hI : MInv w) (i : IId) (hrun : runOf w (.inst i) = some []) :
    MInv (w.setAct (.inst i) none) := by
  obtain ⟨rest, hst⟩ : ∃ rest, w.stack = i :: rest := innermost w hI (.inst i) hrun
  have hnd := hI.nodup
  rw [hst] at hnd
  have hirest : i ∉ rest := (List.nodup_cons.mp hnd).1
  refine ⟨hI.serial, hI.mem, hI.nodup, ?_, ?_, ?_, ?_, ?_, hI.tookWait, ?_⟩
  · show Chain _ w.stack
    apply chain_congr_tail w (w.setAct (.inst i) none) _ rfl w.stack (fun _ _ => rfl) _ hI.chain
    · intro b
      have : (Proc.rl b) ≠ Proc.inst i := fun h => by cases h
      simp [runOf, this]
    · intro x hx
      rw [hst] at hx
      have hxi : x ≠ i := fun h => hirest (h ▸ (by simpa using hx))
      have : (Proc.inst x) ≠ Proc.inst i := fun h => hxi (by injection h)
      exact ⟨rfl, by simp [runOf, this]⟩
  · intro b' hb'
    have : (Proc.rl b') ≠ Proc.inst i := fun h => by cases h
    simp [this] at hb'
    exact hI.actRl b' hb'
  · intro j hj
    by_cases hji : j = i
    · subst hji; simp at hj
    · have : (Proc.inst j) ≠ Proc.inst i := fun h => hji (by injection h)
      simp [this] at hj
      exact hI.actInst j hj
  · have : Proc.ext ≠ Proc.inst i := fun h => by cases h
    simp [this]; exact hI.actExt
  · intro p l hl' x hx
    by_cases hp : p = .inst i
    · subst hp; simp [runOf] at hl'
    · simp [runOf, hp] at hl'
      exact hI.runLive p l (by simpa [runOf] using hl') x hx
  · intro j hj
    obtain ⟨f1, f2, f3⟩ := hI.fresh j hj
    by_cases hji : j = i
    · subst hji; exact ⟨f1, by simp, f3⟩
    · have : (Proc.inst j) ≠ Proc.inst i := fun h => hji (by injection h)
      exact ⟨f1, by simp [this]; exact f2, f3⟩

/-- a handler instance is created by the innermost executor -/
theorem minv_sched (w : World) (hI : MInv w) (p : Proc) (i : IId) (A A' : Act) (I0 : Inst)
    (hi : i = w.ni) (hA : w.act p = some A) (hrun : A.running = []) (hrun' : A'.running = [i])
    (hactive : match p with | .rl b => w.lock = some b | .inst j => cs (w.inst j).st = .wait | .ext => False)
    (hexec : I0.exec = p) (hbusy : cs I0.st = .busy) (htook : I0.took = none) :
    MInv ((((w.setInst i I0).setAct p (some A')).setNi (w.ni + 1)).setStack (i :: w.stack)) := by
  obtain ⟨fi1, fi2, fi3⟩ := hI.fresh i (by rw [hi]; exact Nat.le_refl _)
  have hinot : i ∉ w.stack := fun h => (hI.mem i).mp h fi1
  obtain ⟨w', hw'⟩ : ∃ w', w' = (((w.setInst i I0).setAct p (some A')).setNi (w.ni + 1)).setStack (i :: w.stack) := ⟨_, rfl⟩
  rw [← hw']
  have hsame : ∀ j, j ≠ i → w'.inst j = w.inst j := fun j hj => by rw [hw']; simp [hj]
  have hself : w'.inst i = I0 := by rw [hw']; simp
  have hstack : w'.stack = i :: w.stack := by rw [hw']; rfl
  have hlock : w'.lock = w.lock := by rw [hw']; rfl
  have hni : w'.ni = w.ni + 1 := by rw [hw']; rfl
  have hbus : w'.bus = w.bus := by rw [hw']; rfl
  have hactp : w'.act p = some A' := by rw [hw']; simp
  have hactother : ∀ q, q ≠ p → w'.act q = w.act q := fun q hq => by rw [hw']; simp [hq]
  clear hw'
  have hrunp : runOf w p = some [] := by simp [runOf, hA, hrun]
  have hsomeiff : ∀ q, (w'.act q).isSome → (w.act q).isSome := by
    intro q hq
    by_cases hqp : q = p
    · subst hqp; simp [hA]
    · rw [hactother q hqp] at hq; exact hq
  have hlive_ne : ∀ x, x ∈ w.stack → x ≠ i := fun x hx h => hinot (h ▸ hx)
  have hpext : p ≠ .ext := fun h => by subst h; rw [hI.actExt] at hA; cases hA
  refine ⟨fun b => by rw [hbus]; exact hI.serial b, ?_, ?_, ?_, ?_, ?_, ?_, ?_, ?_, ?_⟩
  · intro j
    rw [hstack]
    by_cases hj : j = i
    · subst hj; rw [hself]; simp [hbusy]
    · rw [hsame j hj]
      simp [hj]; exact hI.mem j
  · rw [hstack]
    exact List.nodup_cons.mpr ⟨hinot, hI.nodup⟩
  · rw [hstack]
    cases p with
    | ext => exact absurd rfl hpext
    | rl b =>
      have hst : w.stack = [] := innermost w hI (.rl b) hrunp
      rw [hst]
      exact ⟨b, by rw [hself]; exact hexec, by rw [hlock]; exact hactive, by simp [runOf, hactp, hrun']⟩
    | inst j =>
      obtain ⟨rest, hst⟩ : ∃ rest, w.stack = j :: rest := innermost w hI (.inst j) hrunp
      have hnd := hI.nodup
      rw [hst] at hnd
      have hjrest : j ∉ rest := (List.nodup_cons.mp hnd).1
      have hji : j ≠ i := hlive_ne j (by rw [hst]; simp)
      rw [hst]
      refine ⟨by rw [hself]; exact hexec, by simp [runOf, hactp, hrun'], by rw [hsame j hji]; exact hactive, ?_⟩
      have hc := hI.chain
      rw [hst] at hc
      apply chain_congr_tail w w' _ hlock (j :: rest) _ _ hc
      · intro b
        have : (Proc.rl b) ≠ Proc.inst j := fun h => by cases h
        simp [runOf, hactother _ this]
      · intro x hx
        rw [hsame x (hlive_ne x (by rw [hst]; exact hx))]
      · intro x hx
        have hxs : x ∈ w.stack := by rw [hst]; simp at hx ⊢; exact Or.inr hx
        have hxj : x ≠ j := fun h => hjrest (h ▸ (by simpa using hx))
        have : (Proc.inst x) ≠ Proc.inst j := fun h => hxj (by injection h)
        rw [hsame x (hlive_ne x hxs)]
        exact ⟨rfl, by simp [runOf, hactother _ this]⟩
  · intro b' hb'
    rw [hlock]
    exact hI.actRl b' (hsomeiff _ hb')
  · intro j hj
    have hw := hI.actInst j (hsomeiff _ hj)
    have hji : j ≠ i := fun h => by subst h; rw [hw] at fi1; cases fi1
    rw [hsame j hji]; exact hw
  · rw [hactother .ext (fun h => hpext h.symm)]; exact hI.actExt
  · intro q l hl x hx
    rw [hstack]
    by_cases hqp : q = p
    · subst hqp
      simp [runOf, hactp, hrun'] at hl
      subst hl
      simp at hx
      subst hx
      exact ⟨by simp, by rw [hself]; exact hexec⟩
    · have hl' : runOf w q = some l := by simpa [runOf, hactother q hqp] using hl
      obtain ⟨h1, h2⟩ := hI.runLive q l hl' x hx
      exact ⟨by simp [h1], by rw [hsame x (hlive_ne x h1)]; exact h2⟩
  · intro j hj
    by_cases hji : j = i
    · subst hji; rw [hself] at hj; simp [htook] at hj
    · rw [hsame j hji] at hj ⊢; exact hI.tookWait j hj
  · intro j hj
    rw [hni] at hj
    have hji : j ≠ i := fun h => by
      subst h; rw [hi] at hj; exact absurd hj (Nat.not_succ_le_self _)
    obtain ⟨f1, f2, f3⟩ := hI.fresh j (Nat.le_of_succ_le hj)
    have hqp : (Proc.inst j) ≠ p := fun h => by subst h; rw [f2] at hA; cases hA
    rw [hsame j hji]
    exact ⟨f1, by rw [hactother _ hqp]; exact f2, f3⟩

/-- the innermost handler instance finishes: it leaves the chain and its executor's activation -/
theorem minv_finish (w : World) (hI : MInv w) (i : IId) (A A' : Act) (I' : Inst)
    (hbusy : cs (w.inst i).st = .busy) (hA : w.act (w.inst i).exec = some A)
    (hrun' : A'.running = A.running.erase i)
    (hfin : cs I'.st = .fin) (htook : I'.took = (w.inst i).took) :
    MInv (((w.setInst i I').setAct (w.inst i).exec (some A')).setStack (w.stack.erase i)) := by
  have hhead := only_top_busy w hI i hbusy
  obtain ⟨rest, hst⟩ : ∃ rest, w.stack = i :: rest := by
    cases h : w.stack with
    | nil => rw [h] at hhead; cases hhead
    | cons a t => rw [h] at hhead; simp at hhead; subst hhead; exact ⟨t, rfl⟩
  have hnd := hI.nodup
  rw [hst] at hnd
  have hirest : i ∉ rest := (List.nodup_cons.mp hnd).1
  have hndrest : rest.Nodup := (List.nodup_cons.mp hnd).2
  have hacti : w.act (.inst i) = none := act_none_of_busy w hI i hbusy
  obtain ⟨w', hw'⟩ : ∃ w', w' = ((w.setInst i I').setAct (w.inst i).exec (some A')).setStack (w.stack.erase i) := ⟨_, rfl⟩
  rw [← hw']
  have hsame : ∀ j, j ≠ i → w'.inst j = w.inst j := fun j hj => by rw [hw']; simp [hj]
  have hself : w'.inst i = I' := by rw [hw']; simp
  have hstack : w'.stack = rest := by rw [hw']; show w.stack.erase i = rest; rw [hst]; simp
  have hlock : w'.lock = w.lock := by rw [hw']; rfl
  have hni : w'.ni = w.ni := by rw [hw']; rfl
  have hbus : w'.bus = w.bus := by rw [hw']; rfl
  have hactp : w'.act (w.inst i).exec = some A' := by rw [hw']; simp
  have hactother : ∀ q, q ≠ (w.inst i).exec → w'.act q = w.act q := fun q hq => by rw [hw']; simp [hq]
  clear hw'
  have hsomeiff : ∀ q, (w'.act q).isSome → (w.act q).isSome := by
    intro q hq
    by_cases hqp : q = (w.inst i).exec
    · subst hqp; simp [hA]
    · rw [hactother q hqp] at hq; exact hq
  have hrest_ne : ∀ x, x ∈ rest → x ≠ i := fun x hx h => hirest (h ▸ hx)
  -- what the chain says about the executor of i
  have hc := hI.chain
  rw [hst] at hc
  have hArun : A.running = [i] := by
    cases rest with
    | nil =>
      obtain ⟨b, h1, _, h3⟩ := hc
      rw [h1] at hA
      simpa [runOf, hA] using h3
    | cons j rest' =>
      obtain ⟨h1, h2, _, _⟩ := hc
      rw [h1] at hA
      simpa [runOf, hA] using h2
  have hA'run : A'.running = [] := by rw [hrun', hArun]; simp
  have hlive : cs (w.inst i).st ≠ .fin := by rw [hbusy]; decide
  refine ⟨fun b => by rw [hbus]; exact hI.serial b, ?_, ?_, ?_, ?_, ?_, ?_, ?_, ?_, ?_⟩
  · intro j
    rw [hstack]
    by_cases hj : j = i
    · subst hj; rw [hself]; simp [hfin, hirest]
    · rw [hsame j hj]
      have := hI.mem j
      rw [hst] at this
      simpa [hj] using this
  · rw [hstack]; exact hndrest
  · rw [hstack]
    cases rest with
    | nil => trivial
    | cons j rest' =>
      obtain ⟨h1, h2, h3, h4⟩ := hc
      have hjrest : j ∉ rest' := (List.nodup_cons.mp hndrest).1
      apply chain_congr_tail w w' _ hlock (j :: rest') _ _ h4
      · intro b
        have : (Proc.rl b) ≠ (w.inst i).exec := fun h => by rw [h1] at h; cases h
        simp [runOf, hactother _ this]
      · intro x hx
        rw [hsame x (hrest_ne x hx)]
      · intro x hx
        have hxs : x ∈ j :: rest' := by simp at hx ⊢; exact Or.inr hx
        have hxj : x ≠ j := fun h => hjrest (h ▸ (by simpa using hx))
        have : (Proc.inst x) ≠ (w.inst i).exec := fun h => by rw [h1] at h; exact hxj (by injection h)
        rw [hsame x (hrest_ne x hxs)]
        exact ⟨rfl, by simp [runOf, hactother _ this]⟩
  · intro b' hb'
    rw [hlock]
    exact hI.actRl b' (hsomeiff _ hb')
  · intro j hj
    have hw := hI.actInst j (hsomeiff _ hj)
    have hji : j ≠ i := fun h => by subst h; rw [hw] at hbusy; cases hbusy
    rw [hsame j hji]; exact hw
  · have : Proc.ext ≠ (w.inst i).exec := fun h => by rw [← h, hI.actExt] at hA; cases hA
    rw [hactother .ext this]; exact hI.actExt
  · intro q l hl x hx
    rw [hstack]
    by_cases hqp : q = (w.inst i).exec
    · subst hqp
      simp [runOf, hactp, hA'run] at hl
      subst hl
      cases hx
    · have hl' : runOf w q = some l := by simpa [runOf, hactother q hqp] using hl
      obtain ⟨h1, h2⟩ := hI.runLive q l hl' x hx
      have hxi : x ≠ i := fun h => by subst h; exact hqp h2.symm
      rw [hst] at h1
      exact ⟨by simpa [hxi] using h1, by rw [hsame x hxi]; exact h2⟩
  · intro j hj
    by_cases hji : j = i
    · subst hji
      rw [hself, htook] at hj
      have := hI.tookWait j hj
      rw [hbusy] at this; cases this
    · rw [hsame j hji] at hj ⊢; exact hI.tookWait j hj
  · intro j hj
    rw [hni] at hj
    have hji : j ≠ i := fun h => by
      subst h; exact absurd (lt_ni_of_live w hI j hlive) (Nat.not_lt.mpr hj)
    obtain ⟨f1, f2, f3⟩ := hI.fresh j hj
    have hqp : (Proc.inst j) ≠ (w.inst i).exec := fun h => by rw [← h, f2] at hA; cases hA
    rw [hsame j hji]
    exact ⟨f1, by rw [hactother _ hqp]; exact f2, f3⟩

/-! ### the remaining labels -/

theorem sv_setLock_same (w : World) (l : Option BId) (h : w.lock = l) : SameView w (w.setLock l) :=
  ⟨fun _ => rfl, fun _ => rfl, fun _ => rfl, fun _ => rfl, h.symm, rfl, fun _ => id, rfl⟩

theorem setAct_skel_congr (w1 w2 : World) (p : Proc) (x : Option Act) (h : w1.skel = w2.skel) :
    (w1.setAct p x).skel = (w2.setAct p x).skel := by
  unfold World.skel at h ⊢
  simp only [Prod.mk.injEq] at h
  obtain ⟨hi, ha, hl, hs, hn, hp⟩ := h
  simp only [World.setAct, hi, ha, hl, hs, hn, hp]

theorem setLock_skel_congr (w1 w2 : World) (l : Option BId) (h : w1.skel = w2.skel) :
    (w1.setLock l).skel = (w2.setLock l).skel := by
  unfold World.skel at h ⊢
  simp only [Prod.mk.injEq] at h
  obtain ⟨hi, ha, hl, hs, hn, hp⟩ := h
  simp only [World.setLock, hi, ha, hs, hn, hp]

theorem peOpen_skel (w : World) (p : Proc) (b : BId) (e : EId) :
    (peOpen w p b e).skel = (w.setAct p (some { bus := b, ev := e, todo := applicable w b e, running := [], sel := applicable w b e })).skel := by
  unfold peOpen; simp only []; split
  · rw [markComplete_skel]; rfl
  · rfl

theorem peClose_skel (w : World) (p : Proc) (b : BId) (e : EId) : (peClose w p b e).skel = (w.setAct p none).skel := by
  unfold peClose
  simp only []
  rw [modBus_skel _ _ _ (by rfl)]
  apply setAct_skel_congr
  rw [cleanup_skel, parentWalk_skel, markComplete_skel]

theorem minv_peRecTrip (w : World) (p : Proc) (b : BId) (e : EId) (hI : MInv w) (hg : guard w (.peRecTrip p b e)) :
    MInv (apply0 w (.peRecTrip p b e)) := by
  simp [guard, checks, Checks.ok] at hg
  obtain ⟨hact, hp, _⟩ := hg
  cases p with
  | rl b' =>
    simp at hp
    have hl : w.lock = none := by
      cases h : w.lock <;> simp [h] at hp ⊢
    simp only [apply0, rlBack]
    exact minv_of_sameView _ _ ((sv_modBus _ _ _ (by rfl)).trans (sv_setLock_same _ _ (by simpa using hl))) hI
  | inst i =>
    simp at hp
    simp only [apply0]
    have hw := hI.tookWait i (by simp [hp])
    obtain ⟨rest, hs⟩ := act_none_head w hI i (by rw [hw]; decide) hact
    exact minv_modInst_head w hI i rest _ hs hact rfl (by simp [cs]) (fun h => by simp at h)
  | ext => simp at hp

theorem minv_peBegin (w : World) (p : Proc) (b : BId) (e : EId) (hI : MInv w) (hg : guard w (.peBegin p b e)) :
    MInv (apply0 w (.peBegin p b e)) := by
  simp [guard, checks, Checks.ok] at hg
  obtain ⟨hact, hp, _⟩ := hg
  apply minv_of_skel _ _ (peOpen_skel (peEnter w p b) p b e)
  cases p with
  | rl b' =>
    simp at hp
    obtain ⟨⟨⟨hbb, _⟩, hl⟩, _⟩ := hp
    subst hbb
    have hl : w.lock = none := by
      cases h : w.lock <;> simp [h] at hl ⊢
    simp only [peEnter]
    exact minv_open_rl _ (minv_of_sameView _ _ (sv_modBus w b' _ (by rfl)) hI) b' _ (by simpa using hl) rfl
  | inst i =>
    simp at hp
    simp only [peEnter]
    have hw := hI.tookWait i (by simp [hp])
    obtain ⟨rest, hs⟩ := act_none_head w hI i (by rw [hw]; decide) hact
    have h1 := minv_modInst_head w hI i rest (fun I => { I with took := none }) hs hact rfl
      (by show cs (w.inst i).st ≠ .fin; rw [hw]; decide) (fun h => by simp at h)
    exact minv_open_inst _ h1 i _ (by simpa [World.modInst] using hact) (by simpa [World.modInst] using hw) rfl
  | ext => simp at hp

theorem minv_hSched (w : World) (p : Proc) (i : IId) (b : BId) (e : EId) (k : HId) (hI : MInv w)
    (hg : guard w (.hSched p i b e k)) : MInv (apply0 w (.hSched p i b e k)) := by
  simp [guard, checks, Checks.ok] at hg
  obtain ⟨hi, _, hactIs, hexecA, _, hser, _⟩ := hg
  cases hA : w.act p with
  | none => simp [actIs, hA] at hactIs
  | some A =>
    have hrun : A.running = [] := by
      rcases hser with h | h
      · rw [hI.serial b] at h; cases h
      · simpa [hA] using h
    have hsk : (apply0 w (.hSched p i b e k)).skel =
        ((((w.setInst i { bus := b, ev := e, hid := k, kind := kindOf w b k, exec := p, st := .scheduled,
                          deadline := if (w.ev e).timeout == 0 || (kindOf w b k).isSync then 0 else w.now + (w.ev e).timeout }).setAct p
            (some { A with todo := A.todo.tail, running := A.running ++ [i] })).setNi (w.ni + 1)).setStack (i :: w.stack)).skel := by
      simp only [apply0, applySched, hA]
      rfl
    apply minv_of_skel _ _ hsk
    apply minv_sched w hI p i A _ _ hi hA hrun (by simp [hrun]) _ rfl rfl rfl
    cases p with
    | rl b' => simp [execActive] at hexecA; exact hexecA.1
    | inst j => simp [execActive] at hexecA; exact cs_of_isAwaiting _ hexecA
    | ext => simp [execActive] at hexecA

theorem minv_hFinish (w : World) (i : IId) (r : Fin) (hI : MInv w) (hg : guard w (.hFinish i r)) :
    MInv (apply0 w (.hFinish i r)) := by
  simp [guard, checks, Checks.ok] at hg
  obtain ⟨_, hst, _, hmem⟩ := hg
  have hbusy : cs (w.inst i).st = .busy := by
    rcases hst with h | h
    · rw [h]; rfl
    · rw [h.1.1]; rfl
  cases hA : w.act (w.inst i).exec with
  | none => simp [hA] at hmem
  | some A =>
    have hsk : (apply0 w (.hFinish i r)).skel =
        (((w.setInst i { w.inst i with st := .finished }).setAct (w.inst i).exec
            (some { A with running := A.running.erase i })).setStack (w.stack.erase i)).skel := by
      simp only [apply0, applyFinish, hA]
      split
      · rw [cancelPendingChildren_skel]; rfl
      · rfl
    apply minv_of_skel _ _ hsk
    exact minv_finish w hI i A _ _ hbusy hA rfl rfl rfl

theorem runOf_nil_of_guard (w : World) (p : Proc) (h : (match w.act p with | some A => A.running.isEmpty | none => false) = true) :
    runOf w p = some [] := by
  cases hA : w.act p with
  | none => simp [hA] at h
  | some A => simp [hA] at h; simp [runOf, hA, h]

theorem minv_peEnd (w : World) (p : Proc) (b : BId) (e : EId) (hI : MInv w) (hg : guard w (.peEnd p b e)) :
    MInv (apply0 w (.peEnd p b e)) := by
  simp [guard, checks, Checks.ok] at hg
  obtain ⟨_, hout, _, _⟩ := hg
  have hrun : runOf w p = some [] := by
    cases hA : w.act p with
    | none => simp [hA] at hout
    | some A => simp [hA] at hout; simp [runOf, hA, hout.2]
  cases p with
  | rl b' =>
    have hsk : (apply0 w (.peEnd (.rl b') b e)).skel = ((w.setAct (.rl b') none).setLock none).skel := by
      simp only [apply0, releaseRl, rlBack]
      rw [rlIdleCheck_skel]
      apply setLock_skel_congr
      rw [modBus_skel _ _ _ (by rfl), peClose_skel]
    exact minv_of_skel _ _ hsk (minv_close_rl w hI b' hrun)
  | inst j =>
    have hsk : (apply0 w (.peEnd (.inst j) b e)).skel = (w.setAct (.inst j) none).skel := by
      simp only [apply0]; exact peClose_skel _ _ _ _
    exact minv_of_skel _ _ hsk (minv_close_inst w hI j hrun)
  | ext =>
    have := innermost w hI .ext hrun
    exact absurd this id

theorem minv_peAbort (w : World) (p : Proc) (b : BId) (e : EId) (hI : MInv w) (hg : guard w (.peAbort p b e)) :
    MInv (apply0 w (.peAbort p b e)) := by
  simp [guard, checks, Checks.ok] at hg
  obtain ⟨_, hout, _⟩ := hg
  have hrun : runOf w p = some [] := by
    cases hA : w.act p with
    | none => simp [hA] at hout
    | some A => simp [hA] at hout; simp [runOf, hA, hout]
  cases p with
  | rl b' =>
    have hsk : (apply0 w (.peAbort (.rl b') b e)).skel = ((w.setAct (.rl b') none).setLock none).skel := by
      simp only [apply0]
      apply setLock_skel_congr
      rw [modBus_skel _ _ _ (by rfl)]
    exact minv_of_skel _ _ hsk (minv_close_rl w hI b' hrun)
  | inst j =>
    simp only [apply0]
    exact minv_close_inst w hI j hrun
  | ext =>
    have := innermost w hI .ext hrun
    exact absurd this id

end Bubus
