/-
  Bubus.Proofs.Once — C01 (at most once) as an invariant of all reachable states:
  for every handler instance that exists, the result of its (bus, handler) on its event exists and is not pending;
  since scheduling a handler requires a pending result, no (event, bus, handler) ever gets a second instance.
-/
import Bubus.Proofs.HistInv
namespace Bubus

/-- the result of (bus b, handler k) on the event exists and has left `pending` -/
def Started (E : Ev) (b : BId) (k : HId) : Prop := ∃ r, E.getRes? b k = some r ∧ r.status ≠ .pending

theorem getRes_map (rs : List Res) (b : BId) (k : HId) (f : Res → Res)
    (hf : ∀ r, (f r).hid = r.hid ∧ (f r).bus = r.bus) :
    (rs.map f).find? (fun r => r.hid == k && r.bus == b) = (rs.find? (fun r => r.hid == k && r.bus == b)).map f := by
  induction rs with
  | nil => rfl
  | cons a t ih =>
    simp only [List.map_cons, List.find?_cons]
    rw [(hf a).1, (hf a).2]
    split
    · rfl
    · exact ih

/-- mapping the results with a function that keeps identities and never turns a non-pending result pending keeps `Started` -/
theorem started_map (E : Ev) (b : BId) (k : HId) (f : Res → Res)
    (hf : ∀ r, (f r).hid = r.hid ∧ (f r).bus = r.bus) (hs : ∀ r, r.status ≠ .pending → (f r).status ≠ .pending)
    (h : Started E b k) : Started { E with results := E.results.map f } b k := by
  obtain ⟨r, hr, hst⟩ := h
  refine ⟨f r, ?_, hs r hst⟩
  simp only [Ev.getRes?] at hr ⊢
  rw [getRes_map _ _ _ _ hf, hr]; rfl

theorem started_append (E : Ev) (b : BId) (k : HId) (extra : List Res) (h : Started E b k) :
    Started { E with results := E.results ++ extra } b k := by
  obtain ⟨r, hr, hst⟩ := h
  refine ⟨r, ?_, hst⟩
  simp only [Ev.getRes?] at hr ⊢
  rw [List.find?_append, hr]; rfl

theorem started_congr (E E' : Ev) (b : BId) (k : HId) (h : E'.results = E.results) : Started E b k → Started E' b k := by
  intro ⟨r, hr, hst⟩
  exact ⟨r, by simpa [Ev.getRes?, h] using hr, hst⟩

theorem updRes_started (E : Ev) (b k : Nat) (b' k' : Nat) (f : Res → Res)
    (hf : ∀ r, (f r).hid = r.hid ∧ (f r).bus = r.bus) (hs : ∀ r, r.status ≠ .pending → (f r).status ≠ .pending)
    (h : Started E b k) : Started (E.updRes b' k' f) b k := by
  unfold Ev.updRes
  apply started_map E b k _ _ _ h
  · intro r; split <;> simp [hf r]
  · intro r hr; split
    · exact hs r hr
    · exact hr

/-- `cancelPendingChildren` only turns pending results into errors -/
theorem cancelPendingChildren_started (w : World) (fuel : Nat) (e : EId) (x : EId) (b : BId) (k : HId)
    (h : Started (w.ev x) b k) : Started ((cancelPendingChildren w fuel e).ev x) b k := by
  induction fuel generalizing w e with
  | zero => exact h
  | succ n ih =>
    unfold cancelPendingChildren
    generalize (w.ev e).children = cs
    induction cs generalizing w with
    | nil => exact h
    | cons c cs ihc =>
      simp only [List.foldl_cons]
      apply ihc
      apply ih
      simp only [modEv_eq, setEv_ev]
      split
      · rename_i hx
        subst hx
        apply started_map (w.ev x) b k _ _ _ h
        · intro r; split <;> simp
        · intro r hr; split <;> simp_all
      · exact h

/-- the invariant: every existing instance's result has been started, and its event exists -/
def OnceInv (w : World) : Prop :=
  ∀ j, j < w.ni → Started (w.ev (w.inst j).ev) (w.inst j).bus (w.inst j).hid ∧ (w.inst j).ev < w.ne

theorem onceInv_of_frame (w w' : World) (hni : w'.ni = w.ni) (hne : w.ne ≤ w'.ne)
    (hinst : ∀ j, j < w.ni → (w'.inst j).ev = (w.inst j).ev ∧ (w'.inst j).bus = (w.inst j).bus ∧ (w'.inst j).hid = (w.inst j).hid)
    (hres : ∀ x b k, x < w.ne → Started (w.ev x) b k → Started (w'.ev x) b k)
    (h : OnceInv w) : OnceInv w' := by
  intro j hj
  rw [hni] at hj
  obtain ⟨h1, h2⟩ := h j hj
  obtain ⟨e1, e2, e3⟩ := hinst j hj
  rw [e1, e2, e3]
  exact ⟨hres _ _ _ h2 h1, Nat.lt_of_lt_of_le h2 hne⟩

end Bubus

namespace Bubus

theorem markComplete_started (w : World) (e x : EId) (b : BId) (k : HId) (h : Started (w.ev x) b k) :
    Started ((markComplete w e).ev x) b k :=
  started_congr _ _ b k (markComplete_results w e x) h

theorem peOpen_started (w : World) (p : Proc) (b' : BId) (e x : EId) (b : BId) (k : HId) (h : Started (w.ev x) b k) :
    Started ((peOpen w p b' e).ev x) b k := by
  unfold peOpen
  simp only []
  have h1 : Started (((w.modEv e fun E => { E with results := E.results ++ (applicable w b' e).map fun k => { hid := k, bus := b' } }).setAct p
      (some { bus := b', ev := e, todo := applicable w b' e, running := [], sel := applicable w b' e })).ev x) b k := by
    simp only [setAct_ev, modEv_eq, setEv_ev]
    split
    · rename_i hx; subst hx; exact started_append _ _ _ _ h
    · exact h
  split
  · exact markComplete_started _ _ _ _ _ h1
  · exact h1

theorem peClose_started (w : World) (p : Proc) (b' : BId) (e x : EId) (b : BId) (k : HId) (h : Started (w.ev x) b k) :
    Started ((peClose w p b' e).ev x) b k := by
  unfold peClose
  simp only [modBus_eq, setBus_ev, setAct_ev, cleanup_ev]
  exact started_congr _ _ b k (by rw [parentWalk_results, markComplete_results]) h

theorem releaseRl_ev (w : World) (b : BId) : (releaseRl w b).ev = w.ev := by
  unfold releaseRl rlIdleCheck rlBack
  split <;> simp

theorem applyDispatch_started (w : World) (p : Proc) (b' : BId) (e : EId) (res : DRes) (x : EId) (b : BId) (k : HId)
    (h : Started (w.ev x) b k) : Started ((applyDispatch w p b' e res).ev x) b k := by
  have h1 : Started ((dFwd (dPath (dParent w (ctxOf w p) e) b' e) p).ev x) b k :=
    started_congr _ _ b k (by rw [dFwd_ev, dPath_results, dParent_results]) h
  unfold applyDispatch
  cases res <;> simp only [] <;> try exact h1
  rw [cleanup_ev]
  unfold dChild
  split
  · split
    · simp only [modEv_eq, setEv_ev]
      split
      · rename_i hx
        subst hx
        apply updRes_started
        · intro r; exact ⟨rfl, rfl⟩
        · intro r hr; exact hr
        · rw [dEnqueue_ev]; exact h1
      · rw [dEnqueue_ev]; exact h1
    · rw [dEnqueue_ev]; exact h1
  · rw [dEnqueue_ev]; exact h1

theorem applyFinish_started (w : World) (i : IId) (r : Fin) (x : EId) (b : BId) (k : HId)
    (h : Started (w.ev x) b k) : Started ((applyFinish w i r).ev x) b k := by
  unfold applyFinish
  simp only []
  have h1 : Started ((w.modEv (w.inst i).ev fun E => E.updRes (w.inst i).bus (w.inst i).hid fun y =>
      { y with status := r.status, err := r.err }).ev x) b k := by
    simp only [modEv_eq, setEv_ev]
    split
    · rename_i hx; subst hx
      apply updRes_started _ _ _ _ _ _ _ _ h
      · intro y; exact ⟨rfl, rfl⟩
      · intro y _; cases r <;> simp [Fin.status]
    · exact h
  cases hA : w.act (w.inst i).exec <;> simp only [] <;> split <;>
    first
    | (apply cancelPendingChildren_started; simpa using h1)
    | (simpa using h1)

/-- no label ever takes a started result back: `Started` is monotone along every accepted label, for every existing event -/
theorem apply0_started (w : World) (l : Label) (x : EId) (b : BId) (k : HId) (hx : x < w.ne)
    (hg : guard w l = true) (h : Started (w.ev x) b k) : Started ((apply0 w l).ev x) b k := by
  cases l
  case newEvent e ty par to =>
    simp [guard, checks, Checks.ok] at hg
    have he : x ≠ e := by
      have h0 : e = w.ne := hg.1
      intro hxe
      rw [hxe, h0] at hx
      exact Nat.lt_irrefl _ hx
    simp only [apply0, setNe_ev, setEv_ev, he, if_false]
    exact h
  case dispatch p b' e res => exact applyDispatch_started w p b' e res x b k h
  case peBegin p b' e =>
    show Started ((peOpen (peEnter w p b') p b' e).ev x) b k
    apply peOpen_started
    cases p <;> simpa [peEnter] using h
  case hSched p i b' e k' =>
    show Started ((applySched w p i b' e k').ev x) b k
    have h1 : Started ((w.modEv e fun E => E.updRes b' k' fun r => { r with status := .started }).ev x) b k := by
      simp only [modEv_eq, setEv_ev]
      split
      · rename_i hxe; subst hxe
        apply updRes_started _ _ _ _ _ _ _ _ h
        · intro y; exact ⟨rfl, rfl⟩
        · intro y _; simp
      · exact h
    unfold applySched
    cases hA : w.act p <;> simpa using h1
  case hFinish i r => exact applyFinish_started w i r x b k h
  case peEnd p b' e =>
    simp only [apply0]
    cases p
    · rw [releaseRl_ev]; exact peClose_started w _ b' e x b k h
    · exact peClose_started w _ b' e x b k h
    · exact peClose_started w _ b' e x b k h
  case newBus => simpa [apply0] using h
  case on => simpa [apply0] using h
  case off => simpa [apply0] using h
  case tick => simpa [apply0] using h
  case rlCreate => simpa [apply0] using h
  case take p b' e => cases p <;> simpa [apply0] using h
  case peRecTrip p b' e => cases p <;> simp [apply0, rlBack] <;> exact h
  case hStart => simpa [apply0] using h
  case hCancel => simpa [apply0] using h
  case hEnd i out =>
    simp only [apply0]
    split <;> (try split) <;> (try split) <;> simpa using h
  case walWrite p b' e ok =>
    simp only [apply0]
    cases hA : w.act p <;> cases ok <;> simpa [hA] using h
  case peAbort p b' e => cases p <;> simpa [apply0] using h
  case awaitBegin => simpa [apply0] using h
  case pollYield => simpa [apply0] using h
  case awaitEnd => simpa [apply0] using h
  case xAwaitEnd => simpa [apply0] using h
  case readBus => simpa [apply0] using h
  case rlWake => simpa [apply0] using h
  case rlPoll b' => simp only [apply0, rlIdleCheck]; split <;> simpa using h
  case wiBegin => simpa [apply0] using h
  case wiJoined x' => simp only [apply0]; split <;> simpa using h
  case wiIdle x' => simp only [apply0]; split <;> simpa using h
  case wiRecheck x' => simp only [apply0]; split <;> simpa using h
  case wiEnd => simpa [apply0] using h
  case wiCancel => simpa [apply0] using h
  case expectTimeout x' => simp only [apply0]; split <;> simpa using h
  case expectCancelReq x' => simp only [apply0]; split <;> simpa using h
  case hSkip p_ b_ e_ k_ => simp only [apply0]; split <;> simpa using h
  case stopBegin => simpa [apply0] using h
  case stopNoop => simpa [apply0] using h
  case stopEnd x' => simp only [apply0]; split <;> (try split) <;> simpa using h
  case rlExit b' => simp only [apply0, rlIdleCheck]; split <;> (try split) <;> simpa using h
  case cancelRl => simpa [apply0] using h
  case rlCancelled => simpa [apply0] using h
  case rlDropExit b' => simp only [apply0, rlIdleCheck]; split <;> simpa using h
  case expectBegin => simpa [apply0] using h
  case expectEnd x' got => simp only [apply0]; split <;> simpa using h
  case expectCancel x' => simp only [apply0]; split <;> simpa using h

end Bubus

namespace Bubus

/-- which (event, bus, handler) an instance belongs to -/
def idOf (I : Inst) : EId × BId × HId := (I.ev, I.bus, I.hid)

theorem idOf_setInst (w : World) (i j : IId) (x : Inst) (h : idOf x = idOf (w.inst i)) :
    idOf ((w.setInst i x).inst j) = idOf (w.inst j) := by
  rw [setInst_inst]; split
  · rename_i hji; rw [hji]; exact h
  · rfl

theorem dFwd_idOf (w : World) (p : Proc) (j : IId) : idOf ((dFwd w p).inst j) = idOf (w.inst j) := by
  unfold dFwd
  split
  · split
    · exact idOf_setInst _ _ _ _ rfl
    · rfl
  · rfl

theorem markComplete_inst (w : World) (x : EId) : (markComplete w x).inst = w.inst := by
  unfold markComplete; simp only []; repeat' split
  all_goals simp

theorem parentWalk_inst (fuel : Nat) (w : World) (x : EId) (seen : List EId) : (parentWalk w fuel x seen).inst = w.inst := by
  induction fuel generalizing w x seen with
  | zero => rfl
  | succ n ih =>
    unfold parentWalk
    split
    · rfl
    · split
      · rfl
      · split
        · rw [ih, markComplete_inst]
        · rfl

theorem cancelPendingChildren_inst (fuel : Nat) (w : World) (x : EId) : (cancelPendingChildren w fuel x).inst = w.inst := by
  induction fuel generalizing w x with
  | zero => rfl
  | succ n ih =>
    unfold cancelPendingChildren
    generalize (w.ev x).children = cs
    induction cs generalizing w with
    | nil => rfl
    | cons c cs ihc => simp only [List.foldl_cons]; rw [ihc, ih]; simp

theorem releaseRl_inst (w : World) (b : BId) : (releaseRl w b).inst = w.inst := by
  unfold releaseRl rlIdleCheck rlBack; split <;> simp

theorem peClose_inst (w : World) (p : Proc) (b : BId) (e : EId) : (peClose w p b e).inst = w.inst := by
  unfold peClose
  simp [cleanup_inst, parentWalk_inst, markComplete_inst]

theorem peOpen_inst (w : World) (p : Proc) (b : BId) (e : EId) : (peOpen w p b e).inst = w.inst := by
  unfold peOpen
  simp only []
  split <;> simp [markComplete_inst]

/-- no label changes which (event, bus, handler) an existing instance belongs to -/
theorem apply0_inst_id (w : World) (l : Label) (j : IId) (hj : j < w.ni) (hg : guard w l = true) :
    idOf ((apply0 w l).inst j) = idOf (w.inst j) := by
  cases l
  case hSched p i b e k =>
    simp [guard, checks, Checks.ok] at hg
    have hi : i = w.ni := hg.1
    have hji : j ≠ i := by rw [hi]; exact Nat.ne_of_lt hj
    show idOf ((applySched w p i b e k).inst j) = _
    unfold applySched
    cases hA : w.act p <;> simp [hji]
  case dispatch p b e res =>
    show idOf ((applyDispatch w p b e res).inst j) = _
    unfold applyDispatch
    cases res <;> simp only [cleanup_inst, dChild_inst, dEnqueue_inst] <;>
      (rw [dFwd_idOf, dPath_inst, dParent_inst])
  case peBegin p b e =>
    show idOf ((peOpen (peEnter w p b) p b e).inst j) = _
    rw [peOpen_inst]
    cases p <;> simp only [peEnter, modInst_eq, modBus_eq, setLock_inst, setBus_inst]
    exact idOf_setInst _ _ _ _ rfl
  case peEnd p b e =>
    simp only [apply0]
    cases p <;> simp only [releaseRl_inst, peClose_inst]
  case hFinish i r =>
    show idOf ((applyFinish w i r).inst j) = _
    unfold applyFinish
    simp only []
    cases hA : w.act (w.inst i).exec <;> simp only [] <;> split <;>
      simp only [cancelPendingChildren_inst, setAct_inst, modEv_eq] <;>
      exact idOf_setInst _ _ _ _ rfl
  case newBus => simp [apply0]
  case on => simp [apply0]
  case off => simp [apply0]
  case newEvent => simp [apply0]
  case tick => simp [apply0]
  case rlCreate => simp [apply0]
  case take p b e =>
    cases p <;> simp only [apply0, modInst_eq, modBus_eq, setBus_inst]
    exact idOf_setInst _ _ _ _ rfl
  case peRecTrip p b e =>
    cases p <;> simp only [apply0, rlBack, modInst_eq, modBus_eq, setLock_inst, setBus_inst]
    exact idOf_setInst _ _ _ _ rfl
  case hStart i => simp only [apply0, modInst_eq]; exact idOf_setInst _ _ _ _ rfl
  case hCancel i => simp only [apply0, modInst_eq]; exact idOf_setInst _ _ _ _ rfl
  case hEnd i out =>
    simp only [apply0]
    split <;> (try split) <;> (try split) <;> simp only [modInst_eq, setWaiter_inst] <;> exact idOf_setInst _ _ _ _ rfl
  case walWrite p b e ok => simp only [apply0]; cases hA : w.act p <;> cases ok <;> simp [hA]
  case peAbort p b e => cases p <;> simp [apply0]
  case awaitBegin i c => simp only [apply0, modInst_eq]; exact idOf_setInst _ _ _ _ rfl
  case pollYield i => simp only [apply0, modInst_eq]; exact idOf_setInst _ _ _ _ rfl
  case awaitEnd i c => simp only [apply0, modInst_eq]; exact idOf_setInst _ _ _ _ rfl
  case xAwaitEnd => simp [apply0]
  case readBus => simp [apply0]
  case rlWake => simp [apply0]
  case rlPoll b => simp only [apply0, rlIdleCheck]; split <;> simp
  case wiBegin => simp [apply0]
  case wiJoined x => simp only [apply0]; split <;> simp
  case wiIdle x => simp only [apply0]; split <;> simp
  case wiRecheck x => simp only [apply0]; split <;> simp
  case wiEnd => simp [apply0]
  case wiCancel => simp [apply0]
  case expectTimeout x' => simp only [apply0]; split <;> simp
  case expectCancelReq x' => simp only [apply0]; split <;> simp
  case hSkip p_ b_ e_ k_ => simp only [apply0]; split <;> simp
  case stopBegin => simp [apply0]
  case stopNoop => simp [apply0]
  case stopEnd x => simp only [apply0]; split <;> (try split) <;> simp
  case rlExit b => simp only [apply0, rlIdleCheck]; split <;> (try split) <;> simp
  case cancelRl => simp [apply0]
  case rlCancelled => simp [apply0]
  case rlDropExit b => simp only [apply0, rlIdleCheck]; split <;> simp
  case expectBegin => simp [apply0]
  case expectEnd x got => simp only [apply0]; split <;> simp
  case expectCancel x => simp only [apply0]; split <;> simp

end Bubus

namespace Bubus

theorem apply0_ni (w : World) (l : Label) : (apply0 w l).ni = match l with | .hSched .. => w.ni + 1 | _ => w.ni := by
  cases l
  case hSched p i b e k => show (applySched w p i b e k).ni = _; unfold applySched; cases hA : w.act p <;> simp
  case dispatch p b e res =>
    show (applyDispatch w p b e res).ni = w.ni
    unfold applyDispatch
    have h1 : ∀ w' : World, (dFwd w' p).ni = w'.ni := by intro w'; unfold dFwd; split <;> (try split) <;> simp
    have h2 : ∀ w' : World, (dPath w' b e).ni = w'.ni := by intro w'; unfold dPath; split <;> simp
    have h3 : ∀ w' : World, ∀ c, (dParent w' c e).ni = w'.ni := by intro w' c; unfold dParent; split <;> (try split) <;> simp
    have h4 : ∀ w' : World, ∀ c, (dChild w' c e).ni = w'.ni := by intro w' c; unfold dChild; split <;> (try split) <;> simp
    cases res <;> simp [cleanup, dEnqueue, h1, h2, h3, h4]
  case peBegin p b e =>
    show (peOpen (peEnter w p b) p b e).ni = w.ni
    unfold peOpen
    simp only []
    have hm : ∀ (w : World) (x : EId), (markComplete w x).ni = w.ni := by
      intro w x; unfold markComplete; simp only []; repeat' split
      all_goals simp
    split <;> cases p <;> simp [hm, peEnter]
  case peEnd p b e =>
    have hm : ∀ (w : World) (x : EId), (markComplete w x).ni = w.ni := by
      intro w x; unfold markComplete; simp only []; repeat' split
      all_goals simp
    have hp : ∀ (fuel : Nat) (w : World) (x : EId) (seen : List EId), (parentWalk w fuel x seen).ni = w.ni := by
      intro fuel
      induction fuel with
      | zero => intros; rfl
      | succ n ih =>
        intro w x seen; unfold parentWalk
        split
        · rfl
        · split
          · rfl
          · split
            · rw [ih, hm]
            · rfl
    have hc : (peClose w p b e).ni = w.ni := by unfold peClose; simp [cleanup, hp, hm]
    have hr : ∀ (w : World) (b : BId), (releaseRl w b).ni = w.ni := by
      intro w b; unfold releaseRl rlIdleCheck rlBack; split <;> simp
    simp only [apply0]
    cases p <;> simp [hr, hc]
  case hFinish i r =>
    show (applyFinish w i r).ni = w.ni
    have hcp : ∀ (fuel : Nat) (w : World) (x : EId), (cancelPendingChildren w fuel x).ni = w.ni := by
      intro fuel
      induction fuel with
      | zero => intros; rfl
      | succ n ih =>
        intro w x; unfold cancelPendingChildren
        generalize (w.ev x).children = cs
        induction cs generalizing w with
        | nil => rfl
        | cons c cs ihc => simp only [List.foldl_cons]; rw [ihc, ih]; simp
    unfold applyFinish
    simp only []
    cases hA : w.act (w.inst i).exec <;> simp only [] <;> split <;> simp [hcp]
  all_goals first
    | rfl
    | (simp only [apply0, rlIdleCheck, rlBack]; (repeat' split) <;> (try simp))

theorem apply0_ne_mono (w : World) (l : Label) : w.ne ≤ (apply0 w l).ne := by
  cases l
  case newEvent => simp [apply0]
  case hSched p i b e k => show w.ne ≤ (applySched w p i b e k).ne; unfold applySched; cases hA : w.act p <;> simp
  case dispatch p b e res =>
    show w.ne ≤ (applyDispatch w p b e res).ne
    unfold applyDispatch
    cases res <;> simp [cleanup_ne, dChild_ne, dEnqueue_ne, dFwd_ne, dPath_ne, dParent_ne]
  case peBegin p b e =>
    show w.ne ≤ (peOpen (peEnter w p b) p b e).ne
    unfold peOpen
    simp only []
    have hm : ∀ (w : World) (x : EId), (markComplete w x).ne = w.ne := by
      intro w x; unfold markComplete; simp only []; repeat' split
      all_goals simp
    split <;> cases p <;> simp [hm, peEnter]
  case peEnd p b e =>
    have hm : ∀ (w : World) (x : EId), (markComplete w x).ne = w.ne := by
      intro w x; unfold markComplete; simp only []; repeat' split
      all_goals simp
    have hp : ∀ (fuel : Nat) (w : World) (x : EId) (seen : List EId), (parentWalk w fuel x seen).ne = w.ne := by
      intro fuel
      induction fuel with
      | zero => intros; rfl
      | succ n ih =>
        intro w x seen; unfold parentWalk
        split
        · rfl
        · split
          · rfl
          · split
            · rw [ih, hm]
            · rfl
    have hc : (peClose w p b e).ne = w.ne := by unfold peClose; simp [cleanup, hp, hm]
    have hr : ∀ (w : World) (b : BId), (releaseRl w b).ne = w.ne := by
      intro w b; unfold releaseRl rlIdleCheck rlBack; split <;> simp
    simp only [apply0]
    cases p <;> simp [hr, hc]
  case hFinish i r =>
    show w.ne ≤ (applyFinish w i r).ne
    have hcp : ∀ (fuel : Nat) (w : World) (x : EId), (cancelPendingChildren w fuel x).ne = w.ne := by
      intro fuel
      induction fuel with
      | zero => intros; rfl
      | succ n ih =>
        intro w x; unfold cancelPendingChildren
        generalize (w.ev x).children = cs
        induction cs generalizing w with
        | nil => rfl
        | cons c cs ihc => simp only [List.foldl_cons]; rw [ihc, ih]; simp
    unfold applyFinish
    simp only []
    cases hA : w.act (w.inst i).exec <;> simp only [] <;> split <;> simp [hcp]
  all_goals first
    | exact Nat.le_refl _
    | (simp only [apply0, rlIdleCheck, rlBack]; (repeat' split) <;> (try simp))

theorem onceInv_wake (w : World) (h : OnceInv w) : OnceInv (wake w) := by
  intro j hj
  simp only [wake_ni] at hj
  simpa only [wake_ev, wake_inst, wake_ne] using h j hj

/-- scheduling marks the handler's result started and creates the instance for exactly that (event, bus, handler) -/
theorem hSched_new_instance (w : World) (p : Proc) (b : BId) (e : EId) (k : HId) (r : Res)
    (hr : (w.ev e).getRes? b k = some r) :
    Started ((apply0 w (.hSched p w.ni b e k)).ev e) b k ∧ idOf ((apply0 w (.hSched p w.ni b e k)).inst w.ni) = (e, b, k) := by
  have hfound := List.find?_some hr
  show Started ((applySched w p w.ni b e k).ev e) b k ∧ idOf ((applySched w p w.ni b e k).inst w.ni) = (e, b, k)
  unfold applySched
  have hst : Started (((w.ev e).updRes b k fun r => { r with status := .started })) b k := by
    refine ⟨{ r with status := .started }, ?_, by simp⟩
    simp only [Ev.getRes?, Ev.updRes] at hr ⊢
    rw [getRes_map _ _ _ _ (by intro y; split <;> simp), hr]
    simp only [Option.map_some, hfound, if_true]
  cases hA : w.act p <;> simp [idOf] <;> exact hst

theorem onceInv_step (w w' : World) (l : Label) (hI : OnceInv w) (hs : step w l = some w') : OnceInv w' := by
  obtain ⟨hg, rfl⟩ := step_some hs
  show OnceInv (wake (apply0 w l))
  apply onceInv_wake
  intro j hj
  by_cases hold : j < w.ni
  · obtain ⟨h1, h2⟩ := hI j hold
    have hid := apply0_inst_id w l j hold hg
    simp only [idOf, Prod.mk.injEq] at hid
    obtain ⟨e1, e2, e3⟩ := hid
    rw [e1, e2, e3]
    exact ⟨apply0_started w l _ _ _ h2 hg h1, Nat.lt_of_lt_of_le h2 (apply0_ne_mono w l)⟩
  · -- a new instance: only `hSched` creates one, with its result just marked started
    have hni := apply0_ni w l
    cases l
    case hSched p i b e k =>
      simp only [] at hni
      have hji : j = w.ni := by omega
      have hgg := hg
      simp [guard, checks, Checks.ok] at hgg
      obtain ⟨hi, hne, _, _, _, _, hp⟩ := hgg
      subst hi
      subst hji
      cases hr : (w.ev e).getRes? b k with
      | none => simp [hr] at hp
      | some r =>
        obtain ⟨hst, hid⟩ := hSched_new_instance w p b e k r hr
        simp only [idOf, Prod.mk.injEq] at hid
        obtain ⟨e1, e2, e3⟩ := hid
        rw [e1, e2, e3]
        exact ⟨hst, Nat.lt_of_lt_of_le hne (apply0_ne_mono w _)⟩
    all_goals (simp only [] at hni; omega)

theorem onceInv_init : OnceInv ({} : World) := by intro j hj; exact absurd hj (Nat.not_lt_zero _)

theorem onceInv_run (w w' : World) (ls : List Label) (hI : OnceInv w) (h : run w ls = some w') : OnceInv w' := by
  induction ls generalizing w with
  | nil => simp [run] at h; subst h; exact hI
  | cons l ls ih =>
    simp only [run] at h
    split at h
    · rename_i w1 hs1; exact ih w1 (onceInv_step w w1 l hI hs1) h
    · cases h

namespace Thm

/-- **C01 (at most once), for every reachable state**: whatever the programs, nesting, errors, timeouts, re-dispatches
    and schedule, when a handler is scheduled for (event, bus, handler) no instance for that triple exists yet —
    no handler ever runs twice for the same event on the same bus. -/
theorem C01_no_handler_runs_twice (w w' : World) (hr : Reachable w) (p : Proc) (i : IId) (b : BId) (e : EId) (k : HId)
    (hs : step w (.hSched p i b e k) = some w') : C01.once w b e k = true := by
  obtain ⟨ls, hls⟩ := hr
  have hI := onceInv_run {} w ls onceInv_init hls
  obtain ⟨r, hres, hpend⟩ := C01_scheduling_requires_a_pending_result w w' p i b e k hs
  simp only [C01.once, insts, Bool.not_eq_true', List.any_eq_false, List.mem_range, Bool.and_eq_true, beq_iff_eq,
    not_and]
  intro j hj hbe hk
  obtain ⟨hb, he⟩ := hbe
  obtain ⟨⟨r', hr', hst⟩, _⟩ := hI j hj
  rw [hb, he, hk, hres] at hr'
  injection hr' with hr'
  subst hr'
  exact hst hpend

end Thm
end Bubus
