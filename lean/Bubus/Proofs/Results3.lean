/-
  Bubus.Proofs.Results3 — C12: `event_results_by_handler_name` as a view of the included results: one entry per
  handler name (no duplicates), exactly the names of the included results — nothing invented, nothing dropped —
  for all result lists, include filters and flags.
-/
import Bubus.Proofs.Results2
namespace Bubus.Thm
open Bubus Bubus.Results

/-- the dict-comprehension step of `byHandlerName` -/
def nameStep (acc : List (Nat × Val)) (r : Res) : List (Nat × Val) :=
  if acc.any (·.1 == r.name) then acc.map (fun (k, v) => if k == r.name then (k, r.value) else (k, v))
  else acc ++ [(r.name, r.value)]

theorem any_key_iff (acc : List (Nat × Val)) (n : Nat) : acc.any (·.1 == n) = true ↔ n ∈ acc.map (·.1) := by
  simp only [List.any_eq_true, beq_iff_eq, List.mem_map]

theorem keys_nameStep (acc : List (Nat × Val)) (r : Res) :
    (nameStep acc r).map (·.1) = if r.name ∈ acc.map (·.1) then acc.map (·.1) else acc.map (·.1) ++ [r.name] := by
  unfold nameStep
  by_cases h : r.name ∈ acc.map (·.1)
  · rw [if_pos ((any_key_iff acc r.name).mpr h), if_pos h, List.map_map]
    apply List.map_congr_left
    rintro ⟨k, v⟩ _
    simp only [Function.comp]
    split <;> rfl
  · have h' : ¬ (acc.any (·.1 == r.name) = true) := fun hh => h ((any_key_iff acc r.name).mp hh)
    rw [if_neg h', if_neg h]
    simp

theorem keys_fold (l : List Res) (acc : List (Nat × Val)) (hn : (acc.map (·.1)).Nodup) :
    ((l.foldl nameStep acc).map (·.1)).Nodup ∧
    ∀ k, k ∈ (l.foldl nameStep acc).map (·.1) ↔ (k ∈ acc.map (·.1) ∨ ∃ r ∈ l, r.name = k) := by
  induction l generalizing acc with
  | nil => exact ⟨hn, fun k => by simp⟩
  | cons r l ih =>
    simp only [List.foldl_cons]
    have hk := keys_nameStep acc r
    have hn' : ((nameStep acc r).map (·.1)).Nodup := by
      rw [hk]
      split
      · exact hn
      · rename_i hmem
        rw [List.nodup_append]
        refine ⟨hn, by simp, ?_⟩
        intro a ha b hb
        simp only [List.mem_singleton] at hb
        subst hb
        intro hab
        subst hab
        exact hmem ha
    obtain ⟨h1, h2⟩ := ih (nameStep acc r) hn'
    refine ⟨h1, fun k => ?_⟩
    rw [h2 k, hk]
    by_cases hmem : r.name ∈ acc.map (·.1)
    · rw [if_pos hmem]
      constructor
      · rintro (h | ⟨x, hx, hxe⟩)
        · exact .inl h
        · exact .inr ⟨x, List.mem_cons_of_mem _ hx, hxe⟩
      · rintro (h | ⟨x, hx, hxe⟩)
        · exact .inl h
        · rcases List.mem_cons.mp hx with hx | hx
          · subst hx; subst hxe; exact .inl hmem
          · exact .inr ⟨x, hx, hxe⟩
    · rw [if_neg hmem]
      simp only [List.mem_append, List.mem_singleton]
      constructor
      · rintro ((h | h) | ⟨x, hx, hxe⟩)
        · exact .inl h
        · exact .inr ⟨r, List.mem_cons_self, h.symm⟩
        · exact .inr ⟨x, List.mem_cons_of_mem _ hx, hxe⟩
      · rintro (h | ⟨x, hx, hxe⟩)
        · exact .inl (.inl h)
        · rcases List.mem_cons.mp hx with hx | hx
          · subst hx; exact .inl (.inr hxe.symm)
          · exact .inr ⟨x, hx, hxe⟩

theorem byHandlerName_ok (rs : List Res) (incl : Res → Bool) (ra rn : Bool) (l : List (Nat × Val))
    (h : byHandlerName rs incl ra rn = .ok l) : l = (rs.filter incl).foldl nameStep [] := by
  unfold byHandlerName at h
  cases hf : filtered rs incl ra rn with
  | error e => simp [hf, Except.map] at h
  | ok l' =>
    simp only [hf, Except.map] at h
    injection h with h
    have hl := filtered_ok_eq rs incl ra rn l' hf
    subst hl
    exact h.symm

/-- C12: `event_results_by_handler_name` has one entry per handler name: no key twice. -/
theorem C12_by_handler_name_has_one_entry_per_name (rs : List Res) (incl : Res → Bool) (ra rn : Bool)
    (l : List (Nat × Val)) (h : byHandlerName rs incl ra rn = .ok l) : (l.map (·.1)).Nodup := by
  rw [byHandlerName_ok rs incl ra rn l h]
  exact (keys_fold (rs.filter incl) [] (by simp)).1

/-- C12: the keys of `event_results_by_handler_name` are exactly the handler names of the included results: no name
    invented, none dropped. -/
theorem C12_by_handler_name_keys_are_the_included_names (rs : List Res) (incl : Res → Bool) (ra rn : Bool)
    (l : List (Nat × Val)) (h : byHandlerName rs incl ra rn = .ok l) (k : Nat) :
    k ∈ l.map (·.1) ↔ ∃ r ∈ rs, incl r = true ∧ r.name = k := by
  rw [byHandlerName_ok rs incl ra rn l h, (keys_fold (rs.filter incl) [] (by simp)).2 k]
  simp only [List.map_nil, List.not_mem_nil, false_or, List.mem_filter]
  constructor
  · rintro ⟨r, ⟨hr, hi⟩, hk⟩; exact ⟨r, hr, hi, hk⟩
  · rintro ⟨r, hr, hi, hk⟩; exact ⟨r, ⟨hr, hi⟩, hk⟩

theorem nameStep_sets (acc : List (Nat × Val)) (r : Res) : (r.name, r.value) ∈ nameStep acc r := by
  unfold nameStep
  by_cases h : acc.any (·.1 == r.name) = true
  · rw [if_pos h]
    simp only [List.any_eq_true, beq_iff_eq] at h
    obtain ⟨⟨k, v⟩, hx, hk⟩ := h
    simp only at hk
    exact List.mem_map.mpr ⟨(k, v), hx, by simp [hk]⟩
  · rw [if_neg h]; simp

theorem nameStep_keeps_other (acc : List (Nat × Val)) (r : Res) (k : Nat) (v : Val) (hm : (k, v) ∈ acc)
    (hne : k ≠ r.name) : (k, v) ∈ nameStep acc r := by
  unfold nameStep
  split
  · exact List.mem_map.mpr ⟨(k, v), hm, by simp [hne]⟩
  · exact List.mem_append_left _ hm

theorem fold_keeps_other (post : List Res) (acc : List (Nat × Val)) (k : Nat) (v : Val) (hm : (k, v) ∈ acc)
    (hne : ∀ r ∈ post, r.name ≠ k) : (k, v) ∈ post.foldl nameStep acc := by
  induction post generalizing acc with
  | nil => exact hm
  | cons r post ih =>
    simp only [List.foldl_cons]
    exact ih _ (nameStep_keeps_other acc r k v hm (fun h => hne r List.mem_cons_self h.symm))
      (fun x hx => hne x (List.mem_cons_of_mem _ hx))

/-- C12: under one handler name `event_results_by_handler_name` holds the value of the last included result with
    that name (in handler order) — the value recorded for that handler, not another one. -/
theorem C12_by_handler_name_holds_the_last_value_of_each_name (rs : List Res) (incl : Res → Bool) (ra rn : Bool)
    (l : List (Nat × Val)) (h : byHandlerName rs incl ra rn = .ok l) (pre post : List Res) (r : Res)
    (hsplit : rs.filter incl = pre ++ r :: post) (hlast : ∀ x ∈ post, x.name ≠ r.name) :
    (r.name, r.value) ∈ l := by
  rw [byHandlerName_ok rs incl ra rn l h, hsplit, List.foldl_append, List.foldl_cons]
  exact fold_keeps_other post _ r.name r.value (nameStep_sets _ r) hlast

/-- non-vacuity: two handlers share the name 7; the later value wins, the key keeps its first position -/
example : byHandlerName [{ hid := 1, name := 7, status := .completed, value := .int 4 },
      { hid := 2, name := 8, status := .completed, value := .int 5 },
      { hid := 3, name := 7, status := .completed, value := .int 6 }] defaultInclude false true =
    .ok [(7, .int 6), (8, .int 5)] := by
  rfl

end Bubus.Thm
