/-
  Bubus.Proofs.Dispatch — what each stage of `dispatch` changes (frame lemmas), used by C09, C13, C14, C02, C07.
-/
import Bubus.Proofs.Frame
namespace Bubus

/-! #### dParent -/
theorem dParent_bus (w ctx e) : (dParent w ctx e).bus = w.bus := by
  unfold dParent; split <;> (try split) <;> simp
theorem dParent_inst (w ctx e) : (dParent w ctx e).inst = w.inst := by
  unfold dParent; split <;> (try split) <;> simp
theorem dParent_ne (w ctx e) : (dParent w ctx e).ne = w.ne := by
  unfold dParent; split <;> (try split) <;> simp
theorem dParent_nb (w ctx e) : (dParent w ctx e).nb = w.nb := by
  unfold dParent; split <;> (try split) <;> simp
theorem dParent_cfg (w ctx e) : (dParent w ctx e).cfg = w.cfg := by
  unfold dParent; split <;> (try split) <;> simp
theorem dParent_ev_other (w ctx e x) (h : x ≠ e) : (dParent w ctx e).ev x = w.ev x := by
  unfold dParent; split <;> (try split) <;> simp [h]
theorem dParent_results (w ctx e x) : ((dParent w ctx e).ev x).results = (w.ev x).results := by
  unfold dParent; split <;> (try split) <;> simp [setEv_ev] <;> split <;> simp_all
theorem dParent_path (w ctx e x) : ((dParent w ctx e).ev x).path = (w.ev x).path := by
  unfold dParent; split <;> (try split) <;> simp [setEv_ev] <;> split <;> simp_all
theorem dParent_etype (w ctx e x) : ((dParent w ctx e).ev x).etype = (w.ev x).etype := by
  unfold dParent; split <;> (try split) <;> simp [setEv_ev] <;> split <;> simp_all
theorem dParent_status (w ctx e x) : ((dParent w ctx e).ev x).status = (w.ev x).status := by
  unfold dParent; split <;> (try split) <;> simp [setEv_ev] <;> split <;> simp_all [Ev.status, Ev.completedAt, Ev.startedAt, Ev.allTerminal, Ev.anyStarted]
/-- the parent field after stage 1 -/
theorem dParent_parent (w : World) (ctx : Option (EId × BId × HId)) (e x : EId) :
    ((dParent w ctx e).ev x).parent =
      if x = e ∧ (w.ev e).parent = none ∧ (∃ c, ctx = some c ∧ c.1 ≠ e) then ctx.map (·.1) else (w.ev x).parent := by
  unfold dParent
  cases ctx with
  | none => simp
  | some c =>
    obtain ⟨ce, cb, ck⟩ := c
    by_cases hx : x = e
    · subst hx
      by_cases hp : (w.ev x).parent = none <;> by_cases hc : ce = x <;> simp [hp, hc]
    · simp only [hx, false_and, if_false]
      split <;> simp [hx]

/-! #### dPath -/
theorem dPath_bus (w b e) : (dPath w b e).bus = w.bus := by unfold dPath; split <;> simp
theorem dPath_inst (w b e) : (dPath w b e).inst = w.inst := by unfold dPath; split <;> simp
theorem dPath_ne (w b e) : (dPath w b e).ne = w.ne := by unfold dPath; split <;> simp
theorem dPath_nb (w b e) : (dPath w b e).nb = w.nb := by unfold dPath; split <;> simp
theorem dPath_cfg (w b e) : (dPath w b e).cfg = w.cfg := by unfold dPath; split <;> simp
theorem dPath_parent (w b e x) : ((dPath w b e).ev x).parent = (w.ev x).parent := by
  unfold dPath; split <;> simp [setEv_ev] <;> split <;> simp_all
theorem dPath_results (w b e x) : ((dPath w b e).ev x).results = (w.ev x).results := by
  unfold dPath; split <;> simp [setEv_ev] <;> split <;> simp_all
theorem dPath_etype (w b e x) : ((dPath w b e).ev x).etype = (w.ev x).etype := by
  unfold dPath; split <;> simp [setEv_ev] <;> split <;> simp_all
theorem dPath_status (w b e x) : ((dPath w b e).ev x).status = (w.ev x).status := by
  unfold dPath; split <;> simp [setEv_ev] <;> split <;> simp_all [Ev.status, Ev.completedAt, Ev.startedAt, Ev.allTerminal, Ev.anyStarted]
theorem dPath_path_other (w b e x) (h : x ≠ e) : ((dPath w b e).ev x).path = (w.ev x).path := by
  unfold dPath; split <;> simp [h]
theorem dPath_path_same (w b e) :
    ((dPath w b e).ev e).path = if (w.ev e).path.contains b then (w.ev e).path else (w.ev e).path ++ [b] := by
  unfold dPath; split <;> simp_all

/-! #### dFwd -/
theorem dFwd_bus (w p) : (dFwd w p).bus = w.bus := by unfold dFwd; split <;> (try split) <;> simp
theorem dFwd_ev (w p) : (dFwd w p).ev = w.ev := by unfold dFwd; split <;> (try split) <;> simp
theorem dFwd_ne (w p) : (dFwd w p).ne = w.ne := by unfold dFwd; split <;> (try split) <;> simp
theorem dFwd_nb (w p) : (dFwd w p).nb = w.nb := by unfold dFwd; split <;> (try split) <;> simp
theorem dFwd_cfg (w p) : (dFwd w p).cfg = w.cfg := by unfold dFwd; split <;> (try split) <;> simp

/-! #### dEnqueue -/
theorem dEnqueue_ev (w b e) : (dEnqueue w b e).ev = w.ev := by simp [dEnqueue]
theorem dEnqueue_inst (w b e) : (dEnqueue w b e).inst = w.inst := by simp [dEnqueue]
theorem dEnqueue_ne (w b e) : (dEnqueue w b e).ne = w.ne := by simp [dEnqueue]
theorem dEnqueue_bus_other (w b e b') (h : b' ≠ b) : (dEnqueue w b e).bus b' = w.bus b' := by simp [dEnqueue, h]
theorem dEnqueue_queue (w b e) : ((dEnqueue w b e).bus b).queue = (w.bus b).queue ++ [e] := by simp [dEnqueue]
theorem dEnqueue_hist (w b e) :
    ((dEnqueue w b e).bus b).hist = if (w.bus b).hist.contains e then (w.bus b).hist else (w.bus b).hist ++ [e] := by
  simp [dEnqueue]
theorem dEnqueue_maxh (w b e) : ((dEnqueue w b e).bus b).maxh = (w.bus b).maxh := by simp [dEnqueue]

/-! #### dChild -/
theorem dChild_bus (w ctx e) : (dChild w ctx e).bus = w.bus := by
  unfold dChild; split <;> (try split) <;> simp
theorem dChild_inst (w ctx e) : (dChild w ctx e).inst = w.inst := by
  unfold dChild; split <;> (try split) <;> simp
theorem dChild_ne (w ctx e) : (dChild w ctx e).ne = w.ne := by
  unfold dChild; split <;> (try split) <;> simp
theorem dChild_parent (w ctx e x) : ((dChild w ctx e).ev x).parent = (w.ev x).parent := by
  unfold dChild; split <;> (try split) <;> simp [setEv_ev, Ev.updRes] <;> split <;> simp_all
theorem dChild_path (w ctx e x) : ((dChild w ctx e).ev x).path = (w.ev x).path := by
  unfold dChild; split <;> (try split) <;> simp [setEv_ev, Ev.updRes] <;> split <;> simp_all
theorem dChild_etype (w ctx e x) : ((dChild w ctx e).ev x).etype = (w.ev x).etype := by
  unfold dChild; split <;> (try split) <;> simp [setEv_ev, Ev.updRes] <;> split <;> simp_all

/-! #### cleanup -/
theorem cleanup_ev (w b) : (cleanup w b).ev = w.ev := by simp [cleanup]
theorem cleanup_inst (w b) : (cleanup w b).inst = w.inst := by simp [cleanup]
theorem cleanup_act (w b) : (cleanup w b).act = w.act := by simp [cleanup]
theorem cleanup_lock (w b) : (cleanup w b).lock = w.lock := by simp [cleanup]
theorem cleanup_ne (w b) : (cleanup w b).ne = w.ne := by simp [cleanup]
theorem cleanup_nb (w b) : (cleanup w b).nb = w.nb := by simp [cleanup]
theorem cleanup_bus_other (w b b') (h : b' ≠ b) : (cleanup w b).bus b' = w.bus b' := by simp [cleanup, h]
theorem cleanup_queue (w b b') : ((cleanup w b).bus b').queue = (w.bus b').queue := by
  by_cases h : b' = b <;> simp [cleanup, h, setBus_bus]
theorem cleanup_hist (w b) : ((cleanup w b).bus b).hist = cleanupHist w (w.bus b).hist (w.bus b).maxh := by simp [cleanup]
theorem cleanup_maxh (w b b') : ((cleanup w b).bus b').maxh = (w.bus b').maxh := by
  by_cases h : b' = b <;> simp [cleanup, h, setBus_bus]

end Bubus
