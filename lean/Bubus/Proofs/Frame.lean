/-
  Bubus.Proofs.Frame — `rfl` lemmas for the setters: what each setter leaves alone.
-/
import Bubus.Model.Step
namespace Bubus

@[simp] theorem setBus_bus_same (w : World) (b : BId) (x : Bus) : (w.setBus b x).bus b = x := by simp [World.setBus]
@[simp] theorem setBus_bus_other (w : World) (b b' : BId) (x : Bus) (h : b' ≠ b) : (w.setBus b x).bus b' = w.bus b' := by
  simp [World.setBus, h]
@[simp] theorem setBus_ev (w : World) (b : BId) (x : Bus) : (w.setBus b x).ev = w.ev := rfl
@[simp] theorem setBus_inst (w : World) (b : BId) (x : Bus) : (w.setBus b x).inst = w.inst := rfl
@[simp] theorem setBus_act (w : World) (b : BId) (x : Bus) : (w.setBus b x).act = w.act := rfl
@[simp] theorem setBus_lock (w : World) (b : BId) (x : Bus) : (w.setBus b x).lock = w.lock := rfl
@[simp] theorem setBus_nb (w : World) (b : BId) (x : Bus) : (w.setBus b x).nb = w.nb := rfl
@[simp] theorem setBus_ne (w : World) (b : BId) (x : Bus) : (w.setBus b x).ne = w.ne := rfl
@[simp] theorem setBus_ni (w : World) (b : BId) (x : Bus) : (w.setBus b x).ni = w.ni := rfl
@[simp] theorem setBus_now (w : World) (b : BId) (x : Bus) : (w.setBus b x).now = w.now := rfl
@[simp] theorem setBus_cfg (w : World) (b : BId) (x : Bus) : (w.setBus b x).cfg = w.cfg := rfl

@[simp] theorem setEv_ev_same (w : World) (e : EId) (x : Ev) : (w.setEv e x).ev e = x := by simp [World.setEv]
@[simp] theorem setEv_ev_other (w : World) (e e' : EId) (x : Ev) (h : e' ≠ e) : (w.setEv e x).ev e' = w.ev e' := by
  simp [World.setEv, h]
@[simp] theorem setEv_bus (w : World) (e : EId) (x : Ev) : (w.setEv e x).bus = w.bus := rfl
@[simp] theorem setEv_inst (w : World) (e : EId) (x : Ev) : (w.setEv e x).inst = w.inst := rfl
@[simp] theorem setEv_act (w : World) (e : EId) (x : Ev) : (w.setEv e x).act = w.act := rfl
@[simp] theorem setEv_lock (w : World) (e : EId) (x : Ev) : (w.setEv e x).lock = w.lock := rfl
@[simp] theorem setEv_nb (w : World) (e : EId) (x : Ev) : (w.setEv e x).nb = w.nb := rfl
@[simp] theorem setEv_ne (w : World) (e : EId) (x : Ev) : (w.setEv e x).ne = w.ne := rfl
@[simp] theorem setEv_ni (w : World) (e : EId) (x : Ev) : (w.setEv e x).ni = w.ni := rfl
@[simp] theorem setEv_now (w : World) (e : EId) (x : Ev) : (w.setEv e x).now = w.now := rfl
@[simp] theorem setEv_cfg (w : World) (e : EId) (x : Ev) : (w.setEv e x).cfg = w.cfg := rfl

@[simp] theorem setInst_inst_same (w : World) (i : IId) (x : Inst) : (w.setInst i x).inst i = x := by simp [World.setInst]
@[simp] theorem setInst_inst_other (w : World) (i i' : IId) (x : Inst) (h : i' ≠ i) : (w.setInst i x).inst i' = w.inst i' := by
  simp [World.setInst, h]
@[simp] theorem setInst_bus (w : World) (i : IId) (x : Inst) : (w.setInst i x).bus = w.bus := rfl
@[simp] theorem setInst_ev (w : World) (i : IId) (x : Inst) : (w.setInst i x).ev = w.ev := rfl
@[simp] theorem setInst_act (w : World) (i : IId) (x : Inst) : (w.setInst i x).act = w.act := rfl
@[simp] theorem setInst_lock (w : World) (i : IId) (x : Inst) : (w.setInst i x).lock = w.lock := rfl
@[simp] theorem setInst_nb (w : World) (i : IId) (x : Inst) : (w.setInst i x).nb = w.nb := rfl
@[simp] theorem setInst_ne (w : World) (i : IId) (x : Inst) : (w.setInst i x).ne = w.ne := rfl
@[simp] theorem setInst_ni (w : World) (i : IId) (x : Inst) : (w.setInst i x).ni = w.ni := rfl
@[simp] theorem setInst_now (w : World) (i : IId) (x : Inst) : (w.setInst i x).now = w.now := rfl
@[simp] theorem setInst_cfg (w : World) (i : IId) (x : Inst) : (w.setInst i x).cfg = w.cfg := rfl

@[simp] theorem setAct_act_same (w : World) (p : Proc) (x : Option Act) : (w.setAct p x).act p = x := by simp [World.setAct]
@[simp] theorem setAct_act_other (w : World) (p p' : Proc) (x : Option Act) (h : p' ≠ p) : (w.setAct p x).act p' = w.act p' := by
  simp [World.setAct, h]
@[simp] theorem setAct_bus (w : World) (p : Proc) (x : Option Act) : (w.setAct p x).bus = w.bus := rfl
@[simp] theorem setAct_ev (w : World) (p : Proc) (x : Option Act) : (w.setAct p x).ev = w.ev := rfl
@[simp] theorem setAct_inst (w : World) (p : Proc) (x : Option Act) : (w.setAct p x).inst = w.inst := rfl
@[simp] theorem setAct_lock (w : World) (p : Proc) (x : Option Act) : (w.setAct p x).lock = w.lock := rfl
@[simp] theorem setAct_nb (w : World) (p : Proc) (x : Option Act) : (w.setAct p x).nb = w.nb := rfl
@[simp] theorem setAct_ne (w : World) (p : Proc) (x : Option Act) : (w.setAct p x).ne = w.ne := rfl
@[simp] theorem setAct_ni (w : World) (p : Proc) (x : Option Act) : (w.setAct p x).ni = w.ni := rfl
@[simp] theorem setAct_now (w : World) (p : Proc) (x : Option Act) : (w.setAct p x).now = w.now := rfl
@[simp] theorem setAct_cfg (w : World) (p : Proc) (x : Option Act) : (w.setAct p x).cfg = w.cfg := rfl

@[simp] theorem setLock_lock (w : World) (l : Option BId) : (w.setLock l).lock = l := rfl
@[simp] theorem setLock_bus (w : World) (l : Option BId) : (w.setLock l).bus = w.bus := rfl
@[simp] theorem setLock_ev (w : World) (l : Option BId) : (w.setLock l).ev = w.ev := rfl
@[simp] theorem setLock_inst (w : World) (l : Option BId) : (w.setLock l).inst = w.inst := rfl
@[simp] theorem setLock_act (w : World) (l : Option BId) : (w.setLock l).act = w.act := rfl
@[simp] theorem setLock_nb (w : World) (l : Option BId) : (w.setLock l).nb = w.nb := rfl
@[simp] theorem setLock_ne (w : World) (l : Option BId) : (w.setLock l).ne = w.ne := rfl
@[simp] theorem setLock_ni (w : World) (l : Option BId) : (w.setLock l).ni = w.ni := rfl
@[simp] theorem setLock_now (w : World) (l : Option BId) : (w.setLock l).now = w.now := rfl
@[simp] theorem setLock_cfg (w : World) (l : Option BId) : (w.setLock l).cfg = w.cfg := rfl

@[simp] theorem setNow_now (w : World) (t : Nat) : (w.setNow t).now = t := rfl
@[simp] theorem setNow_bus (w : World) (t : Nat) : (w.setNow t).bus = w.bus := rfl
@[simp] theorem setNow_ev (w : World) (t : Nat) : (w.setNow t).ev = w.ev := rfl
@[simp] theorem setNow_inst (w : World) (t : Nat) : (w.setNow t).inst = w.inst := rfl
@[simp] theorem setNow_act (w : World) (t : Nat) : (w.setNow t).act = w.act := rfl
@[simp] theorem setNow_lock (w : World) (t : Nat) : (w.setNow t).lock = w.lock := rfl
@[simp] theorem setNow_nb (w : World) (t : Nat) : (w.setNow t).nb = w.nb := rfl
@[simp] theorem setNow_ne (w : World) (t : Nat) : (w.setNow t).ne = w.ne := rfl
@[simp] theorem setNow_ni (w : World) (t : Nat) : (w.setNow t).ni = w.ni := rfl
@[simp] theorem setNow_cfg (w : World) (t : Nat) : (w.setNow t).cfg = w.cfg := rfl

@[simp] theorem setNb_nb (w : World) (n : Nat) : (w.setNb n).nb = n := rfl
@[simp] theorem setNb_bus (w : World) (n : Nat) : (w.setNb n).bus = w.bus := rfl
@[simp] theorem setNb_ev (w : World) (n : Nat) : (w.setNb n).ev = w.ev := rfl
@[simp] theorem setNb_inst (w : World) (n : Nat) : (w.setNb n).inst = w.inst := rfl
@[simp] theorem setNb_act (w : World) (n : Nat) : (w.setNb n).act = w.act := rfl
@[simp] theorem setNb_lock (w : World) (n : Nat) : (w.setNb n).lock = w.lock := rfl
@[simp] theorem setNb_ne (w : World) (n : Nat) : (w.setNb n).ne = w.ne := rfl
@[simp] theorem setNb_ni (w : World) (n : Nat) : (w.setNb n).ni = w.ni := rfl
@[simp] theorem setNb_now (w : World) (n : Nat) : (w.setNb n).now = w.now := rfl
@[simp] theorem setNb_cfg (w : World) (n : Nat) : (w.setNb n).cfg = w.cfg := rfl

@[simp] theorem setNe_ne (w : World) (n : Nat) : (w.setNe n).ne = n := rfl
@[simp] theorem setNe_bus (w : World) (n : Nat) : (w.setNe n).bus = w.bus := rfl
@[simp] theorem setNe_ev (w : World) (n : Nat) : (w.setNe n).ev = w.ev := rfl
@[simp] theorem setNe_inst (w : World) (n : Nat) : (w.setNe n).inst = w.inst := rfl
@[simp] theorem setNe_act (w : World) (n : Nat) : (w.setNe n).act = w.act := rfl
@[simp] theorem setNe_lock (w : World) (n : Nat) : (w.setNe n).lock = w.lock := rfl
@[simp] theorem setNe_nb (w : World) (n : Nat) : (w.setNe n).nb = w.nb := rfl
@[simp] theorem setNe_ni (w : World) (n : Nat) : (w.setNe n).ni = w.ni := rfl
@[simp] theorem setNe_now (w : World) (n : Nat) : (w.setNe n).now = w.now := rfl
@[simp] theorem setNe_cfg (w : World) (n : Nat) : (w.setNe n).cfg = w.cfg := rfl

@[simp] theorem setNi_ni (w : World) (n : Nat) : (w.setNi n).ni = n := rfl
@[simp] theorem setNi_bus (w : World) (n : Nat) : (w.setNi n).bus = w.bus := rfl
@[simp] theorem setNi_ev (w : World) (n : Nat) : (w.setNi n).ev = w.ev := rfl
@[simp] theorem setNi_inst (w : World) (n : Nat) : (w.setNi n).inst = w.inst := rfl
@[simp] theorem setNi_act (w : World) (n : Nat) : (w.setNi n).act = w.act := rfl
@[simp] theorem setNi_lock (w : World) (n : Nat) : (w.setNi n).lock = w.lock := rfl
@[simp] theorem setNi_nb (w : World) (n : Nat) : (w.setNi n).nb = w.nb := rfl
@[simp] theorem setNi_ne (w : World) (n : Nat) : (w.setNi n).ne = w.ne := rfl
@[simp] theorem setNi_now (w : World) (n : Nat) : (w.setNi n).now = w.now := rfl
@[simp] theorem setNi_cfg (w : World) (n : Nat) : (w.setNi n).cfg = w.cfg := rfl

@[simp] theorem setWaiter_bus (w : World) (x : Nat) (s : WSt) : (w.setWaiter x s).bus = w.bus := rfl
@[simp] theorem setWaiter_ev (w : World) (x : Nat) (s : WSt) : (w.setWaiter x s).ev = w.ev := rfl
@[simp] theorem setWaiter_inst (w : World) (x : Nat) (s : WSt) : (w.setWaiter x s).inst = w.inst := rfl
@[simp] theorem setWaiter_act (w : World) (x : Nat) (s : WSt) : (w.setWaiter x s).act = w.act := rfl
@[simp] theorem setWaiter_lock (w : World) (x : Nat) (s : WSt) : (w.setWaiter x s).lock = w.lock := rfl
@[simp] theorem setWaiter_nb (w : World) (x : Nat) (s : WSt) : (w.setWaiter x s).nb = w.nb := rfl
@[simp] theorem setWaiter_ne (w : World) (x : Nat) (s : WSt) : (w.setWaiter x s).ne = w.ne := rfl
@[simp] theorem setWaiter_ni (w : World) (x : Nat) (s : WSt) : (w.setWaiter x s).ni = w.ni := rfl
@[simp] theorem setWaiter_now (w : World) (x : Nat) (s : WSt) : (w.setWaiter x s).now = w.now := rfl
@[simp] theorem setWaiter_cfg (w : World) (x : Nat) (s : WSt) : (w.setWaiter x s).cfg = w.cfg := rfl
@[simp] theorem setBus_waiter (w : World) (b : BId) (x : Bus) : (w.setBus b x).waiter = w.waiter := rfl
@[simp] theorem setEv_waiter (w : World) (e : EId) (x : Ev) : (w.setEv e x).waiter = w.waiter := rfl
@[simp] theorem setInst_waiter (w : World) (i : IId) (x : Inst) : (w.setInst i x).waiter = w.waiter := rfl
@[simp] theorem setAct_waiter (w : World) (p : Proc) (x : Option Act) : (w.setAct p x).waiter = w.waiter := rfl
@[simp] theorem setLock_waiter (w : World) (l : Option BId) : (w.setLock l).waiter = w.waiter := rfl
@[simp] theorem setBus_nx (w : World) (b : BId) (x : Bus) : (w.setBus b x).nx = w.nx := rfl
@[simp] theorem setEv_nx (w : World) (e : EId) (x : Ev) : (w.setEv e x).nx = w.nx := rfl
@[simp] theorem setInst_nx (w : World) (i : IId) (x : Inst) : (w.setInst i x).nx = w.nx := rfl
@[simp] theorem setAct_nx (w : World) (p : Proc) (x : Option Act) : (w.setAct p x).nx = w.nx := rfl
@[simp] theorem setLock_nx (w : World) (l : Option BId) : (w.setLock l).nx = w.nx := rfl

@[simp] theorem setStack_stack (w : World) (l : List IId) : (w.setStack l).stack = l := rfl
@[simp] theorem setStack_bus (w : World) (l : List IId) : (w.setStack l).bus = w.bus := rfl
@[simp] theorem setStack_ev (w : World) (l : List IId) : (w.setStack l).ev = w.ev := rfl
@[simp] theorem setStack_inst (w : World) (l : List IId) : (w.setStack l).inst = w.inst := rfl
@[simp] theorem setStack_act (w : World) (l : List IId) : (w.setStack l).act = w.act := rfl
@[simp] theorem setStack_lock (w : World) (l : List IId) : (w.setStack l).lock = w.lock := rfl
@[simp] theorem setStack_nb (w : World) (l : List IId) : (w.setStack l).nb = w.nb := rfl
@[simp] theorem setStack_ne (w : World) (l : List IId) : (w.setStack l).ne = w.ne := rfl
@[simp] theorem setStack_ni (w : World) (l : List IId) : (w.setStack l).ni = w.ni := rfl
@[simp] theorem setStack_now (w : World) (l : List IId) : (w.setStack l).now = w.now := rfl
@[simp] theorem setStack_cfg (w : World) (l : List IId) : (w.setStack l).cfg = w.cfg := rfl
@[simp] theorem setStack_waiter (w : World) (l : List IId) : (w.setStack l).waiter = w.waiter := rfl
@[simp] theorem setStack_nx (w : World) (l : List IId) : (w.setStack l).nx = w.nx := rfl
@[simp] theorem setBus_stack (w : World) (b : BId) (x : Bus) : (w.setBus b x).stack = w.stack := rfl
@[simp] theorem setEv_stack (w : World) (e : EId) (x : Ev) : (w.setEv e x).stack = w.stack := rfl
@[simp] theorem setInst_stack (w : World) (i : IId) (x : Inst) : (w.setInst i x).stack = w.stack := rfl
@[simp] theorem setAct_stack (w : World) (p : Proc) (x : Option Act) : (w.setAct p x).stack = w.stack := rfl
@[simp] theorem setLock_stack (w : World) (l : Option BId) : (w.setLock l).stack = w.stack := rfl
@[simp] theorem setNow_stack (w : World) (t : Nat) : (w.setNow t).stack = w.stack := rfl
@[simp] theorem setNb_stack (w : World) (n : Nat) : (w.setNb n).stack = w.stack := rfl
@[simp] theorem setNe_stack (w : World) (n : Nat) : (w.setNe n).stack = w.stack := rfl
@[simp] theorem setNi_stack (w : World) (n : Nat) : (w.setNi n).stack = w.stack := rfl
@[simp] theorem setWaiter_stack (w : World) (x : Nat) (s : WSt) : (w.setWaiter x s).stack = w.stack := rfl

/-- the part of the world that is not about blocked external tasks -/
structure Core where
  cfg : Config
  bus : BId → Bus
  ev : EId → Ev
  inst : IId → Inst
  act : Proc → Option Act
  lock : Option BId
  nb : Nat
  ne : Nat
  ni : Nat
  now : Nat
  stack : List IId

def World.core (w : World) : Core :=
  { cfg := w.cfg, bus := w.bus, ev := w.ev, inst := w.inst, act := w.act, lock := w.lock, nb := w.nb, ne := w.ne, ni := w.ni,
    now := w.now, stack := w.stack }

@[simp] theorem setWaiter_core (w : World) (x : Nat) (s : WSt) : (w.setWaiter x s).core = w.core := rfl

/-- `wake` only touches the blocked-external-task table -/
theorem wake_core (w : World) : (wake w).core = w.core := by
  unfold wake
  generalize List.range w.nx = l
  induction l generalizing w with
  | nil => rfl
  | cons x xs ih =>
    simp only [List.foldl_cons]
    rw [ih]
    split <;> (try split) <;> simp

@[simp] theorem wake_bus (w : World) : (wake w).bus = w.bus := congrArg Core.bus (wake_core w)
@[simp] theorem wake_ev (w : World) : (wake w).ev = w.ev := congrArg Core.ev (wake_core w)
@[simp] theorem wake_inst (w : World) : (wake w).inst = w.inst := congrArg Core.inst (wake_core w)
@[simp] theorem wake_act (w : World) : (wake w).act = w.act := congrArg Core.act (wake_core w)
@[simp] theorem wake_lock (w : World) : (wake w).lock = w.lock := congrArg Core.lock (wake_core w)
@[simp] theorem wake_nb (w : World) : (wake w).nb = w.nb := congrArg Core.nb (wake_core w)
@[simp] theorem wake_ne (w : World) : (wake w).ne = w.ne := congrArg Core.ne (wake_core w)
@[simp] theorem wake_ni (w : World) : (wake w).ni = w.ni := congrArg Core.ni (wake_core w)
@[simp] theorem wake_now (w : World) : (wake w).now = w.now := congrArg Core.now (wake_core w)
@[simp] theorem wake_cfg (w : World) : (wake w).cfg = w.cfg := congrArg Core.cfg (wake_core w)
@[simp] theorem wake_stack (w : World) : (wake w).stack = w.stack := congrArg Core.stack (wake_core w)

/-- unfolding of the `mod…` helpers into setters -/
@[simp] theorem modBus_eq (w : World) (b : BId) (f : Bus → Bus) : w.modBus b f = w.setBus b (f (w.bus b)) := rfl
@[simp] theorem modEv_eq (w : World) (e : EId) (f : Ev → Ev) : w.modEv e f = w.setEv e (f (w.ev e)) := rfl
@[simp] theorem modInst_eq (w : World) (i : IId) (f : Inst → Inst) : w.modInst i f = w.setInst i (f (w.inst i)) := rfl

theorem setBus_bus (w : World) (b b' : BId) (x : Bus) : (w.setBus b x).bus b' = if b' = b then x else w.bus b' := rfl
theorem setEv_ev (w : World) (e e' : EId) (x : Ev) : (w.setEv e x).ev e' = if e' = e then x else w.ev e' := rfl
theorem setInst_inst (w : World) (i i' : IId) (x : Inst) : (w.setInst i x).inst i' = if i' = i then x else w.inst i' := rfl
theorem setAct_act (w : World) (p p' : Proc) (x : Option Act) : (w.setAct p x).act p' = if p' = p then x else w.act p' := rfl

/-- decomposition of accepted steps -/
theorem step_some {w w' : World} {l : Label} (h : step w l = some w') : guard w l = true ∧ w' = apply w l := by
  unfold step at h
  split at h
  · exact ⟨by assumption, by injection h with h; exact h.symm⟩
  · cases h

end Bubus
