/-
  Bubus.Proofs.Account — queue accounting (C15): on every bus, the number of queued events plus the events in some
  executor's hand (taken but `task_done()` not yet called) never exceeds the queue's unfinished-task counter.
  Hence `queue.join()` — which `wait_until_idle()` awaits first — can only be released at a moment when nothing is
  queued on the bus and no event of the bus is in hand or being processed.
-/
import Bubus.Proofs.Stable
namespace Bubus

structure AInv (w : World) : Prop where
  acc : ∀ b, (w.bus b).queue.length + hand w b ≤ (w.bus b).unfinished
  rlBus : ∀ b A, w.act (.rl b) = some A → A.bus = b
  ext : w.act .ext = none
  fresh : ∀ i, w.ni ≤ i → (w.inst i).took = none ∧ w.act (.inst i) = none ∧ (w.inst i).st = .finished
  newb : ∀ b, w.nb ≤ b → (w.bus b).queue = [] ∧ (w.bus b).rl.isTook = false ∧ w.act (.rl b) = none ∧
          (∀ i, tookOn w b i = false) ∧ (∀ i, actOn w b (.inst i) = false)

/-- what the accounting invariant reads -/
def World.acct (w : World) :
    (BId → List EId × Nat × Bool) × (Proc → Option BId) × (IId → Option (BId × EId)) × Nat × Nat :=
  (fun b => acctB (w.bus b), fun p => (w.act p).map (·.bus),
   fun i => (w.inst i).took, w.ni, w.nb)

theorem acct_fields (w w' : World) (h : w'.acct = w.acct) :
    (∀ b, (w'.bus b).queue = (w.bus b).queue ∧ (w'.bus b).unfinished = (w.bus b).unfinished ∧
          (w'.bus b).rl.isTook = (w.bus b).rl.isTook) ∧
    (∀ p, (w'.act p).map (·.bus) = (w.act p).map (·.bus)) ∧
    (∀ i, (w'.inst i).took = (w.inst i).took) ∧
    w'.ni = w.ni ∧ w'.nb = w.nb := by
  unfold World.acct at h
  simp only [Prod.mk.injEq] at h
  obtain ⟨hb, ha, hi, hn, hnb⟩ := h
  refine ⟨fun b => ?_, fun p => congrFun ha p, fun i => congrFun hi i, hn, hnb⟩
  have := congrFun hb b
  simp only [acctB, Prod.mk.injEq] at this
  exact this

theorem actOn_of_map (w w' : World) (p : Proc) (h : (w'.act p).map (·.bus) = (w.act p).map (·.bus)) (b : BId) :
    actOn w' b p = actOn w b p := by
  unfold actOn
  cases h1 : w'.act p <;> cases h2 : w.act p <;> simp [h1, h2] at h ⊢
  rw [h]

theorem hand_of_acct (w w' : World) (h : w'.acct = w.acct) (b : BId) : hand w' b = hand w b := by
  obtain ⟨hb, ha, hi, hn, _⟩ := acct_fields w w' h
  unfold hand rlPart
  rw [(hb b).2.2, hn, actOn_of_map w w' _ (ha _)]
  congr 2
  apply List.map_congr_left
  intro i _
  unfold instOf tookOn
  rw [hi i, actOn_of_map w w' _ (ha _)]

theorem ainv_of_acct (w w' : World) (h : w'.acct = w.acct)
    (hst : ∀ i, w.ni ≤ i → (w'.inst i).st = (w.inst i).st) (hI : AInv w) : AInv w' := by
  obtain ⟨hb, ha, hi, hn, hnb⟩ := acct_fields w w' h
  have hsome : ∀ p, w'.act p = none ↔ w.act p = none := by
    intro p
    have := ha p
    cases h1 : w'.act p <;> cases h2 : w.act p <;> simp [h1, h2] at this ⊢
  refine ⟨?_, ?_, ?_, ?_, ?_⟩
  · intro b
    rw [hand_of_acct w w' h, (hb b).1, (hb b).2.1]; exact hI.acc b
  · intro b A hA
    have := ha (.rl b)
    cases h2 : w.act (.rl b) with
    | none => simp [hA, h2] at this
    | some A2 =>
      simp [hA, h2] at this
      rw [this]; exact hI.rlBus b A2 h2
  · exact (hsome _).mpr hI.ext
  · intro i hi'
    rw [hn] at hi'
    obtain ⟨f1, f2, f3⟩ := hI.fresh i hi'
    exact ⟨by rw [hi i]; exact f1, (hsome _).mpr f2, by rw [hst i hi']; exact f3⟩
  · intro b hb'
    rw [hnb] at hb'
    obtain ⟨n1, n2, n3, n4, n5⟩ := hI.newb b hb'
    refine ⟨by rw [(hb b).1]; exact n1, by rw [(hb b).2.2]; exact n2, (hsome _).mpr n3, ?_, ?_⟩
    · intro i; simp only [tookOn, hi i]; exact n4 i
    · intro i; rw [actOn_of_map w w' _ (ha _)]; exact n5 i

@[simp] theorem setEv_acct (w : World) (e : EId) (x : Ev) : (w.setEv e x).acct = w.acct := rfl
@[simp] theorem modEv_acct (w : World) (e : EId) (f : Ev → Ev) : (w.modEv e f).acct = w.acct := rfl
@[simp] theorem setWaiter_acct (w : World) (x : Nat) (s : WSt) : (w.setWaiter x s).acct = w.acct := rfl
@[simp] theorem setNow_acct (w : World) (t : Nat) : (w.setNow t).acct = w.acct := rfl
@[simp] theorem setNe_acct (w : World) (t : Nat) : (w.setNe t).acct = w.acct := rfl
@[simp] theorem setLock_acct (w : World) (l : Option BId) : (w.setLock l).acct = w.acct := rfl
@[simp] theorem setStack_acct (w : World) (l : List IId) : (w.setStack l).acct = w.acct := rfl
@[simp] theorem wake_acct (w : World) : (wake w).acct = w.acct := by
  unfold World.acct; simp

theorem setBus_acct (w : World) (b : BId) (x : Bus) (hq : x.queue = (w.bus b).queue)
    (hu : x.unfinished = (w.bus b).unfinished) (hr : x.rl.isTook = (w.bus b).rl.isTook) : (w.setBus b x).acct = w.acct := by
  unfold World.acct
  simp only [setBus_inst, setBus_act, setBus_ni, setBus_nb]
  congr 1
  funext b'
  by_cases hb : b' = b
  · subst hb; simp [acctB, hq, hu, hr]
  · simp [hb]

theorem modBus_acct (w : World) (b : BId) (f : Bus → Bus) (hq : (f (w.bus b)).queue = (w.bus b).queue)
    (hu : (f (w.bus b)).unfinished = (w.bus b).unfinished) (hr : (f (w.bus b)).rl.isTook = (w.bus b).rl.isTook) :
    (w.modBus b f).acct = w.acct := setBus_acct w b _ hq hu hr

theorem setInst_acct (w : World) (i : IId) (x : Inst) (h : x.took = (w.inst i).took) : (w.setInst i x).acct = w.acct := by
  unfold World.acct
  simp only [setInst_bus, setInst_act, setInst_ni, setInst_nb]
  congr 3
  funext j
  by_cases hj : j = i
  · subst hj; simp [h]
  · simp [hj]

theorem modInst_acct (w : World) (i : IId) (f : Inst → Inst) (h : (f (w.inst i)).took = (w.inst i).took) :
    (w.modInst i f).acct = w.acct := setInst_acct w i _ h

theorem setAct_acct (w : World) (p : Proc) (A A' : Act) (hA : w.act p = some A) (hb : A'.bus = A.bus) :
    (w.setAct p (some A')).acct = w.acct := by
  unfold World.acct
  simp only [setAct_bus, setAct_inst, setAct_ni, setAct_nb]
  congr 2
  funext q
  by_cases hq : q = p
  · subst hq; simp [hA, hb]
  · simp [hq]

end Bubus

namespace Bubus

/-! stages that leave the accounting view alone -/
theorem markComplete_acct (w : World) (x : EId) : (markComplete w x).acct = w.acct := by
  unfold markComplete; simp only []; repeat' split
  all_goals simp

theorem parentWalk_acct (fuel : Nat) (w : World) (x : EId) (seen : List EId) : (parentWalk w fuel x seen).acct = w.acct := by
  induction fuel generalizing w x seen with
  | zero => rfl
  | succ n ih =>
    unfold parentWalk
    split
    · rfl
    · split
      · rfl
      · split
        · rw [ih, markComplete_acct]
        · rfl

theorem cancelPendingChildren_acct (fuel : Nat) (w : World) (x : EId) : (cancelPendingChildren w fuel x).acct = w.acct := by
  induction fuel generalizing w x with
  | zero => rfl
  | succ n ih =>
    unfold cancelPendingChildren
    generalize (w.ev x).children = cs
    induction cs generalizing w with
    | nil => rfl
    | cons c cs ihc => simp only [List.foldl_cons]; rw [ihc, ih]; simp

theorem cleanup_acct (w : World) (b : BId) : (cleanup w b).acct = w.acct := by
  unfold cleanup; exact modBus_acct _ _ _ rfl rfl rfl

theorem dParent_acct (w ctx e) : (dParent w ctx e).acct = w.acct := by
  unfold dParent; split
  · split <;> simp
  · rfl

theorem dPath_acct (w b e) : (dPath w b e).acct = w.acct := by
  unfold dPath; split <;> simp

theorem dChild_acct (w ctx e) : (dChild w ctx e).acct = w.acct := by
  unfold dChild; split
  · split <;> simp
  · rfl

theorem dFwd_acct (w : World) (p : Proc) : (dFwd w p).acct = w.acct := by
  unfold dFwd
  split
  · split
    · exact modInst_acct _ _ _ rfl
    · rfl
  · rfl

theorem rlIdleCheck_acct (w b) : (rlIdleCheck w b).acct = w.acct := by
  unfold rlIdleCheck; split
  · exact modBus_acct _ _ _ rfl rfl rfl
  · rfl

macro "acct_tac" : tactic =>
  `(tactic| (repeat (first | rw [setWaiter_acct] | rw [rlIdleCheck_acct] | rw [cleanup_acct] | rw [setEv_acct]
                           | rw [modEv_acct] | rw [setNow_acct] | rw [setNe_acct] | rw [setLock_acct] | rw [setStack_acct]
                           | rw [markComplete_acct] | rw [parentWalk_acct] | rw [cancelPendingChildren_acct]
                           | rw [dParent_acct] | rw [dPath_acct] | rw [dChild_acct] | rw [dFwd_acct]
                           | rw [modBus_acct] | rw [modInst_acct])
             all_goals rfl))

end Bubus

namespace Bubus

theorem sum_update (l : List Nat) (hn : l.Nodup) (f g : Nat → Nat) (c : Nat) (hc : c ∈ l)
    (h : ∀ x, x ≠ c → g x = f x) : (l.map g).sum + f c = (l.map f).sum + g c := by
  induction l with
  | nil => cases hc
  | cons a t ih =>
    rw [List.nodup_cons] at hn
    by_cases hac : a = c
    · subst hac
      have ht : (t.map g).sum = (t.map f).sum := by
        congr 1
        apply List.map_congr_left
        intro x hx
        exact h x (fun hxa => hn.1 (hxa ▸ hx))
      simp only [List.map_cons, List.sum_cons, ht]
      omega
    · have hct : c ∈ t := by
        cases hc with
        | head => exact absurd rfl hac
        | tail _ h' => exact h'
      have := ih hn.2 hct
      simp only [List.map_cons, List.sum_cons, h a hac]
      omega

/-- only the data of one handler instance changed -/
theorem hand_inst_update (w w' : World) (i : IId) (hi : i < w.ni) (hni : w'.ni = w.ni)
    (hrl : ∀ b, rlPart w' b = rlPart w b) (hoth : ∀ b j, j ≠ i → instOf w' b j = instOf w b j) (b : BId) :
    hand w' b + instOf w b i = hand w b + instOf w' b i := by
  unfold hand
  rw [hrl, hni]
  have := sum_update (List.range w.ni) List.nodup_range (instOf w b) (instOf w' b) i (List.mem_range.mpr hi)
    (fun x hx => hoth b x hx)
  omega

/-- only the data of run loops changed -/
theorem hand_rl_update (w w' : World) (hni : w'.ni = w.ni) (hinst : ∀ b j, instOf w' b j = instOf w b j) (b : BId) :
    hand w' b + rlPart w b = hand w b + rlPart w' b := by
  unfold hand
  rw [hni]
  have : ((List.range w.ni).map (instOf w' b)).sum = ((List.range w.ni).map (instOf w b)).sum := by
    congr 1
    apply List.map_congr_left
    intro x _
    exact hinst b x
  omega

theorem lt_ni_of_not_finished (w : World) (hI : AInv w) (i : IId) (h : (w.inst i).st ≠ .finished) : i < w.ni := by
  cases Nat.lt_or_ge i w.ni with
  | inl h' => exact h'
  | inr h' => exact absurd (hI.fresh i h').2.2 h

theorem lt_ni_of_took (w : World) (hI : AInv w) (i : IId) (h : (w.inst i).took ≠ none) : i < w.ni := by
  cases Nat.lt_or_ge i w.ni with
  | inl h' => exact h'
  | inr h' => exact absurd (hI.fresh i h').1 h

theorem lt_ni_of_act (w : World) (hI : AInv w) (i : IId) (h : w.act (.inst i) ≠ none) : i < w.ni := by
  cases Nat.lt_or_ge i w.ni with
  | inl h' => exact h'
  | inr h' => exact absurd (hI.fresh i h').2.1 h

theorem ainv_take (w : World) (p : Proc) (b : BId) (e : EId) (hI : AInv w) (hg : guard w (.take p b e)) :
    AInv (apply0 w (.take p b e)) := by
  simp [guard, checks, Checks.ok] at hg
  obtain ⟨hb, hhead, hp⟩ := hg
  have hq : (w.bus b).queue.tail.length + 1 = (w.bus b).queue.length := by
    cases hqq : (w.bus b).queue with
    | nil => simp [hqq] at hhead
    | cons a t => simp
  cases p with
  | ext => simp at hp
  | rl b' =>
    simp at hp
    obtain ⟨hbb, hpoll⟩ := hp
    subst hbb
    obtain ⟨w', hw'⟩ : ∃ w', w' = apply0 w (.take (.rl b') b' e) := ⟨_, rfl⟩
    rw [← hw']
    have hbus : ∀ b'', b'' ≠ b' → w'.bus b'' = w.bus b'' := fun b'' h => by rw [hw']; simp [apply0, h]
    have hq' : (w'.bus b').queue = (w.bus b').queue.tail := by rw [hw']; simp [apply0]
    have hu' : (w'.bus b').unfinished = (w.bus b').unfinished := by rw [hw']; simp [apply0]
    have hrl' : (w'.bus b').rl = .took e := by rw [hw']; simp [apply0]
    have hact : w'.act = w.act := by rw [hw']; simp [apply0]
    have hinst : w'.inst = w.inst := by rw [hw']; simp [apply0]
    have hni : w'.ni = w.ni := by rw [hw']; simp [apply0]
    have hnb : w'.nb = w.nb := by rw [hw']; simp [apply0]
    clear hw'
    have hio : ∀ b'' j, instOf w' b'' j = instOf w b'' j := by
      intro b'' j; unfold instOf tookOn actOn; rw [hact, hinst]
    have hrlo : ∀ b'', b'' ≠ b' → rlPart w' b'' = rlPart w b'' := by
      intro b'' h; unfold rlPart actOn; rw [hact, hbus b'' h]
    have hrlb : rlPart w' b' = rlPart w b' + 1 := by
      unfold rlPart actOn; rw [hact, hrl', hpoll]; simp only [RL.isTook]; simp; omega
    refine ⟨?_, ?_, ?_, ?_, ?_⟩
    · intro b''
      have hh := hand_rl_update w w' hni hio b''
      by_cases h : b'' = b'
      · subst h
        have := hI.acc b''
        rw [hq', hu']; omega
      · rw [hbus b'' h]
        have := hI.acc b''
        rw [hrlo b'' h] at hh; omega
    · intro b'' A hA; rw [hact] at hA; exact hI.rlBus b'' A hA
    · rw [hact]; exact hI.ext
    · intro i hi; rw [hni] at hi; rw [hinst, hact]; exact hI.fresh i hi
    · intro b'' hb''
      rw [hnb] at hb''
      have hne : b'' ≠ b' := fun h => by subst h; exact absurd hb (Nat.not_lt.mpr hb'')
      obtain ⟨n1, n2, n3, n4, n5⟩ := hI.newb b'' hb''
      rw [hbus b'' hne, hact]
      exact ⟨n1, n2, n3, fun i => by simpa [tookOn, hinst] using n4 i, fun i => by simpa [actOn, hact] using n5 i⟩
  | inst i =>
    simp at hp
    obtain ⟨⟨⟨haw, hactn⟩, htn⟩, _⟩ := hp
    have hi : i < w.ni := lt_ni_of_not_finished w hI i (fun h => by rw [h] at haw; simp [isAwaiting] at haw)
    obtain ⟨w', hw'⟩ : ∃ w', w' = apply0 w (.take (.inst i) b e) := ⟨_, rfl⟩
    rw [← hw']
    have hbus : ∀ b'', b'' ≠ b → w'.bus b'' = w.bus b'' := fun b'' h => by rw [hw']; simp [apply0, h]
    have hq' : (w'.bus b).queue = (w.bus b).queue.tail := by rw [hw']; simp [apply0]
    have hu' : (w'.bus b).unfinished = (w.bus b).unfinished := by rw [hw']; simp [apply0]
    have hrl' : ∀ b'', (w'.bus b'').rl = (w.bus b'').rl := by
      intro b''; rw [hw']; by_cases h : b'' = b <;> simp [apply0, h]
    have hact : w'.act = w.act := by rw [hw']; simp [apply0]
    have hinsto : ∀ j, j ≠ i → w'.inst j = w.inst j := fun j h => by rw [hw']; simp [apply0, h]
    have htook : (w'.inst i).took = some (b, e) := by rw [hw']; simp [apply0]
    have hsti : (w'.inst i).st = (w.inst i).st := by rw [hw']; simp [apply0]
    have hni : w'.ni = w.ni := by rw [hw']; simp [apply0]
    have hnb : w'.nb = w.nb := by rw [hw']; simp [apply0]
    clear hw'
    have hrlp : ∀ b'', rlPart w' b'' = rlPart w b'' := by
      intro b''; unfold rlPart actOn; rw [hact, hrl' b'']
    have hoth : ∀ b'' j, j ≠ i → instOf w' b'' j = instOf w b'' j := by
      intro b'' j h; unfold instOf tookOn actOn; rw [hact, hinsto j h]
    have hself : ∀ b'', instOf w' b'' i = instOf w b'' i + (if b = b'' then 1 else 0) := by
      intro b''
      unfold instOf tookOn actOn
      rw [hact, htook, htn]
      by_cases h : b = b'' <;> simp [h] <;> omega
    refine ⟨?_, ?_, ?_, ?_, ?_⟩
    · intro b''
      have hh := hand_inst_update w w' i hi hni hrlp hoth b''
      rw [hself b''] at hh
      by_cases h : b'' = b
      · subst h
        have := hI.acc b''
        rw [hq', hu']; simp at hh; omega
      · rw [hbus b'' h]
        have := hI.acc b''
        have hne : ¬ b = b'' := fun h' => h h'.symm
        simp [hne] at hh; omega
    · intro b'' A hA; rw [hact] at hA; exact hI.rlBus b'' A hA
    · rw [hact]; exact hI.ext
    · intro j hj
      rw [hni] at hj
      have hji : j ≠ i := fun h => by subst h; exact absurd hi (Nat.not_lt.mpr hj)
      rw [hinsto j hji, hact]; exact hI.fresh j hj
    · intro b'' hb''
      rw [hnb] at hb''
      have hne : b'' ≠ b := fun h => by subst h; exact absurd hb (Nat.not_lt.mpr hb'')
      obtain ⟨n1, n2, n3, n4, n5⟩ := hI.newb b'' hb''
      rw [hbus b'' hne, hact]
      refine ⟨n1, n2, n3, ?_, fun j => by simpa [actOn, hact] using n5 j⟩
      intro j
      by_cases hji : j = i
      · subst hji; simp [tookOn, htook]; exact fun h => hne h.symm
      · simpa [tookOn, hinsto j hji] using n4 j

end Bubus

namespace Bubus

/-- master lemma: one bus's queue / counter / run-loop state and that run loop's activation change, nothing else -/
theorem ainv_bus_master (w w' : World) (hI : AInv w) (b0 : BId) (hb0 : b0 < w.nb)
    (hni : w'.ni = w.ni) (hnb : w'.nb = w.nb) (hinst : w'.inst = w.inst)
    (hact : ∀ p, p ≠ .rl b0 → w'.act p = w.act p)
    (hbus : ∀ b, b ≠ b0 → w'.bus b = w.bus b)
    (hrlBus : ∀ A, w'.act (.rl b0) = some A → A.bus = b0)
    (hacc : ∀ k, (w.bus b0).queue.length + (rlPart w b0 + k) ≤ (w.bus b0).unfinished →
                 (w'.bus b0).queue.length + (rlPart w' b0 + k) ≤ (w'.bus b0).unfinished) :
    AInv w' := by
  have hio : ∀ b j, instOf w' b j = instOf w b j := by
    intro b j
    have : (Proc.inst j) ≠ Proc.rl b0 := fun h => by cases h
    unfold instOf tookOn actOn; rw [hact _ this, hinst]
  have hrlo : ∀ b, b ≠ b0 → rlPart w' b = rlPart w b := by
    intro b h
    have : (Proc.rl b) ≠ Proc.rl b0 := fun h' => h (by injection h')
    unfold rlPart actOn; rw [hact _ this, hbus b h]
  refine ⟨?_, ?_, ?_, ?_, ?_⟩
  · intro b
    by_cases h : b = b0
    · subst h
      have h1 := hI.acc b
      unfold hand at h1 ⊢
      rw [hni]
      have : ((List.range w.ni).map (instOf w' b)).sum = ((List.range w.ni).map (instOf w b)).sum := by
        congr 1; apply List.map_congr_left; intro x _; exact hio b x
      rw [this]
      exact hacc _ h1
    · have hh := hand_rl_update w w' hni hio b
      rw [hrlo b h] at hh
      rw [hbus b h]
      have := hI.acc b
      omega
  · intro b A hA
    by_cases h : b = b0
    · subst h; exact hrlBus A hA
    · have : (Proc.rl b) ≠ Proc.rl b0 := fun h' => h (by injection h')
      rw [hact _ this] at hA; exact hI.rlBus b A hA
  · have : Proc.ext ≠ Proc.rl b0 := fun h => by cases h
    rw [hact _ this]; exact hI.ext
  · intro i hi
    rw [hni] at hi
    have : (Proc.inst i) ≠ Proc.rl b0 := fun h => by cases h
    rw [hinst, hact _ this]; exact hI.fresh i hi
  · intro b hb
    rw [hnb] at hb
    have hne : b ≠ b0 := fun h => by subst h; exact absurd hb0 (Nat.not_lt.mpr hb)
    have hp : (Proc.rl b) ≠ Proc.rl b0 := fun h' => hne (by injection h')
    obtain ⟨n1, n2, n3, n4, n5⟩ := hI.newb b hb
    rw [hbus b hne, hact _ hp]
    refine ⟨n1, n2, n3, fun i => ?_, fun i => ?_⟩
    · unfold tookOn; rw [hinst]; exact n4 i
    · have : (Proc.inst i) ≠ Proc.rl b0 := fun h => by cases h
      unfold actOn; rw [hact _ this]; exact n5 i

theorem instOf_zero_of_new (w : World) (hI : AInv w) (b : BId) (hb : w.nb ≤ b) (i : IId) : instOf w b i = 0 := by
  obtain ⟨_, _, _, n4, n5⟩ := hI.newb b hb
  unfold instOf; rw [n4 i, n5 i]; rfl

/-- master lemma: one handler instance's in-hand data (event taken / inline activation) and one bus's queue / counter change -/
theorem ainv_inst_master (w w' : World) (hI : AInv w) (i : IId) (hi : i < w.ni) (b0 : BId) (hb0 : b0 < w.nb)
    (hni : w'.ni = w.ni) (hnb : w'.nb = w.nb)
    (hinst : ∀ j, j ≠ i → w'.inst j = w.inst j)
    (hact : ∀ p, p ≠ .inst i → w'.act p = w.act p)
    (hbus : ∀ b, b ≠ b0 → w'.bus b = w.bus b) (hrl : (w'.bus b0).rl.isTook = (w.bus b0).rl.isTook)
    (hoth : ∀ b, b ≠ b0 → instOf w' b i ≤ instOf w b i)
    (hacc : ∀ k, (w.bus b0).queue.length + (instOf w b0 i + k) ≤ (w.bus b0).unfinished →
                 (w'.bus b0).queue.length + (instOf w' b0 i + k) ≤ (w'.bus b0).unfinished) :
    AInv w' := by
  have hrlp : ∀ b, rlPart w' b = rlPart w b := by
    intro b
    have : (Proc.rl b) ≠ Proc.inst i := fun h => by cases h
    unfold rlPart actOn
    rw [hact _ this]
    by_cases h : b = b0
    · subst h; rw [hrl]
    · rw [hbus b h]
  have hothj : ∀ b j, j ≠ i → instOf w' b j = instOf w b j := by
    intro b j h
    have : (Proc.inst j) ≠ Proc.inst i := fun h' => h (by injection h')
    unfold instOf tookOn actOn; rw [hact _ this, hinst j h]
  refine ⟨?_, ?_, ?_, ?_, ?_⟩
  · intro b
    have hh := hand_inst_update w w' i hi hni hrlp hothj b
    have h1 := hI.acc b
    by_cases h : b = b0
    · subst h
      have := hacc (hand w b - instOf w b i)
      have hge : instOf w b i ≤ hand w b := by
        unfold hand
        have := sum_update (List.range w.ni) List.nodup_range (instOf w b) (fun _ => 0) i (List.mem_range.mpr hi)
        have hle : ∀ (l : List Nat) (f : Nat → Nat) (c : Nat), c ∈ l → f c ≤ (l.map f).sum := by
          intro l f c hc
          induction l with
          | nil => cases hc
          | cons a t ih =>
            simp only [List.map_cons, List.sum_cons]
            cases hc with
            | head => omega
            | tail _ h' => have := ih h'; omega
        have := hle (List.range w.ni) (instOf w b) i (List.mem_range.mpr hi)
        omega
      omega
    · rw [hbus b h]
      have := hoth b h
      omega
  · intro b A hA
    have : (Proc.rl b) ≠ Proc.inst i := fun h => by cases h
    rw [hact _ this] at hA; exact hI.rlBus b A hA
  · have : Proc.ext ≠ Proc.inst i := fun h => by cases h
    rw [hact _ this]; exact hI.ext
  · intro j hj
    rw [hni] at hj
    have hji : j ≠ i := fun h => by subst h; exact absurd hi (Nat.not_lt.mpr hj)
    have : (Proc.inst j) ≠ Proc.inst i := fun h' => hji (by injection h')
    rw [hinst j hji, hact _ this]; exact hI.fresh j hj
  · intro b hb
    rw [hnb] at hb
    have hne : b ≠ b0 := fun h => by subst h; exact absurd hb0 (Nat.not_lt.mpr hb)
    have hp : (Proc.rl b) ≠ Proc.inst i := fun h => by cases h
    obtain ⟨n1, n2, n3, n4, n5⟩ := hI.newb b hb
    rw [hbus b hne, hact _ hp]
    have hz : instOf w' b i = 0 := by
      have := hoth b hne
      rw [instOf_zero_of_new w hI b hb i] at this
      omega
    have hz' : tookOn w' b i = false ∧ actOn w' b (.inst i) = false := by
      unfold instOf at hz
      cases h1 : tookOn w' b i <;> cases h2 : actOn w' b (.inst i) <;> simp [h1, h2] at hz ⊢
    refine ⟨n1, n2, n3, fun j => ?_, fun j => ?_⟩
    · by_cases hji : j = i
      · subst hji; exact hz'.1
      · unfold tookOn; rw [hinst j hji]; exact n4 j
    · by_cases hji : j = i
      · subst hji; exact hz'.2
      · have : (Proc.inst j) ≠ Proc.inst i := fun h' => hji (by injection h')
        unfold actOn; rw [hact _ this]; exact n5 j

end Bubus

namespace Bubus

theorem modInst_st_fresh (w : World) (i : IId) (f : Inst → Inst) (hi : i < w.ni) (j : IId) (hj : w.ni ≤ j) :
    ((w.modInst i f).inst j).st = (w.inst j).st := by
  have : j ≠ i := fun h => by subst h; exact absurd hi (Nat.not_lt.mpr hj)
  simp [World.modInst, this]

/-- labels that leave the accounting view alone -/
theorem apply0_acct_easy (w : World) (l : Label) (hg : guard w l) :
    (match l with
     | .newBus .. | .dispatch .. | .take .. | .peBegin .. | .peRecTrip .. | .hSched .. | .peEnd .. | .peAbort ..
     | .rlCreate .. | .rlExit .. | .rlCancelled .. | .rlDropExit .. | .hFinish .. => True
     | _ => (apply0 w l).acct = w.acct ∧ ∀ j, w.ni ≤ j → ((apply0 w l).inst j).st = (w.inst j).st) := by
  cases l
  all_goals (first | trivial | skip)
  case on b key k kind => simp only [apply0]; exact ⟨by acct_tac, fun _ _ => rfl⟩
  case off b key k => simp only [apply0]; exact ⟨by acct_tac, fun _ _ => rfl⟩
  case newEvent e ty parent to => simp only [apply0]; exact ⟨by acct_tac, fun _ _ => rfl⟩
  case tick t => simp only [apply0]; exact ⟨by acct_tac, fun _ _ => rfl⟩
  case hStart i =>
    simp [guard, checks, Checks.ok] at hg
    simp only [apply0]
    exact ⟨modInst_acct _ _ _ rfl, modInst_st_fresh w i _ hg.1⟩
  case hCancel i =>
    simp [guard, checks, Checks.ok] at hg
    simp only [apply0]
    exact ⟨modInst_acct _ _ _ rfl, modInst_st_fresh w i _ hg.1⟩
  case hEnd i out =>
    simp [guard, checks, Checks.ok] at hg
    have h1 : (w.modInst i fun I => { I with st := .ended, out := out }).acct = w.acct := modInst_acct _ _ _ rfl
    have h2 := modInst_st_fresh w i (fun I => { I with st := .ended, out := out }) hg.1
    simp only [apply0]
    split
    · split
      · split
        · exact ⟨by rw [setWaiter_acct]; exact h1, h2⟩
        · exact ⟨h1, h2⟩
      · exact ⟨h1, h2⟩
    · exact ⟨h1, h2⟩
  case walWrite p b e ok =>
    simp only [apply0]
    have h1 : (match w.act p with | some A => w.setAct p (some { A with walDone := true }) | none => w).acct = w.acct := by
      cases hA : w.act p with
      | none => rfl
      | some A => exact setAct_acct w p A _ hA rfl
    have h2 : ∀ j, (match w.act p with | some A => w.setAct p (some { A with walDone := true }) | none => w).inst j = w.inst j := by
      intro j; cases hA : w.act p <;> rfl
    split
    · exact ⟨by rw [modBus_acct _ _ _ rfl rfl rfl]; exact h1, fun j _ => congrArg Inst.st (h2 j)⟩
    · exact ⟨h1, fun j _ => congrArg Inst.st (h2 j)⟩
  case awaitBegin i c =>
    simp [guard, checks, Checks.ok] at hg
    simp only [apply0]
    exact ⟨modInst_acct _ _ _ rfl, modInst_st_fresh w i _ hg.1⟩
  case pollYield i =>
    simp [guard, checks, Checks.ok] at hg
    simp only [apply0]
    exact ⟨modInst_acct _ _ _ rfl, modInst_st_fresh w i _ hg.1⟩
  case awaitEnd i c =>
    simp [guard, checks, Checks.ok] at hg
    simp only [apply0]
    exact ⟨modInst_acct _ _ _ rfl, modInst_st_fresh w i _ hg.1⟩
  case xAwaitEnd => exact ⟨rfl, fun _ _ => rfl⟩
  case readBus => exact ⟨rfl, fun _ _ => rfl⟩
  case rlWake b => simp only [apply0]; exact ⟨by acct_tac, fun _ _ => rfl⟩
  case rlPoll b => simp only [apply0]; exact ⟨by acct_tac, fun _ _ => by simp [rlIdleCheck]; split <;> rfl⟩
  case wiBegin x b => simp only [apply0]; exact ⟨by acct_tac, fun _ _ => rfl⟩
  case wiJoined x => simp only [apply0]; split <;> exact ⟨by acct_tac, fun _ _ => rfl⟩
  case wiIdle x => simp only [apply0]; split <;> exact ⟨by acct_tac, fun _ _ => rfl⟩
  case wiRecheck x => simp only [apply0]; split <;> exact ⟨by acct_tac, fun _ _ => rfl⟩
  case wiEnd x => simp only [apply0]; exact ⟨by acct_tac, fun _ _ => rfl⟩
  case wiCancel x => simp only [apply0]; exact ⟨by acct_tac, fun _ _ => rfl⟩
  case stopBegin x b clear => simp only [apply0]; exact ⟨by acct_tac, fun _ _ => rfl⟩
  case stopNoop => exact ⟨rfl, fun _ _ => rfl⟩
  case stopEnd x =>
    simp only [apply0]; split
    · split <;> exact ⟨by acct_tac, fun _ _ => rfl⟩
    · exact ⟨rfl, fun _ _ => rfl⟩
  case cancelRl b => simp only [apply0]; exact ⟨by acct_tac, fun _ _ => rfl⟩
  case expectBegin x b key k pred to => simp only [apply0]; exact ⟨by acct_tac, fun _ _ => rfl⟩
  case expectEnd x got => simp only [apply0]; split <;> exact ⟨by acct_tac, fun _ _ => rfl⟩
  case expectCancel x => simp only [apply0]; split <;> exact ⟨by acct_tac, fun _ _ => rfl⟩
  case expectTimeout x => simp only [apply0]; split <;> exact ⟨by acct_tac, fun _ _ => rfl⟩
  case expectCancelReq x => simp only [apply0]; split <;> exact ⟨by acct_tac, fun _ _ => rfl⟩
  case hSkip p_ b_ e_ k_ =>
    simp only [apply0]
    cases hA : w.act p_ with
    | none => exact ⟨rfl, fun _ _ => rfl⟩
    | some A => exact ⟨setAct_acct w p_ A _ hA rfl, fun _ _ => rfl⟩

end Bubus

namespace Bubus

theorem acct_congr_setAct (w1 w2 : World) (p : Proc) (x : Option Act) (h : w1.acct = w2.acct) :
    (w1.setAct p x).acct = (w2.setAct p x).acct := by
  unfold World.acct at h ⊢
  simp only [Prod.mk.injEq] at h
  obtain ⟨hb, ha, hi, hn, hnb⟩ := h
  simp only [setAct_bus, setAct_inst, setAct_ni, setAct_nb, hb, hi, hn, hnb]
  congr 2
  funext q
  by_cases hq : q = p
  · subst hq; simp
  · simp [hq]; exact congrFun ha q

theorem acct_congr_modBus (w1 w2 : World) (b : BId) (f : Bus → Bus) (h : w1.acct = w2.acct)
    (hf : ∀ B1 B2, acctB B1 = acctB B2 → acctB (f B1) = acctB (f B2)) :
    (w1.modBus b f).acct = (w2.modBus b f).acct := by
  unfold World.acct at h ⊢
  simp only [Prod.mk.injEq] at h
  obtain ⟨hb, ha, hi, hn, hnb⟩ := h
  simp only [modBus_eq, setBus_act, setBus_inst, setBus_ni, setBus_nb, ha, hi, hn, hnb]
  congr 1
  funext b'
  by_cases hb' : b' = b
  · subst hb'; simp; exact hf _ _ (congrFun hb b')
  · simp [hb']; exact congrFun hb b'

theorem acct_congr_setLock (w1 w2 : World) (l : Option BId) (h : w1.acct = w2.acct) :
    (w1.setLock l).acct = (w2.setLock l).acct := by rw [setLock_acct, setLock_acct]; exact h

/-- `hFinish` keeps the accounting view -/
theorem applyFinish_acct (w : World) (i : IId) (r : Fin) : (applyFinish w i r).acct = w.acct := by
  unfold applyFinish
  simp only []
  have h2 : ((w.modEv (w.inst i).ev fun E => E.updRes (w.inst i).bus (w.inst i).hid fun x =>
      { x with status := r.status, err := r.err }).setInst i { w.inst i with st := .finished }).acct = w.acct := by
    exact (setInst_acct (w.modEv _ _) i { w.inst i with st := .finished } rfl).trans (modEv_acct _ _ _)
  cases hA : w.act (w.inst i).exec with
  | none =>
    simp only []
    split
    · rw [cancelPendingChildren_acct, setStack_acct]; exact h2
    · rw [setStack_acct]; exact h2
  | some A =>
    simp only []
    have h3 : (((w.modEv (w.inst i).ev fun E => E.updRes (w.inst i).bus (w.inst i).hid fun x =>
        { x with status := r.status, err := r.err }).setInst i { w.inst i with st := .finished }).setAct (w.inst i).exec
          (some { A with running := A.running.erase i })).acct = w.acct := by
      exact (setAct_acct _ _ A { A with running := A.running.erase i } (by simpa using hA) rfl).trans h2
    split
    · rw [cancelPendingChildren_acct, setStack_acct]; exact h3
    · rw [setStack_acct]; exact h3

theorem applyFinish_st_fresh (w : World) (i : IId) (r : Fin) (hi : i < w.ni) (j : IId) (hj : w.ni ≤ j) :
    ((applyFinish w i r).inst j).st = (w.inst j).st := by
  have hji : j ≠ i := fun h => by subst h; exact absurd hi (Nat.not_lt.mpr hj)
  unfold applyFinish
  simp only []
  cases hA : w.act (w.inst i).exec <;> simp only [] <;> split <;> simp [cancelPendingChildren_inst, hji]

theorem applyDispatch_st (w : World) (p : Proc) (b : BId) (e : EId) (res : DRes) (j : IId) :
    ((applyDispatch w p b e res).inst j).st = (w.inst j).st := by
  have h1 : ((dFwd (dPath (dParent w (ctxOf w p) e) b e) p).inst j).st = (w.inst j).st := by
    unfold dFwd
    split
    · split
      · simp only [modInst_eq, setInst_inst]
        split
        · rename_i hj; subst hj; simp [dPath_inst, dParent_inst]
        · simp [dPath_inst, dParent_inst]
      · simp [dPath_inst, dParent_inst]
    · simp [dPath_inst, dParent_inst]
  unfold applyDispatch
  cases res <;> simp only [] <;> try exact h1
  rw [cleanup_inst, dChild_inst, dEnqueue_inst]; exact h1

theorem ainv_dispatch (w : World) (p : Proc) (b : BId) (e : EId) (res : DRes) (hI : AInv w)
    (hg : guard w (.dispatch p b e res)) : AInv (apply0 w (.dispatch p b e res)) := by
  simp [guard, checks, Checks.ok] at hg
  have hb : b < w.nb := hg.1
  show AInv (applyDispatch w p b e res)
  have h1 : (dFwd (dPath (dParent w (ctxOf w p) e) b e) p).acct = w.acct := by
    rw [dFwd_acct, dPath_acct, dParent_acct]
  cases res
  case ok =>
    -- the accounting view of the result is that of `w` with the event appended to the queue and the counter incremented
    let fenq : Bus → Bus := fun B =>
      { B with queue := B.queue ++ [e], enq := B.enq ++ [e],
               hist := if B.hist.contains e then B.hist else B.hist ++ [e], unfinished := B.unfinished + 1 }
    have hacct : (applyDispatch w p b e .ok).acct = (w.modBus b fenq).acct := by
      unfold applyDispatch
      simp only []
      rw [cleanup_acct, dChild_acct]
      unfold dEnqueue
      exact acct_congr_modBus _ _ b fenq h1 (by
        intro B1 B2 h
        simp only [acctB, Prod.mk.injEq, fenq] at h ⊢
        obtain ⟨h1, h2, h3⟩ := h
        exact ⟨by rw [h1], by rw [h2], h3⟩)
    have hW : AInv (w.modBus b fenq) := by
      apply ainv_bus_master w (w.modBus b fenq) hI b hb rfl rfl rfl (fun _ _ => rfl) (fun b' h => by simp [h])
      · intro A hA; exact hI.rlBus b A hA
      · intro k hk
        have hr : rlPart (w.modBus b fenq) b = rlPart w b := by
          unfold rlPart actOn; simp [fenq]
        rw [hr]
        simp [fenq]
        omega
    exact ainv_of_acct _ _ hacct (fun j _ => by rw [applyDispatch_st]; simp) hW
  all_goals
    exact ainv_of_acct _ _ (by unfold applyDispatch; exact h1) (fun j _ => applyDispatch_st w p b e _ j) hI

end Bubus

namespace Bubus

theorem lt_nb_of_tookOn (w : World) (hI : AInv w) (b : BId) (i : IId) (h : tookOn w b i = true) : b < w.nb := by
  cases Nat.lt_or_ge b w.nb with
  | inl h' => exact h'
  | inr h' => have := (hI.newb b h').2.2.2.1 i; rw [h] at this; cases this

theorem lt_nb_of_actOn_inst (w : World) (hI : AInv w) (b : BId) (i : IId) (h : actOn w b (.inst i) = true) : b < w.nb := by
  cases Nat.lt_or_ge b w.nb with
  | inl h' => exact h'
  | inr h' => have := (hI.newb b h').2.2.2.2 i; rw [h] at this; cases this

theorem lt_nb_of_act_rl (w : World) (hI : AInv w) (b : BId) (h : w.act (.rl b) ≠ none) : b < w.nb := by
  cases Nat.lt_or_ge b w.nb with
  | inl h' => exact h'
  | inr h' => exact absurd (hI.newb b h').2.2.1 h

theorem lt_nb_of_isTook (w : World) (hI : AInv w) (b : BId) (h : (w.bus b).rl.isTook = true) : b < w.nb := by
  cases Nat.lt_or_ge b w.nb with
  | inl h' => exact h'
  | inr h' => have := (hI.newb b h').2.1; rw [h] at this; cases this

theorem peOpen_acct (w : World) (p : Proc) (b : BId) (e : EId) :
    (peOpen w p b e).acct = (w.setAct p (some { bus := b, ev := e, todo := applicable w b e, running := [], sel := applicable w b e })).acct := by
  unfold peOpen; simp only []; split
  · rw [markComplete_acct]; rfl
  · rfl

theorem peClose_acct (w : World) (p : Proc) (b : BId) (e : EId) :
    (peClose w p b e).acct = ((w.setAct p none).modBus b fun B => { B with unfinished := B.unfinished - 1 }).acct := by
  unfold peClose
  simp only []
  apply acct_congr_modBus
  · apply acct_congr_setAct
    rw [cleanup_acct, parentWalk_acct, markComplete_acct]
  · intro B1 B2 h
    simp only [acctB, Prod.mk.injEq] at h ⊢
    obtain ⟨h1, h2, h3⟩ := h
    exact ⟨h1, by rw [h2], h3⟩

theorem ainv_peBegin (w : World) (p : Proc) (b : BId) (e : EId) (hI : AInv w) (hg : guard w (.peBegin p b e)) :
    AInv (apply0 w (.peBegin p b e)) := by
  simp [guard, checks, Checks.ok] at hg
  obtain ⟨hactn, hp, _⟩ := hg
  show AInv (peOpen (peEnter w p b) p b e)
  cases p with
  | ext => simp at hp
  | rl b' =>
    simp at hp
    obtain ⟨⟨⟨hbb, htk⟩, _⟩, _⟩ := hp
    subst hbb
    have hit : (w.bus b').rl.isTook = true := by rw [htk]; rfl
    have hb : b' < w.nb := lt_nb_of_isTook w hI b' hit
    obtain ⟨W, hW⟩ : ∃ W, W = (peEnter w (.rl b') b').setAct (.rl b')
        (some { bus := b', ev := e, todo := applicable (peEnter w (.rl b') b') b' e, running := [], sel := applicable (peEnter w (.rl b') b') b' e }) := ⟨_, rfl⟩
    have hacct : (peOpen (peEnter w (.rl b') b') (.rl b') b' e).acct = W.acct := by rw [hW]; exact peOpen_acct _ _ _ _
    have hWI : AInv W := by
      apply ainv_bus_master w W hI b' hb (by rw [hW]; rfl) (by rw [hW]; rfl) (by rw [hW]; simp [peEnter])
      · intro q hq; rw [hW]; simp [peEnter, hq]
      · intro b'' h; rw [hW]; simp [peEnter, h]
      · intro A hA; rw [hW] at hA; simp at hA; rw [← hA]
      · intro k hk
        have h1 : rlPart w b' = 1 := by unfold rlPart actOn; rw [hit, hactn]; rfl
        have h2 : rlPart W b' = 1 := by rw [hW]; simp [rlPart, actOn, peEnter, RL.isTook]
        have h3 : (W.bus b').queue = (w.bus b').queue := by rw [hW]; simp [peEnter]
        have h4 : (W.bus b').unfinished = (w.bus b').unfinished := by rw [hW]; simp [peEnter]
        rw [h2, h3, h4]; rw [h1] at hk; exact hk
    refine ainv_of_acct W _ hacct (fun j _ => ?_) hWI
    rw [peOpen_inst, hW]; simp [peEnter]
  | inst i =>
    simp at hp
    have htk : tookOn w b i = true := by simp [tookOn, hp]
    have hi : i < w.ni := lt_ni_of_took w hI i (by rw [hp]; simp)
    have hb : b < w.nb := lt_nb_of_tookOn w hI b i htk
    obtain ⟨W, hW⟩ : ∃ W, W = (peEnter w (.inst i) b).setAct (.inst i)
        (some { bus := b, ev := e, todo := applicable (peEnter w (.inst i) b) b e, running := [], sel := applicable (peEnter w (.inst i) b) b e }) := ⟨_, rfl⟩
    have hacct : (peOpen (peEnter w (.inst i) b) (.inst i) b e).acct = W.acct := by rw [hW]; exact peOpen_acct _ _ _ _
    have hWI : AInv W := by
      apply ainv_inst_master w W hI i hi b hb (by rw [hW]; rfl) (by rw [hW]; rfl)
      · intro j hj; rw [hW]; simp [peEnter, hj]
      · intro q hq; rw [hW]; simp [peEnter, hq]
      · intro b'' _; rw [hW]; simp [peEnter]
      · rw [hW]; simp [peEnter]
      · intro b'' hne
        have : instOf W b'' i = 0 := by
          rw [hW]; simp [instOf, tookOn, actOn, peEnter]; exact fun h => hne h.symm
        omega
      · intro k hk
        have h1 : instOf w b i = 1 := by unfold instOf; rw [htk]; simp [actOn, hactn]
        have h2 : instOf W b i = 1 := by rw [hW]; simp [instOf, tookOn, actOn, peEnter]
        have h3 : (W.bus b).queue = (w.bus b).queue := by rw [hW]; simp [peEnter]
        have h4 : (W.bus b).unfinished = (w.bus b).unfinished := by rw [hW]; simp [peEnter]
        rw [h2, h3, h4]; rw [h1] at hk; exact hk
    refine ainv_of_acct W _ hacct (fun j hj => ?_) hWI
    have hni : W.ni = w.ni := by rw [hW]; rfl
    rw [hni] at hj
    have hji : j ≠ i := fun h => by subst h; exact absurd hi (Nat.not_lt.mpr hj)
    rw [peOpen_inst, hW]; simp [peEnter, hji]

end Bubus

namespace Bubus

theorem ainv_peRecTrip (w : World) (p : Proc) (b : BId) (e : EId) (hI : AInv w) (hg : guard w (.peRecTrip p b e)) :
    AInv (apply0 w (.peRecTrip p b e)) := by
  simp [guard, checks, Checks.ok] at hg
  obtain ⟨hactn, hp, _⟩ := hg
  cases p with
  | ext => simp at hp
  | rl b' =>
    simp at hp
    obtain ⟨⟨⟨hbb, htk⟩, _⟩, _⟩ := hp
    subst hbb
    have hit : (w.bus b').rl.isTook = true := by rw [htk]; rfl
    have hb : b' < w.nb := lt_nb_of_isTook w hI b' hit
    show AInv (rlBack w b')
    apply ainv_bus_master w (rlBack w b') hI b' hb rfl rfl rfl
    · intro q _; rfl
    · intro b'' h; simp [rlBack, h]
    · intro A hA; exact hI.rlBus b' A hA
    · intro k hk
      have h1 : rlPart w b' = 1 := by unfold rlPart actOn; rw [hit, hactn]; rfl
      have h2 : rlPart (rlBack w b') b' = 0 := by
        unfold rlPart actOn
        have : (rlBack w b').act = w.act := rfl
        rw [this, hactn]
        simp [rlBack]
        split <;> rfl
      have h3 : ((rlBack w b').bus b').queue = (w.bus b').queue := by simp [rlBack]
      have h4 : ((rlBack w b').bus b').unfinished = (w.bus b').unfinished := by simp [rlBack]
      rw [h2, h3, h4]; rw [h1] at hk; omega
  | inst i =>
    simp at hp
    have htk : tookOn w b i = true := by simp [tookOn, hp]
    have hi : i < w.ni := lt_ni_of_took w hI i (by rw [hp]; simp)
    have hb : b < w.nb := lt_nb_of_tookOn w hI b i htk
    simp only [apply0]
    obtain ⟨W, hW⟩ : ∃ W, W = w.modInst i fun I => { I with took := none, st := .running } := ⟨_, rfl⟩
    rw [← hW]
    have hz : ∀ b'', instOf W b'' i = 0 := by
      intro b''; rw [hW]; simp [instOf, tookOn, actOn, hactn]
    apply ainv_inst_master w W hI i hi b hb (by rw [hW]; rfl) (by rw [hW]; rfl)
    · intro j hj; rw [hW]; simp [hj]
    · intro q _; rw [hW]; rfl
    · intro b'' _; rw [hW]; rfl
    · rw [hW]; rfl
    · intro b'' _; rw [hz]; omega
    · intro k hk
      have h3 : (W.bus b) = (w.bus b) := by rw [hW]; rfl
      rw [hz, h3]; omega

theorem ainv_peEnd (w : World) (p : Proc) (b : BId) (e : EId) (hI : AInv w) (hg : guard w (.peEnd p b e)) :
    AInv (apply0 w (.peEnd p b e)) := by
  simp [guard, checks, Checks.ok] at hg
  obtain ⟨hactIs, _⟩ := hg
  cases hA : w.act p with
  | none => simp [actIs, hA] at hactIs
  | some A =>
    simp [actIs, hA] at hactIs
    obtain ⟨hAb, _⟩ := hactIs
    cases p with
    | ext => rw [hI.ext] at hA; cases hA
    | rl b' =>
      have hbb : b = b' := by rw [← hAb]; exact hI.rlBus b' A hA
      subst hbb
      have hb : b < w.nb := lt_nb_of_act_rl w hI b (by rw [hA]; simp)
      have hon : actOn w b (.rl b) = true := by simp [actOn, hA, hAb]
      let fdec : Bus → Bus := fun B => { B with unfinished := B.unfinished - 1 }
      let fback : Bus → Bus := fun B => { B with rl := if B.running then .polling else .exited }
      obtain ⟨W, hW⟩ : ∃ W, W = ((w.setAct (.rl b) none).modBus b fdec).modBus b fback := ⟨_, rfl⟩
      have hacct : (apply0 w (.peEnd (.rl b) b e)).acct = W.acct := by
        simp only [apply0, releaseRl, rlBack]
        rw [rlIdleCheck_acct, setLock_acct, hW]
        apply acct_congr_modBus _ _ b fback (peClose_acct w _ b e)
        intro B1 B2 h
        simp only [acctB, Prod.mk.injEq, fback] at h ⊢
        obtain ⟨h1, h2, _⟩ := h
        have hnt : ∀ r : Bool, (if r = true then RL.polling else RL.exited).isTook = false := by
          intro r; cases r <;> rfl
        exact ⟨h1, h2, by rw [hnt, hnt]⟩
      have hWI : AInv W := by
        apply ainv_bus_master w W hI b hb (by rw [hW]; rfl) (by rw [hW]; rfl) (by rw [hW]; rfl)
        · intro q hq; rw [hW]; simp [hq]
        · intro b'' h; rw [hW]; simp [h]
        · intro A' hA'; rw [hW] at hA'; simp at hA'
        · intro k hk
          have h1 : 1 ≤ rlPart w b := by unfold rlPart; rw [hon]; simp
          have hnt : ∀ r : Bool, (if r = true then RL.polling else RL.exited).isTook = false := by
            intro r; cases r <;> rfl
          have h2 : rlPart W b = 0 := by
            rw [hW]; simp [rlPart, actOn, fback, fdec, hnt]
          have h3 : (W.bus b).queue = (w.bus b).queue := by rw [hW]; simp [fback, fdec]
          have h4 : (W.bus b).unfinished = (w.bus b).unfinished - 1 := by rw [hW]; simp [fback, fdec]
          rw [h2, h3, h4]; omega
      refine ainv_of_acct W _ hacct (fun j _ => ?_) hWI
      simp only [apply0]
      rw [releaseRl_inst, peClose_inst, hW]; rfl
    | inst i =>
      have hi : i < w.ni := lt_ni_of_act w hI i (by rw [hA]; simp)
      have hon : actOn w b (.inst i) = true := by simp [actOn, hA, hAb]
      have hb : b < w.nb := lt_nb_of_actOn_inst w hI b i hon
      let fdec : Bus → Bus := fun B => { B with unfinished := B.unfinished - 1 }
      obtain ⟨W, hW⟩ : ∃ W, W = (w.setAct (.inst i) none).modBus b fdec := ⟨_, rfl⟩
      have hacct : (apply0 w (.peEnd (.inst i) b e)).acct = W.acct := by
        simp only [apply0]; rw [hW]; exact peClose_acct w _ b e
      have hWI : AInv W := by
        apply ainv_inst_master w W hI i hi b hb (by rw [hW]; rfl) (by rw [hW]; rfl)
        · intro j _; rw [hW]; rfl
        · intro q hq; rw [hW]; simp [hq]
        · intro b'' h; rw [hW]; simp [h]
        · rw [hW]; simp [fdec]
        · intro b'' _
          have hti : tookOn W b'' i = tookOn w b'' i := by rw [hW]; rfl
          have hai : actOn W b'' (.inst i) = false := by rw [hW]; simp [actOn]
          unfold instOf; rw [hti, hai]; simp
        · intro k hk
          have h1 : instOf W b i + 1 = instOf w b i := by
            have hti : tookOn W b i = tookOn w b i := by rw [hW]; rfl
            have hai : actOn W b (.inst i) = false := by rw [hW]; simp [actOn]
            unfold instOf; rw [hti, hai, hon]; simp
          have h3 : (W.bus b).queue = (w.bus b).queue := by rw [hW]; simp [fdec]
          have h4 : (W.bus b).unfinished = (w.bus b).unfinished - 1 := by rw [hW]; simp [fdec]
          rw [h3, h4]; omega
      refine ainv_of_acct W _ hacct (fun j _ => ?_) hWI
      simp only [apply0]
      rw [peClose_inst, hW]; rfl

end Bubus

namespace Bubus

theorem isTook_back (r : Bool) : (if r = true then RL.polling else RL.exited).isTook = false := by cases r <;> rfl

theorem ainv_peAbort (w : World) (p : Proc) (b : BId) (e : EId) (hI : AInv w) (hg : guard w (.peAbort p b e)) :
    AInv (apply0 w (.peAbort p b e)) := by
  simp [guard, checks, Checks.ok] at hg
  obtain ⟨hactIs, _⟩ := hg
  cases hA : w.act p with
  | none => simp [actIs, hA] at hactIs
  | some A =>
    simp [actIs, hA] at hactIs
    obtain ⟨hAb, _⟩ := hactIs
    cases p with
    | ext => rw [hI.ext] at hA; cases hA
    | rl b' =>
      have hbb : b = b' := by rw [← hAb]; exact hI.rlBus b' A hA
      subst hbb
      have hb : b < w.nb := lt_nb_of_act_rl w hI b (by rw [hA]; simp)
      have hon : actOn w b (.rl b) = true := by simp [actOn, hA, hAb]
      simp only [apply0]
      obtain ⟨W, hW⟩ : ∃ W, W = ((w.setAct (.rl b) none).modBus b fun B =>
          { B with rl := .exited, running := false, cancelReq := false }).setLock none := ⟨_, rfl⟩
      rw [← hW]
      apply ainv_bus_master w W hI b hb (by rw [hW]; rfl) (by rw [hW]; rfl) (by rw [hW]; rfl)
      · intro q hq; rw [hW]; simp [hq]
      · intro b'' h; rw [hW]; simp [h]
      · intro A' hA'; rw [hW] at hA'; simp at hA'
      · intro k hk
        have h1 : 1 ≤ rlPart w b := by unfold rlPart; rw [hon]; simp
        have h2 : rlPart W b = 0 := by rw [hW]; simp [rlPart, actOn, RL.isTook]
        have h3 : (W.bus b).queue = (w.bus b).queue := by rw [hW]; simp
        have h4 : (W.bus b).unfinished = (w.bus b).unfinished := by rw [hW]; simp
        rw [h2, h3, h4]; omega
    | inst i =>
      have hi : i < w.ni := lt_ni_of_act w hI i (by rw [hA]; simp)
      have hon : actOn w b (.inst i) = true := by simp [actOn, hA, hAb]
      have hb : b < w.nb := lt_nb_of_actOn_inst w hI b i hon
      simp only [apply0]
      obtain ⟨W, hW⟩ : ∃ W, W = w.setAct (.inst i) none := ⟨_, rfl⟩
      rw [← hW]
      have hti : ∀ b'', tookOn W b'' i = tookOn w b'' i := by intro b''; rw [hW]; rfl
      have hai : ∀ b'', actOn W b'' (.inst i) = false := by intro b''; rw [hW]; simp [actOn]
      apply ainv_inst_master w W hI i hi b hb (by rw [hW]; rfl) (by rw [hW]; rfl)
      · intro j _; rw [hW]; rfl
      · intro q hq; rw [hW]; simp [hq]
      · intro b'' _; rw [hW]; rfl
      · rw [hW]; rfl
      · intro b'' _; unfold instOf; rw [hti, hai]; simp
      · intro k hk
        have h1 : instOf W b i ≤ instOf w b i := by unfold instOf; rw [hti, hai]; simp
        have h3 : W.bus b = w.bus b := by rw [hW]; rfl
        rw [h3]; omega

/-- a run loop that leaves its loop with an event in hand (or none) — only the run-loop state of one bus changes, towards "not took" -/
theorem ainv_rl_leave (w : World) (hI : AInv w) (b : BId) (f : Bus → Bus)
    (hq : ∀ B, (f B).queue = B.queue) (hu : ∀ B, (f B).unfinished = B.unfinished) (hr : ∀ B, (f B).rl.isTook = false) :
    AInv (w.modBus b f) := by
  cases hit : (w.bus b).rl.isTook with
  | false =>
    exact ainv_of_acct w _ (modBus_acct w b f (hq _) (hu _) (by rw [hr, hit])) (fun _ _ => rfl) hI
  | true =>
    have hb : b < w.nb := lt_nb_of_isTook w hI b hit
    apply ainv_bus_master w (w.modBus b f) hI b hb rfl rfl rfl (fun _ _ => rfl) (fun b'' h => by simp [h])
    · intro A hA; exact hI.rlBus b A hA
    · intro k hk
      have hact : (w.modBus b f).act = w.act := rfl
      have hbb : (w.modBus b f).bus b = f (w.bus b) := by simp
      have h1 : rlPart (w.modBus b f) b ≤ rlPart w b := by
        unfold rlPart actOn
        rw [hact, hbb, hr, hit]
        simp
      rw [hbb, hq, hu]
      omega

theorem ainv_newBus (w : World) (b : BId) (par : Bool) (maxh : Option Nat) (wal : Bool) (hI : AInv w)
    (hg : guard w (.newBus b par maxh wal)) : AInv (apply0 w (.newBus b par maxh wal)) := by
  simp [guard, checks, Checks.ok] at hg
  subst hg
  simp only [apply0]
  obtain ⟨W, hW⟩ : ∃ W, W = (w.setBus w.nb { parallel := par, maxh := maxh, wal := wal }).setNb (w.nb + 1) := ⟨_, rfl⟩
  rw [← hW]
  obtain ⟨n1, n2, n3, n4, n5⟩ := hI.newb w.nb (Nat.le_refl _)
  have hact : W.act = w.act := by rw [hW]; rfl
  have hinst : W.inst = w.inst := by rw [hW]; rfl
  have hni : W.ni = w.ni := by rw [hW]; rfl
  have hnb : W.nb = w.nb + 1 := by rw [hW]; rfl
  have hbo : ∀ b'', b'' ≠ w.nb → W.bus b'' = w.bus b'' := fun b'' h => by rw [hW]; simp [h]
  have hbn : (W.bus w.nb).queue = [] ∧ (W.bus w.nb).unfinished = 0 ∧ (W.bus w.nb).rl.isTook = false := by
    rw [hW]; simp; rfl
  have hio : ∀ b'' j, instOf W b'' j = instOf w b'' j := by
    intro b'' j; unfold instOf tookOn actOn; rw [hact, hinst]
  refine ⟨?_, ?_, ?_, ?_, ?_⟩
  · intro b''
    by_cases h : b'' = w.nb
    · subst h
      have hz : hand W w.nb = 0 := by
        unfold hand rlPart
        rw [hbn.2.2, hni]
        have h1 : actOn W w.nb (.rl w.nb) = false := by unfold actOn; rw [hact, n3]
        rw [h1]
        have h2 : ((List.range w.ni).map (instOf W w.nb)).sum = 0 := by
          have : ∀ j, instOf W w.nb j = 0 := by
            intro j; rw [hio]; unfold instOf; rw [n4 j, n5 j]; rfl
          induction (List.range w.ni) with
          | nil => rfl
          | cons a t ih => simp [this a, ih]
        rw [h2]; rfl
      rw [hz, hbn.1, hbn.2.1]; simp
    · have hh := hand_rl_update w W hni hio b''
      have hr : rlPart W b'' = rlPart w b'' := by unfold rlPart actOn; rw [hact, hbo b'' h]
      rw [hr] at hh
      rw [hbo b'' h]
      have := hI.acc b''
      omega
  · intro b'' A hA; rw [hact] at hA; exact hI.rlBus b'' A hA
  · rw [hact]; exact hI.ext
  · intro i hi; rw [hni] at hi; rw [hinst, hact]; exact hI.fresh i hi
  · intro b'' hb''
    rw [hnb] at hb''
    have hne : b'' ≠ w.nb := fun h => by subst h; exact absurd hb'' (Nat.not_succ_le_self _)
    obtain ⟨m1, m2, m3, m4, m5⟩ := hI.newb b'' (Nat.le_of_succ_le hb'')
    rw [hbo b'' hne, hact]
    exact ⟨m1, m2, m3, fun i => by unfold tookOn; rw [hinst]; exact m4 i, fun i => by unfold actOn; rw [hact]; exact m5 i⟩

end Bubus

namespace Bubus

theorem ainv_hSched (w : World) (p : Proc) (i : IId) (b : BId) (e : EId) (k : HId) (hI : AInv w)
    (hg : guard w (.hSched p i b e k)) : AInv (apply0 w (.hSched p i b e k)) := by
  simp [guard, checks, Checks.ok] at hg
  obtain ⟨hi, _, hactIs, _⟩ := hg
  subst hi
  cases hA : w.act p with
  | none => simp [actIs, hA] at hactIs
  | some A =>
    obtain ⟨f1, f2, f3⟩ := hI.fresh w.ni (Nat.le_refl _)
    have hpi : p ≠ .inst w.ni := fun h => by subst h; rw [f2] at hA; cases hA
    obtain ⟨W, hW⟩ : ∃ W, W = apply0 w (.hSched p w.ni b e k) := ⟨_, rfl⟩
    rw [← hW]
    have hbus : W.bus = w.bus := by rw [hW]; simp [apply0, applySched, hA]
    have hnb : W.nb = w.nb := by rw [hW]; simp [apply0, applySched, hA]
    have hni : W.ni = w.ni + 1 := by rw [hW]; simp [apply0, applySched, hA]
    have hinst : ∀ j, j ≠ w.ni → W.inst j = w.inst j := fun j h => by rw [hW]; simp [apply0, applySched, hA, h]
    have htn : (W.inst w.ni).took = none := by rw [hW]; simp [apply0, applySched, hA]
    have hacto : ∀ q, q ≠ p → W.act q = w.act q := fun q h => by rw [hW]; simp [apply0, applySched, hA, h]
    have hactp : ∃ A', W.act p = some A' ∧ A'.bus = A.bus := by
      rw [hW]; simp [apply0, applySched, hA]
    clear hW
    obtain ⟨A', hA', hAb⟩ := hactp
    have hao : ∀ b'' q, actOn W b'' q = actOn w b'' q := by
      intro b'' q
      by_cases hq : q = p
      · subst hq; simp [actOn, hA, hA', hAb]
      · unfold actOn; rw [hacto q hq]
    have hto : ∀ b'' j, tookOn W b'' j = tookOn w b'' j := by
      intro b'' j
      by_cases hj : j = w.ni
      · subst hj; simp [tookOn, htn, f1]
      · unfold tookOn; rw [hinst j hj]
    have hio : ∀ b'' j, instOf W b'' j = instOf w b'' j := by
      intro b'' j; unfold instOf; rw [hto, hao]
    have hrp : ∀ b'', rlPart W b'' = rlPart w b'' := by
      intro b''; unfold rlPart; rw [hao, hbus]
    have hz : ∀ b'', instOf w b'' w.ni = 0 := by
      intro b''; simp [instOf, tookOn, actOn, f1, f2]
    have hhand : ∀ b'', hand W b'' = hand w b'' := by
      intro b''
      unfold hand
      rw [hrp, hni, List.range_succ, List.map_append, List.sum_append]
      have : ((List.range w.ni).map (instOf W b'')).sum = ((List.range w.ni).map (instOf w b'')).sum := by
        congr 1; apply List.map_congr_left; intro x _; exact hio b'' x
      rw [this]
      simp [hio, hz]
    refine ⟨?_, ?_, ?_, ?_, ?_⟩
    · intro b''; rw [hhand, hbus]; exact hI.acc b''
    · intro b'' A2 hA2
      by_cases hq : (Proc.rl b'') = p
      · subst hq
        rw [hA'] at hA2
        injection hA2 with hA2
        rw [← hA2, hAb]; exact hI.rlBus b'' A hA
      · rw [hacto _ hq] at hA2; exact hI.rlBus b'' A2 hA2
    · have : Proc.ext ≠ p := fun h => by subst h; rw [hI.ext] at hA; cases hA
      rw [hacto _ this]; exact hI.ext
    · intro j hj
      rw [hni] at hj
      have hjn : j ≠ w.ni := fun h => by subst h; exact absurd hj (Nat.not_succ_le_self _)
      obtain ⟨g1, g2, g3⟩ := hI.fresh j (Nat.le_of_succ_le hj)
      have hq : (Proc.inst j) ≠ p := fun h => by subst h; rw [g2] at hA; cases hA
      rw [hinst j hjn, hacto _ hq]; exact ⟨g1, g2, g3⟩
    · intro b'' hb''
      rw [hnb] at hb''
      obtain ⟨n1, n2, n3, n4, n5⟩ := hI.newb b'' hb''
      have hq : (Proc.rl b'') ≠ p := fun h => by subst h; rw [n3] at hA; cases hA
      rw [hbus, hacto _ hq]
      exact ⟨n1, n2, n3, fun j => by rw [hto]; exact n4 j, fun j => by rw [hao]; exact n5 j⟩

theorem ainv_apply0 (w : World) (l : Label) (hI : AInv w) (hg : guard w l) : AInv (apply0 w l) := by
  have heasy := apply0_acct_easy w l hg
  cases l
  case newBus b par maxh wal => exact ainv_newBus w b par maxh wal hI hg
  case dispatch p b e res => exact ainv_dispatch w p b e res hI hg
  case take p b e => exact ainv_take w p b e hI hg
  case peBegin p b e => exact ainv_peBegin w p b e hI hg
  case peRecTrip p b e => exact ainv_peRecTrip w p b e hI hg
  case hSched p i b e k => exact ainv_hSched w p i b e k hI hg
  case peEnd p b e => exact ainv_peEnd w p b e hI hg
  case peAbort p b e => exact ainv_peAbort w p b e hI hg
  case hFinish i r =>
    simp [guard, checks, Checks.ok] at hg
    exact ainv_of_acct w _ (applyFinish_acct w i r) (applyFinish_st_fresh w i r hg.1) hI
  case rlCreate b =>
    simp only [apply0]
    exact ainv_rl_leave w hI b _ (fun _ => rfl) (fun _ => rfl) (fun _ => rfl)
  case rlExit b =>
    simp only [apply0]
    split
    · exact ainv_rl_leave _ (ainv_of_acct w _ (rlIdleCheck_acct w b) (fun j _ => by simp [rlIdleCheck]; split <;> rfl) hI) b _
        (fun _ => rfl) (fun _ => rfl) (fun _ => rfl)
    · exact ainv_rl_leave w hI b _ (fun _ => rfl) (fun _ => rfl) (fun _ => rfl)
  case rlCancelled b =>
    simp only [apply0]
    exact ainv_rl_leave w hI b _ (fun _ => rfl) (fun _ => rfl) (fun _ => rfl)
  case rlDropExit b =>
    simp only [apply0]
    exact ainv_rl_leave _ (ainv_of_acct w _ (rlIdleCheck_acct w b) (fun j _ => by simp [rlIdleCheck]; split <;> rfl) hI) b _
      (fun _ => rfl) (fun _ => rfl) (fun _ => rfl)
  all_goals exact ainv_of_acct w _ heasy.1 heasy.2 hI

theorem ainv_step (w w' : World) (l : Label) (hI : AInv w) (hs : step w l = some w') : AInv w' := by
  obtain ⟨hg, rfl⟩ := step_some hs
  exact ainv_of_acct _ _ (wake_acct _) (fun j _ => by simp [apply]) (ainv_apply0 w l hI hg)

theorem ainv_init : AInv ({} : World) := by
  refine ⟨fun b => ?_, ?_, rfl, fun _ _ => ⟨rfl, rfl, rfl⟩, fun _ _ => ⟨rfl, rfl, rfl, fun _ => rfl, fun _ => rfl⟩⟩
  · show ([] : List EId).length + hand {} b ≤ 0
    have : hand ({} : World) b = 0 := by
      unfold hand rlPart actOn
      rfl
    rw [this]; exact Nat.le_refl _
  · intro b A h; cases h

theorem ainv_run (w w' : World) (ls : List Label) (hI : AInv w) (h : run w ls = some w') : AInv w' := by
  induction ls generalizing w with
  | nil => simp [run] at h; subst h; exact hI
  | cons l ls ih =>
    simp only [run] at h
    split at h
    · rename_i w1 hs1; exact ih w1 (ainv_step w w1 l hI hs1) h
    · cases h

namespace Thm

/-- **C15 (queue accounting), for every reachable state**: on every bus, the events still queued plus the events some
    executor holds in hand (taken off the queue and `task_done()` not yet called: a run loop that took one, an awaiting
    handler that took one inline, every open activation) never exceed the queue's unfinished-task counter. -/
theorem C15_unfinished_counts_at_least_everything_queued_or_in_hand (w : World) (hr : Reachable w) (b : BId) :
    (w.bus b).queue.length + hand w b ≤ (w.bus b).unfinished := by
  obtain ⟨ls, hls⟩ := hr
  exact (ainv_run {} w ls ainv_init hls).acc b

/-- **C15 (soundness of the first wait of `wait_until_idle`)**: whenever the unfinished-task counter of a bus is 0 — the
    only moment `queue.join()` can be released — nothing is queued on that bus, its run loop holds no event, and no
    activation of an event of that bus is open anywhere (run loop or inline in any handler). -/
theorem C15_join_is_released_only_when_nothing_is_queued_or_in_hand (w : World) (hr : Reachable w) (b : BId)
    (h0 : (w.bus b).unfinished = 0) :
    (w.bus b).queue = [] ∧ (w.bus b).rl.isTook = false ∧ actOn w b (.rl b) = false ∧
    ∀ i, i < w.ni → tookOn w b i = false ∧ actOn w b (.inst i) = false := by
  have h := C15_unfinished_counts_at_least_everything_queued_or_in_hand w hr b
  rw [h0] at h
  have hq : (w.bus b).queue.length = 0 := by omega
  have hh : hand w b = 0 := by omega
  unfold hand rlPart at hh
  have h1 : (if (w.bus b).rl.isTook then 1 else 0) = 0 := by omega
  have h2 : (if actOn w b (.rl b) then 1 else 0) = 0 := by omega
  have h3 : ((List.range w.ni).map (instOf w b)).sum = 0 := by omega
  refine ⟨List.eq_nil_of_length_eq_zero hq, ?_, ?_, ?_⟩
  · cases hx : (w.bus b).rl.isTook <;> simp [hx] at h1 ⊢
  · cases hx : actOn w b (.rl b) <;> simp [hx] at h2 ⊢
  · intro i hi
    have hle : ∀ (l : List Nat) (f : Nat → Nat) (c : Nat), c ∈ l → f c ≤ (l.map f).sum := by
      intro l f c hc
      induction l with
      | nil => cases hc
      | cons a t ih =>
        simp only [List.map_cons, List.sum_cons]
        cases hc with
        | head => omega
        | tail _ h' => have := ih h'; omega
    have := hle (List.range w.ni) (instOf w b) i (List.mem_range.mpr hi)
    have hz : instOf w b i = 0 := by omega
    unfold instOf at hz
    cases hx : tookOn w b i <;> cases hy : actOn w b (.inst i) <;> simp [hx, hy] at hz ⊢

end Thm
end Bubus
