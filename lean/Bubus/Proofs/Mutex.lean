/-
  Bubus.Proofs.Mutex — C06 (cross-bus mutual exclusion) as an invariant of all reachable states of serial buses:
  the live handler instances form one chain — the lock-holding run loop runs the outermost one, every other one runs
  inside the inline activation of the next, which is suspended in an await — so at most one handler executes at a time.
-/
import Bubus.Proofs.PathInv
namespace Bubus

/-- coarse instance state: finished / suspended in an await / executing (scheduled, running or ended-but-unrecorded) -/
inductive CS | fin | wait | busy
  deriving DecidableEq, Repr

def cs : ISt → CS
  | .finished => .fin
  | .awaiting _ => .wait
  | _ => .busy

/-- the unfinished handler instances of an executor's open activation -/
def runOf (w : World) (p : Proc) : Option (List IId) := (w.act p).map (·.running)

/-- the live instances, innermost first, form a chain of executors rooted at the lock-holding run loop -/
def Chain (w : World) : List IId → Prop
  | [] => True
  | [i] => ∃ b, (w.inst i).exec = .rl b ∧ w.lock = some b ∧ runOf w (.rl b) = some [i]
  | i :: j :: rest =>
    (w.inst i).exec = .inst j ∧ runOf w (.inst j) = some [i] ∧ cs (w.inst j).st = .wait ∧ Chain w (j :: rest)

structure MInv (w : World) : Prop where
  serial : ∀ b, (w.bus b).parallel = false
  mem : ∀ i, i ∈ w.stack ↔ cs (w.inst i).st ≠ .fin
  nodup : w.stack.Nodup
  chain : Chain w w.stack
  actRl : ∀ b, (w.act (.rl b)).isSome → w.lock = some b
  actInst : ∀ j, (w.act (.inst j)).isSome → cs (w.inst j).st = .wait
  actExt : w.act .ext = none
  runLive : ∀ p l, runOf w p = some l → ∀ i ∈ l, i ∈ w.stack ∧ (w.inst i).exec = p
  tookWait : ∀ i, (w.inst i).took.isSome → cs (w.inst i).st = .wait
  fresh : ∀ j, w.ni ≤ j → cs (w.inst j).st = .fin ∧ w.act (.inst j) = none ∧ (w.inst j).took = none

/-- what the invariant reads of a world -/
def SameView (w w' : World) : Prop :=
  (∀ b, (w'.bus b).parallel = (w.bus b).parallel) ∧
  (∀ i, cs (w'.inst i).st = cs (w.inst i).st) ∧ (∀ i, (w'.inst i).exec = (w.inst i).exec) ∧
  (∀ p, runOf w' p = runOf w p) ∧ w'.lock = w.lock ∧ w'.stack = w.stack ∧
  (∀ i, (w'.inst i).took.isSome → (w.inst i).took.isSome) ∧ w'.ni = w.ni

theorem chain_congr (w w' : World) (hexec : ∀ i, (w'.inst i).exec = (w.inst i).exec)
    (hcs : ∀ i, cs (w'.inst i).st = cs (w.inst i).st) (hrun : ∀ p, runOf w' p = runOf w p) (hlock : w'.lock = w.lock) :
    ∀ l, Chain w l → Chain w' l := by
  intro l
  induction l with
  | nil => intro _; trivial
  | cons i t ih =>
    cases t with
    | nil =>
      intro ⟨b, h1, h2, h3⟩
      exact ⟨b, by rw [hexec]; exact h1, by rw [hlock]; exact h2, by rw [hrun]; exact h3⟩
    | cons j rest =>
      intro ⟨h1, h2, h3, h4⟩
      exact ⟨by rw [hexec]; exact h1, by rw [hrun]; exact h2, by rw [hcs]; exact h3, ih h4⟩

/-- the chain over `l` reads executors of all of `l`, coarse states and inline activations only below the top -/
theorem chain_congr_tail (w w' : World) (hrl : ∀ b, runOf w' (.rl b) = runOf w (.rl b)) (hlock : w'.lock = w.lock) :
    ∀ l, (∀ x ∈ l, (w'.inst x).exec = (w.inst x).exec) →
      (∀ x ∈ l.tail, cs (w'.inst x).st = cs (w.inst x).st ∧ runOf w' (.inst x) = runOf w (.inst x)) →
      Chain w l → Chain w' l := by
  intro l
  induction l with
  | nil => intro _ _ _; trivial
  | cons i t ih =>
    cases t with
    | nil =>
      intro he _ ⟨b, h1, h2, h3⟩
      exact ⟨b, by rw [he i (by simp)]; exact h1, by rw [hlock]; exact h2, by rw [hrl]; exact h3⟩
    | cons j rest =>
      intro he ht ⟨h1, h2, h3, h4⟩
      have hj := ht j (by simp)
      refine ⟨by rw [he i (by simp)]; exact h1, by rw [hj.2]; exact h2, by rw [hj.1]; exact h3, ?_⟩
      exact ih (fun x hx => he x (by simp [hx])) (fun x hx => ht x (by simp at hx ⊢; exact Or.inr hx)) h4

theorem isSome_of_runOf (w w' : World) (p : Proc) (h : runOf w' p = runOf w p) : (w'.act p).isSome = (w.act p).isSome := by
  unfold runOf at h
  cases h1 : w'.act p <;> cases h2 : w.act p <;> simp [h1, h2] at h ⊢

theorem minv_of_sameView (w w' : World) (hv : SameView w w') (h : MInv w) : MInv w' := by
  obtain ⟨hpar, hcs, hexec, hrun, hlock, hstack, htook, hni⟩ := hv
  refine ⟨?_, ?_, ?_, ?_, ?_, ?_, ?_, ?_, ?_, ?_⟩
  · intro b; rw [hpar]; exact h.serial b
  · intro i; rw [hstack, hcs]; exact h.mem i
  · rw [hstack]; exact h.nodup
  · rw [hstack]; exact chain_congr w w' hexec hcs hrun hlock _ h.chain
  · intro b hb; rw [hlock]; apply h.actRl; rw [← isSome_of_runOf w w' _ (hrun _)]; exact hb
  · intro j hj; rw [hcs]; apply h.actInst; rw [← isSome_of_runOf w w' _ (hrun _)]; exact hj
  · have := isSome_of_runOf w w' .ext (hrun _)
    rw [h.actExt] at this
    cases hx : w'.act .ext <;> simp [hx] at this ⊢
  · intro p l hl i hi; rw [hstack, hexec]; rw [hrun] at hl; exact h.runLive p l hl i hi
  · intro i hi; rw [hcs]; exact h.tookWait i (htook i hi)
  · intro j hj
    rw [hni] at hj
    obtain ⟨f1, f2, f3⟩ := h.fresh j hj
    refine ⟨by rw [hcs]; exact f1, ?_, ?_⟩
    · have := isSome_of_runOf w w' (.inst j) (hrun _)
      rw [f2] at this
      cases hx : w'.act (.inst j) <;> simp [hx] at this ⊢
    · have := htook j
      rw [f3] at this
      cases hx : (w'.inst j).took <;> simp [hx] at this ⊢

/-- the outermost live instance is run by the lock-holding run loop -/
theorem chain_bottom (w : World) : ∀ l, l ≠ [] → Chain w l →
    ∃ i b, l.getLast? = some i ∧ (w.inst i).exec = .rl b ∧ w.lock = some b ∧ runOf w (.rl b) = some [i] := by
  intro l
  induction l with
  | nil => intro h; exact absurd rfl h
  | cons i t ih =>
    intro _ hc
    cases t with
    | nil =>
      obtain ⟨b, h1, h2, h3⟩ := hc
      exact ⟨i, b, rfl, h1, h2, h3⟩
    | cons j rest =>
      obtain ⟨_, _, _, h4⟩ := hc
      obtain ⟨i', b, hl, h⟩ := ih (by simp) h4
      exact ⟨i', b, by simpa using hl, h⟩

/-- an instance below the top of the chain has the instance above it in its inline activation -/
theorem chain_above (w : World) (j : IId) (rest : List IId) : ∀ pre, pre ≠ [] → Chain w (pre ++ j :: rest) →
    ∃ i, runOf w (.inst j) = some [i] := by
  intro pre
  induction pre with
  | nil => intro h; exact absurd rfl h
  | cons a t ih =>
    intro _ hc
    cases t with
    | nil =>
      obtain ⟨_, h2, _, _⟩ := hc
      exact ⟨a, h2⟩
    | cons a' t' =>
      obtain ⟨_, _, _, h4⟩ := hc
      exact ih (by simp) h4

/-- everything below the top of the chain is suspended in an await -/
theorem chain_tail_waits (w : World) : ∀ l, Chain w l → ∀ j ∈ l.tail, cs (w.inst j).st = .wait := by
  intro l
  induction l with
  | nil => intro _ j hj; cases hj
  | cons i t ih =>
    intro hc j hj
    cases t with
    | nil => cases hj
    | cons j' rest =>
      obtain ⟨_, _, h3, h4⟩ := hc
      simp only [List.tail_cons, List.mem_cons] at hj
      rcases hj with rfl | hj
      · exact h3
      · exact ih h4 j (by simpa using hj)

/-- an executor whose open activation has no unfinished handler is the innermost one -/
theorem innermost (w : World) (hI : MInv w) (p : Proc) (hp : runOf w p = some []) :
    match p with
    | .rl _ => w.stack = []
    | .inst j => ∃ rest, w.stack = j :: rest
    | .ext => False := by
  have hsome : (w.act p).isSome := by
    unfold runOf at hp
    cases h : w.act p <;> simp [h] at hp ⊢
  cases p with
  | rl b =>
    show w.stack = []
    have hl := hI.actRl b hsome
    cases hst : w.stack with
    | nil => rfl
    | cons a t =>
      obtain ⟨i, b', _, _, h2, h3⟩ := chain_bottom w w.stack (by simp [hst]) hI.chain
      rw [hl] at h2
      injection h2 with h2
      subst h2
      rw [hp] at h3
      simp at h3
  | inst j =>
    show ∃ rest, w.stack = j :: rest
    have hw := hI.actInst j hsome
    have hj : j ∈ w.stack := (hI.mem j).mpr (by rw [hw]; decide)
    obtain ⟨pre, rest, hsplit⟩ := List.append_of_mem hj
    cases pre with
    | nil => exact ⟨rest, by simpa using hsplit⟩
    | cons a t =>
      have hc := hI.chain
      rw [hsplit] at hc
      obtain ⟨i, hi⟩ := chain_above w j rest (a :: t) (by simp) hc
      rw [hp] at hi
      simp at hi
  | ext =>
    rw [hI.actExt] at hsome
    simp at hsome

/-- with the invariant, only the innermost live instance can be executing; every other one is suspended in an await -/
theorem only_top_busy (w : World) (hI : MInv w) (i : IId) (hb : cs (w.inst i).st = .busy) : w.stack.head? = some i := by
  have hi : i ∈ w.stack := (hI.mem i).mpr (by rw [hb]; decide)
  cases hst : w.stack with
  | nil => rw [hst] at hi; cases hi
  | cons a t =>
    rw [hst] at hi
    simp only [List.mem_cons] at hi
    rcases hi with rfl | hi
    · rfl
    · have := chain_tail_waits w w.stack hI.chain i (by rw [hst]; simpa using hi)
      rw [hb] at this
      cases this

end Bubus
