/-
  Bubus.Proofs.Results4 — C12: `event_results_flat_dict` never invents a key: whatever the flags, a returned
  dictionary has no key twice and every key comes from the dict value of some included result.
-/
import Bubus.Proofs.Results2
namespace Bubus.Thm
open Bubus Bubus.Results

/-- one `dict.update` step for a single key -/
def upsert (acc : List (String × Int)) (kv : String × Int) : List (String × Int) :=
  if acc.any (·.1 == kv.1) then acc.map (fun (k', v') => if k' == kv.1 then (k', kv.2) else (k', v'))
  else acc ++ [(kv.1, kv.2)]

theorem mergeDict_eq (m kvs : List (String × Int)) : mergeDict m kvs = kvs.foldl upsert m := rfl

theorem skeys_upsert (acc : List (String × Int)) (kv : String × Int) :
    (upsert acc kv).map (·.1) = if kv.1 ∈ acc.map (·.1) then acc.map (·.1) else acc.map (·.1) ++ [kv.1] := by
  have hany : acc.any (·.1 == kv.1) = true ↔ kv.1 ∈ acc.map (·.1) := by
    simp only [List.any_eq_true, beq_iff_eq, List.mem_map]
  unfold upsert
  by_cases h : kv.1 ∈ acc.map (·.1)
  · rw [if_pos (hany.mpr h), if_pos h, List.map_map]
    apply List.map_congr_left
    rintro ⟨k, v⟩ _
    simp only [Function.comp]
    split <;> rfl
  · have h' : ¬ (acc.any (·.1 == kv.1) = true) := fun hh => h (hany.mp hh)
    rw [if_neg h', if_neg h]
    simp

theorem skeys_fold (kvs : List (String × Int)) (acc : List (String × Int)) (hn : (acc.map (·.1)).Nodup) :
    ((kvs.foldl upsert acc).map (·.1)).Nodup ∧
    ∀ k, k ∈ (kvs.foldl upsert acc).map (·.1) → (k ∈ acc.map (·.1) ∨ k ∈ kvs.map (·.1)) := by
  induction kvs generalizing acc with
  | nil => exact ⟨hn, fun k h => .inl h⟩
  | cons kv kvs ih =>
    simp only [List.foldl_cons]
    have hk := skeys_upsert acc kv
    have hn' : ((upsert acc kv).map (·.1)).Nodup := by
      rw [hk]
      split
      · exact hn
      · rename_i hmem
        rw [List.nodup_append]
        refine ⟨hn, by simp, ?_⟩
        intro a ha b hb
        simp only [List.mem_singleton] at hb
        subst hb
        intro hab
        subst hab
        exact hmem ha
    obtain ⟨h1, h2⟩ := ih (upsert acc kv) hn'
    refine ⟨h1, fun k hkm => ?_⟩
    rcases h2 k hkm with h | h
    · rw [hk] at h
      split at h
      · exact .inl h
      · rcases List.mem_append.mp h with h | h
        · exact .inl h
        · simp only [List.mem_singleton] at h
          exact .inr (by simp [h])
    · exact .inr (by simp only [List.map_cons, List.mem_cons]; exact .inr h)

/-- the fold step of `flatDict` -/
def dictStep (rc : Bool) (acc : Except Err (List (String × Int))) (r : Res) : Except Err (List (String × Int)) :=
  match acc, r.value with
  | .error e, _ => .error e
  | .ok m, .dict kvs =>
    if kvs.isEmpty then .ok m
    else if rc && kvs.any (fun (k, _) => m.any (·.1 == k)) then .error .conflict
    else .ok (mergeDict m kvs)
  | .ok m, _ => .ok m

theorem dictStep_error (rc : Bool) (l : List Res) (e : Err) : l.foldl (dictStep rc) (.error e) = .error e := by
  induction l with
  | nil => rfl
  | cons r l ih => simp only [List.foldl_cons, dictStep]; exact ih

theorem dict_fold_keys (rc : Bool) (l : List Res) (m m' : List (String × Int)) (hn : (m.map (·.1)).Nodup)
    (h : l.foldl (dictStep rc) (.ok m) = .ok m') :
    (m'.map (·.1)).Nodup ∧
    ∀ k, k ∈ m'.map (·.1) → (k ∈ m.map (·.1) ∨ ∃ r ∈ l, ∃ kvs, r.value = .dict kvs ∧ k ∈ kvs.map (·.1)) := by
  induction l generalizing m with
  | nil =>
    simp only [List.foldl_nil] at h
    injection h with h
    subst h
    exact ⟨hn, fun k hk => .inl hk⟩
  | cons r l ih =>
    simp only [List.foldl_cons] at h
    have lift : ∀ (hh : l.foldl (dictStep rc) (.ok m) = .ok m'),
        (m'.map (·.1)).Nodup ∧ ∀ k, k ∈ m'.map (·.1) →
          (k ∈ m.map (·.1) ∨ ∃ r' ∈ r :: l, ∃ kvs, r'.value = .dict kvs ∧ k ∈ kvs.map (·.1)) := by
      intro hh
      obtain ⟨a, b⟩ := ih m hn hh
      refine ⟨a, fun k hk => ?_⟩
      rcases b k hk with b | ⟨x, hx, kvs, hv, hkk⟩
      · exact .inl b
      · exact .inr ⟨x, List.mem_cons_of_mem _ hx, kvs, hv, hkk⟩
    cases hv : r.value with
    | dict kvs =>
      simp only [dictStep, hv] at h
      by_cases hk : kvs.isEmpty = true
      · simp only [hk, if_true] at h; exact lift h
      · simp only [hk, if_false, Bool.false_eq_true] at h
        split at h
        · rw [dictStep_error] at h; cases h
        · have hm := skeys_fold kvs m hn
          rw [← mergeDict_eq] at hm
          obtain ⟨a, b⟩ := ih (mergeDict m kvs) hm.1 h
          refine ⟨a, fun k hkm => ?_⟩
          rcases b k hkm with b | ⟨x, hx, kvs', hv', hkk⟩
          · rcases hm.2 k b with c | c
            · exact .inl c
            · exact .inr ⟨r, List.mem_cons_self, kvs, hv, c⟩
          · exact .inr ⟨x, List.mem_cons_of_mem _ hx, kvs', hv', hkk⟩
    | none => simp only [dictStep, hv] at h; exact lift h
    | int n => simp only [dictStep, hv] at h; exact lift h
    | str s => simp only [dictStep, hv] at h; exact lift h
    | list xs => simp only [dictStep, hv] at h; exact lift h
    | event id => simp only [dictStep, hv] at h; exact lift h
    | exc id => simp only [dictStep, hv] at h; exact lift h

/-- C12: whatever the flags, a dictionary returned by `event_results_flat_dict` has no key twice, and every key of it
    is a key of the dict value of some included result: nothing is invented. -/
theorem C12_flat_dict_invents_no_key (rs : List Res) (incl : Res → Bool) (ra rn rc : Bool) (m : List (String × Int))
    (h : flatDict rs incl ra rn rc = .ok m) :
    (m.map (·.1)).Nodup ∧
    ∀ k, k ∈ m.map (·.1) → ∃ r ∈ rs, incl r = true ∧ ∃ kvs, r.value = .dict kvs ∧ k ∈ kvs.map (·.1) := by
  unfold flatDict at h
  cases hf : filtered rs (fun r => r.value.isDict && incl r) ra rn with
  | error e => simp only [hf] at h; cases h
  | ok l =>
    simp only [hf] at h
    have hl := filtered_ok_eq rs _ ra rn l hf
    have h' : l.foldl (dictStep rc) (.ok []) = .ok m := h
    obtain ⟨a, b⟩ := dict_fold_keys rc l [] m (by simp) h'
    refine ⟨a, fun k hk => ?_⟩
    rcases b k hk with b | ⟨r, hr, kvs, hv, hkk⟩
    · simp at b
    · rw [hl] at hr
      obtain ⟨hr1, hr2⟩ := List.mem_filter.mp hr
      simp only [Bool.and_eq_true] at hr2
      exact ⟨r, hr1, hr2.2, kvs, hv, hkk⟩

/-- non-vacuity: the second dict overwrites key "a" (no `raise_if_conflicts`) -/
example : flatDict [{ hid := 1, name := 1, status := .completed, value := .dict [("a", 1), ("b", 2)] },
      { hid := 2, name := 2, status := .completed, value := .dict [("a", 3)] }] defaultInclude false true false =
    .ok [("a", 3), ("b", 2)] := by
  rfl

end Bubus.Thm
