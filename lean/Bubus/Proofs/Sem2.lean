/-
  Bubus.Proofs.Sem2 — C20, second invariant of the semaphore wrapper over all action sequences: whoever is inside
  the wrapped function holds a slot or entered as a lax caller after an acquisition timeout.  With the accounting
  invariant of `Sem.lean` (at most `limit` holders) this is the property's bound: at most `limit` executions in
  progress, exceeded only by lax entrants.
-/
import Bubus.Proofs.Sem
namespace Bubus.Retry

structure BodyInv (s : Sem) : Prop where
  slot : ∀ c ∈ s.inBody, s.phase c = .holding ∨ s.phase c = .laxEntered
  nodup : s.inBody.Nodup

theorem bodyInv_step (s s' : Sem) (l : SLabel) (hI : BodyInv s) (h : sstep s l = some s') : BodyInv s' := by
  unfold sstep at h
  split at h
  · rename_i hg
    injection h with h
    subst h
    -- a caller in the waiting / done phase is not inside the function
    have notIn : ∀ c, s.phase c = .waiting ∨ s.phase c = .done → c ∉ s.inBody := by
      intro c hc hin
      rcases hI.slot c hin with h1 | h1 <;> rcases hc with h2 | h2 <;> rw [h1] at h2 <;> cases h2
    cases l with
    | call c lax =>
      simp only [sguard, Bool.and_eq_true, beq_iff_eq] at hg
      refine ⟨fun c' hc' => ?_, hI.nodup⟩
      have hne : c' ≠ c := fun e => notIn c (.inr hg.1) (e ▸ hc')
      have := hI.slot c' hc'
      simpa [sapply, Sem.setPhase, hne] using this
    | acquired c =>
      simp only [sguard, Bool.and_eq_true, beq_iff_eq] at hg
      refine ⟨fun c' hc' => ?_, hI.nodup⟩
      have hne : c' ≠ c := fun e => notIn c (.inl hg.1) (e ▸ hc')
      have := hI.slot c' hc'
      simpa [sapply, Sem.setPhase, hne] using this
    | acqTimeout c =>
      simp only [sguard, beq_iff_eq] at hg
      have hb : (sapply s (.acqTimeout c)).inBody = s.inBody := by
        simp only [sapply]; split <;> rfl
      refine ⟨fun c' hc' => ?_, by rw [hb]; exact hI.nodup⟩
      rw [hb] at hc'
      have hne : c' ≠ c := fun e => notIn c (.inl hg) (e ▸ hc')
      have := hI.slot c' hc'
      simp only [sapply]
      split <;> simpa [Sem.setPhase, hne] using this
    | cancelWaiting c =>
      simp only [sguard, beq_iff_eq] at hg
      refine ⟨fun c' hc' => ?_, hI.nodup⟩
      have hne : c' ≠ c := fun e => notIn c (.inl hg) (e ▸ hc')
      have := hI.slot c' hc'
      simpa [sapply, Sem.setPhase, hne] using this
    | bodyStart c =>
      simp only [sguard, Bool.and_eq_true, Bool.or_eq_true, beq_iff_eq, Bool.not_eq_true',
        List.contains_eq_mem, decide_eq_false_iff_not] at hg
      constructor
      · intro c' hc'
        simp only [sapply, List.mem_append, List.mem_singleton] at hc' ⊢
        rcases hc' with h1 | h1
        · exact hI.slot c' h1
        · subst h1; exact hg.1
      · simp only [sapply]
        rw [List.nodup_append]
        refine ⟨hI.nodup, by simp, ?_⟩
        intro a ha b hb
        simp only [List.mem_singleton] at hb
        subst hb
        intro e
        subst e
        exact hg.2 ha
    | bodyEnd c =>
      constructor
      · intro c' hc'
        simp only [sapply] at hc' ⊢
        exact hI.slot c' (List.mem_of_mem_erase hc')
      · simp only [sapply]
        exact hI.nodup.erase c
    | finish c released =>
      simp only [sguard, Bool.and_eq_true, Bool.not_eq_true', List.contains_eq_mem,
        decide_eq_false_iff_not] at hg
      refine ⟨fun c' hc' => ?_, hI.nodup⟩
      have hc'' : c' ∈ s.inBody := by simpa [sapply, Sem.setPhase] using hc'
      have hne : c' ≠ c := fun e => hg.1.1 (e ▸ hc'')
      have := hI.slot c' hc''
      simpa [sapply, Sem.setPhase, hne] using this
  · cases h

theorem bodyInv_run (s s' : Sem) (ls : List SLabel) (hI : BodyInv s) (h : srun s ls = some s') : BodyInv s' := by
  induction ls generalizing s with
  | nil => simp [srun] at h; subst h; exact hI
  | cons l ls ih =>
    simp only [srun] at h
    split at h
    · rename_i s1 hs
      exact ih s1 (bodyInv_step s s1 l hI hs) h
    · cases h

theorem bodyInv_init (L : Nat) : BodyInv { limit := L, value := L } :=
  ⟨fun c hc => absurd hc (by simp), List.nodup_nil⟩

end Bubus.Retry

namespace Bubus.Thm
open Bubus.Retry

/-- C20: for every sequence of wrapper actions, every caller that is inside the wrapped function holds a slot or is a
    lax entrant (its acquisition timed out under `semaphore_lax`), and no caller is inside twice. -/
theorem C20_inside_the_function_only_with_a_slot_or_as_lax_entrant (L : Nat) (ls : List SLabel) (s : Sem)
    (h : srun { limit := L, value := L } ls = some s) :
    (∀ c ∈ s.inBody, s.phase c = .holding ∨ s.phase c = .laxEntered) ∧ s.inBody.Nodup := by
  have := bodyInv_run _ s ls (bodyInv_init L) h
  exact ⟨this.slot, this.nodup⟩

/-- C20: the concurrency bound — the executions in progress that are not lax entrants number at most `limit`:
    the limit is exceeded only in the documented case. -/
theorem C20_at_most_limit_executions_apart_from_lax_entrants (L : Nat) (ls : List SLabel) (s : Sem)
    (h : srun { limit := L, value := L } ls = some s) :
    ((List.range s.ncallers).countP fun c => s.inBody.contains c && !(s.phase c == .laxEntered)) ≤ L := by
  have hb := bodyInv_run _ s ls (bodyInv_init L) h
  have hl := C20_at_most_limit_holders L ls s h
  rw [holders_length] at hl
  refine Nat.le_trans ?_ hl
  unfold nHolding
  apply List.countP_mono_left
  intro c _ hc
  simp only [Bool.and_eq_true, List.contains_eq_mem, decide_eq_true_eq, Bool.not_eq_true', beq_eq_false_iff_ne] at hc
  rcases hb.slot c hc.1 with h1 | h1
  · simp [h1]
  · exact absurd h1 hc.2

end Bubus.Thm
