/-
  Bubus.Proofs.HistInv — C13 as an invariant of all reachable states:
  every bus's history is duplicate-free and, for max_history_size = N ≥ 1, holds at most N events
  after every dispatch and every processing step — for all programs, schedules and histories.
-/
import Bubus.Proofs.History
namespace Bubus

theorem parentWalk_bus (w : World) (fuel : Nat) (e : EId) (seen : List EId) :
    (parentWalk w fuel e seen).bus = w.bus := by
  induction fuel generalizing w e seen with
  | zero => rfl
  | succ n ih =>
    unfold parentWalk
    split
    · rfl
    · split
      · rfl
      · split
        · rw [ih, markComplete_bus]
        · rfl

theorem cancelPendingChildren_bus (w : World) (fuel : Nat) (e : EId) :
    (cancelPendingChildren w fuel e).bus = w.bus := by
  induction fuel generalizing w e with
  | zero => rfl
  | succ n ih =>
    unfold cancelPendingChildren
    generalize (w.ev e).children = cs
    induction cs generalizing w with
    | nil => rfl
    | cons c cs ihc =>
      simp only [List.foldl_cons]
      rw [ihc, ih]
      simp

theorem cleanupHist_sublist (w : World) (h : List EId) (m : Option Nat) : (cleanupHist w h m).Sublist h := by
  unfold cleanupHist
  split
  · exact List.Sublist.refl _
  · simp only []
    split
    · exact List.Sublist.refl _
    · exact List.filter_sublist

theorem peEnter_hist (w : World) (p : Proc) (b b' : BId) :
    ((peEnter w p b).bus b').hist = (w.bus b').hist ∧ ((peEnter w p b).bus b').maxh = (w.bus b').maxh := by
  cases p <;> simp [peEnter]
  by_cases hb : b' = b <;> simp [hb, setBus_bus]

theorem peOpen_bus (w : World) (p : Proc) (b : BId) (e : EId) : (peOpen w p b e).bus = w.bus := by
  unfold peOpen
  simp only []
  split <;> simp [markComplete_bus]

/-- the per-bus history invariant -/
def HistOk (w : World) (b : BId) : Prop :=
  (w.bus b).hist.Nodup ∧ ∀ n, (w.bus b).maxh = some n → 0 < n → (w.bus b).hist.length ≤ n

def HistInv (w : World) : Prop := ∀ b, HistOk w b

theorem histOk_of_eq (w w' : World) (b : BId) (hh : (w'.bus b).hist = (w.bus b).hist) (hm : (w'.bus b).maxh = (w.bus b).maxh)
    (h : HistOk w b) : HistOk w' b := by
  unfold HistOk at *
  rw [hh, hm]; exact h

/-- after `cleanup` the cleaned bus satisfies the bound (whatever it was before), given a duplicate-free history -/
theorem histOk_cleanup (w : World) (b : BId) (hn : (w.bus b).hist.Nodup) : HistOk (cleanup w b) b := by
  unfold HistOk
  rw [cleanup_hist, cleanup_maxh]
  refine ⟨hn.sublist (cleanupHist_sublist _ _ _), ?_⟩
  intro n hm hpos
  rw [hm]
  exact Thm.C13_cleanup_brings_history_down_to_the_bound w _ n hn hpos

theorem histOk_cleanup_other (w : World) (b b' : BId) (hne : b' ≠ b) (h : HistOk w b') : HistOk (cleanup w b) b' := by
  apply histOk_of_eq w _ b' _ _ h
  · rw [cleanup_bus_other w b b' hne]
  · rw [cleanup_maxh]

/-- which labels write a history at all -/
def writesHist : Label → Bool
  | .dispatch _ _ _ .ok => true
  | .peEnd .. => true
  | .stopEnd _ => true
  | .newBus .. => true
  | _ => false

/-- all other labels leave every bus's history and bound alone -/
theorem apply0_hist_frame (w : World) (l : Label) (b : BId) (h : writesHist l = false) :
    ((apply0 w l).bus b).hist = (w.bus b).hist ∧ ((apply0 w l).bus b).maxh = (w.bus b).maxh := by
  cases l <;> simp [writesHist] at h
  case on b' key k kind => by_cases hb : b = b' <;> simp [apply0, hb, setBus_bus]
  case off b' key k => by_cases hb : b = b' <;> simp [apply0, hb, setBus_bus]
  case newEvent => simp [apply0]
  case tick => simp [apply0]
  case rlCreate b' => by_cases hb : b = b' <;> simp [apply0, hb, setBus_bus]
  case dispatch p b' e res =>
    have hres : res ≠ .ok := by intro hc; subst hc; simp at h
    show ((applyDispatch w p b' e res).bus b).hist = _ ∧ ((applyDispatch w p b' e res).bus b).maxh = _
    rw [applyDispatch_rejected w p b' e res hres, dFwd_bus, dPath_bus, dParent_bus]
    exact ⟨rfl, rfl⟩
  case take p b' e =>
    cases p <;> by_cases hb : b = b' <;> simp [apply0, hb, setBus_bus]
  case peBegin p b' e =>
    show ((peOpen (peEnter w p b') p b' e).bus b).hist = _ ∧ ((peOpen (peEnter w p b') p b' e).bus b).maxh = _
    rw [peOpen_bus]
    exact peEnter_hist w p b' b
  case peRecTrip p b' e =>
    cases p <;> simp [apply0, rlBack, setBus_bus] <;> split <;> simp_all
  case hSched p i b' e k =>
    show ((applySched w p i b' e k).bus b).hist = _ ∧ ((applySched w p i b' e k).bus b).maxh = _
    unfold applySched
    cases hA : w.act p <;> simp
  case hStart => simp [apply0]
  case hCancel => simp [apply0]
  case hEnd i out =>
    simp only [apply0]
    split <;> (try split) <;> (try split) <;> simp
  case hFinish i r =>
    simp only [apply0, applyFinish]
    cases hA : w.act (w.inst i).exec <;> simp [hA] <;> split <;> simp [cancelPendingChildren_bus]
  case walWrite p b' e ok =>
    simp only [apply0]
    cases hA : w.act p <;> cases ok <;> by_cases hb : b = b' <;> simp [hA, hb, setBus_bus]
  case peAbort p b' e =>
    cases p <;> simp [apply0, setBus_bus] <;> split <;> simp_all
  case awaitBegin => simp [apply0]
  case pollYield => simp [apply0]
  case awaitEnd => simp [apply0]
  case xAwaitEnd => simp [apply0]
  case readBus => simp [apply0]
  case rlWake b' => by_cases hb : b = b' <;> simp [apply0, hb, setBus_bus]
  case rlPoll b' =>
    simp only [apply0, rlIdleCheck]
    split <;> by_cases hb : b = b' <;> simp [hb, setBus_bus]
  case wiBegin => simp [apply0]
  case wiJoined x => simp only [apply0]; split <;> simp
  case wiIdle x => simp only [apply0]; split <;> simp
  case wiRecheck x =>
    simp only [apply0]
    split
    · rename_i b' _; by_cases hb : b = b' <;> simp [hb, setBus_bus]
    · simp
  case wiEnd => simp [apply0]
  case wiCancel => simp [apply0]
  case expectTimeout x' => simp only [apply0]; split <;> simp
  case expectCancelReq x' => simp only [apply0]; split <;> simp
  case hSkip p_ b_ e_ k_ => simp only [apply0]; split <;> simp
  case stopBegin x b' c => by_cases hb : b = b' <;> simp [apply0, hb, setBus_bus]
  case stopNoop => simp [apply0]
  case rlExit b' =>
    simp only [apply0, rlIdleCheck]
    split <;> (try split) <;> by_cases hb : b = b' <;> simp [hb, setBus_bus]
  case cancelRl b' => by_cases hb : b = b' <;> simp [apply0, hb, setBus_bus]
  case rlCancelled b' => by_cases hb : b = b' <;> simp [apply0, hb, setBus_bus]
  case rlDropExit b' =>
    simp only [apply0, rlIdleCheck]
    split <;> by_cases hb : b = b' <;> simp [hb, setBus_bus]
  case expectBegin x b' key k pred to => by_cases hb : b = b' <;> simp [apply0, hb, setBus_bus]
  case expectEnd x got =>
    simp only [apply0]
    split
    · rename_i b' _ _ _ _ _ _; by_cases hb : b = b' <;> simp [hb, setBus_bus]
    · simp
  case expectCancel x =>
    simp only [apply0]
    split
    · rename_i b' _ _ _ _ _ _; by_cases hb : b = b' <;> simp [hb, setBus_bus]
    · simp

end Bubus

namespace Bubus

theorem histOk_mono_eq (w w' : World) (b : BId) (hh : (w'.bus b).hist = (w.bus b).hist) (hm : (w'.bus b).maxh = (w.bus b).maxh) :
    HistOk w b → HistOk w' b := histOk_of_eq w w' b hh hm

theorem releaseRl_hist (w : World) (b' b : BId) :
    ((releaseRl w b').bus b).hist = (w.bus b).hist ∧ ((releaseRl w b').bus b).maxh = (w.bus b).maxh := by
  unfold releaseRl rlIdleCheck rlBack
  split <;> by_cases hb : b = b' <;> simp [hb, setBus_bus]

theorem peClose_histOk (w : World) (p : Proc) (b : BId) (e : EId) (hI : HistInv w) : HistInv (peClose w p b e) := by
  intro b'
  unfold peClose
  simp only []
  by_cases hb : b' = b
  · subst hb
    have hn : ((parentWalk (markComplete w e) ((markComplete w e).ne + 1) e []).bus b').hist.Nodup := by
      rw [parentWalk_bus, markComplete_bus]; exact (hI b').1
    have := histOk_cleanup (parentWalk (markComplete w e) ((markComplete w e).ne + 1) e []) b' hn
    refine histOk_of_eq _ _ b' ?_ ?_ this <;> simp
  · have h0 : HistOk (parentWalk (markComplete w e) ((markComplete w e).ne + 1) e []) b' := by
      refine histOk_of_eq w _ b' ?_ ?_ (hI b') <;> rw [parentWalk_bus, markComplete_bus]
    have := histOk_cleanup_other _ b b' hb h0
    refine histOk_of_eq _ _ b' ?_ ?_ this <;> simp [hb, setBus_bus]

theorem histInv_step (w w' : World) (l : Label) (hI : HistInv w) (hs : step w l = some w') : HistInv w' := by
  obtain ⟨hg, rfl⟩ := step_some hs
  clear hs hg
  intro b
  show HistOk (wake (apply0 w l)) b
  refine histOk_of_eq (apply0 w l) _ b (by rw [wake_bus]) (by rw [wake_bus]) ?_
  by_cases hw : writesHist l = false
  · obtain ⟨h1, h2⟩ := apply0_hist_frame w l b hw
    exact histOk_of_eq w _ b h1 h2 (hI b)
  · cases l <;> simp [writesHist] at hw
    case newBus b' par maxh wal =>
      simp only [apply0]
      by_cases hb : b = b'
      · subst hb; unfold HistOk; simp
      · refine histOk_of_eq w _ b ?_ ?_ (hI b) <;> simp [hb]
    case dispatch p b' e res =>
      cases res <;> simp at hw
      show HistOk (applyDispatch w p b' e .ok) b
      simp only [applyDispatch]
      by_cases hb : b = b'
      · subst hb
        apply histOk_cleanup
        rw [dChild_bus, dEnqueue_hist, dFwd_bus, dPath_bus, dParent_bus]
        split
        · exact (hI b).1
        · rename_i hc
          rw [List.nodup_append]
          refine ⟨(hI b).1, by simp, ?_⟩
          intro a ha c hc'
          simp at hc'
          subst hc'
          intro hab
          subst hab
          exact hc (by simpa using ha)
      · apply histOk_cleanup_other _ b' b hb
        refine histOk_of_eq w _ b ?_ ?_ (hI b)
        · rw [dChild_bus, dEnqueue_bus_other _ _ _ _ hb, dFwd_bus, dPath_bus, dParent_bus]
        · rw [dChild_bus, dEnqueue_bus_other _ _ _ _ hb, dFwd_bus, dPath_bus, dParent_bus]
    case peEnd p b' e =>
      simp only [apply0]
      have hc := peClose_histOk w p b' e hI b
      cases p
      · rename_i b2
        obtain ⟨h1, h2⟩ := releaseRl_hist (peClose w (.rl b2) b' e) b2 b
        exact histOk_of_eq _ _ b h1 h2 hc
      · exact hc
      · exact hc
    case stopEnd x =>
      simp only [apply0]
      split
      · rename_i b' d clear _
        by_cases hb : b = b'
        · subst hb
          cases clear
          · refine histOk_of_eq w _ b ?_ ?_ (hI b) <;> simp
          · unfold HistOk; simp
        · cases clear <;> (refine histOk_of_eq w _ b ?_ ?_ (hI b) <;> simp [hb, setBus_bus])
      · exact hI b

theorem histInv_init : HistInv ({} : World) := by
  intro b
  unfold HistOk
  exact ⟨List.nodup_nil, fun n _ _ => Nat.zero_le _⟩

theorem histInv_run (w w' : World) (ls : List Label) (hI : HistInv w) (h : run w ls = some w') : HistInv w' := by
  induction ls generalizing w with
  | nil => simp [run] at h; subst h; exact hI
  | cons l ls ih =>
    simp only [run] at h
    split at h
    · rename_i w1 hs1
      exact ih w1 (histInv_step w w1 l hI hs1) h
    · cases h

namespace Thm

/-- **C13, for every reachable state**: whatever the handler programs, the dispatch history, the number of buses and the
    schedule, a bus created with `max_history_size = N ≥ 1` never holds more than `N` events in its history after any
    accepted label (in particular after every dispatch and every processing step), and no event is in a history twice. -/
theorem C13_history_is_bounded_in_every_reachable_state (w : World) (hr : Reachable w) (b : BId) (n : Nat)
    (hm : (w.bus b).maxh = some n) (hpos : 0 < n) :
    (w.bus b).hist.length ≤ n ∧ (w.bus b).hist.Nodup := by
  obtain ⟨ls, hls⟩ := hr
  have := histInv_run {} w ls histInv_init hls b
  exact ⟨this.2 n hm hpos, this.1⟩

end Thm
end Bubus
