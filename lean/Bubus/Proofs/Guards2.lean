/-
  Bubus.Proofs.Guards2 — further consequences of single guards and effects (C01, C09, C10, C11, C18).
-/
import Bubus.Proofs.Stable
namespace Bubus.Thm
open Bubus

/-- **C01 (no skip, local form)**: an activation ends normally only when every handler that was selected for it has been
    scheduled and has finished — none is skipped. -/
theorem C01_activation_ends_only_when_every_selected_handler_finished (w w' : World) (p : Proc) (b : BId) (e : EId)
    (hs : step w (.peEnd p b e) = some w') :
    ∃ A, w.act p = some A ∧ A.bus = b ∧ A.ev = e ∧ A.todo = [] ∧ A.running = [] := by
  obtain ⟨hg, _⟩ := step_some hs
  simp [guard, checks, Checks.ok] at hg
  obtain ⟨h1, h2, _⟩ := hg
  cases hA : w.act p with
  | none => simp [actIs, hA] at h1
  | some A =>
    simp [actIs, hA] at h1
    simp [hA] at h2
    exact ⟨A, rfl, h1.1, h1.2, h2.1, h2.2⟩

/-- **C09**: what `event.event_bus` yields inside a handler is the bus that runs the handler. -/
theorem C09_event_bus_is_the_bus_running_the_handler (w w' : World) (i : IId) (got : Option BId)
    (hs : step w (.readBus i got) = some w') : got = some (w.inst i).bus := by
  obtain ⟨hg, _⟩ := step_some hs
  simp [guard, checks, Checks.ok] at hg
  exact hg.2.2

/-- **C10**: a handler's result becomes a timeout error only if the handler's own deadline has passed (and its body, if it
    had started, was cancelled). -/
theorem C10_timeout_result_only_after_the_own_deadline (w w' : World) (i : IId)
    (hs : step w (.hFinish i .errTimeout) = some w') :
    ((w.inst i).st = .ended ∧ (w.inst i).out = .cancelled ∧ ownExpired w i = true) ∨
    ((w.inst i).st = .scheduled ∧ cancelDueAll w i = true) := by
  obtain ⟨hg, _⟩ := step_some hs
  simp [guard, checks, Checks.ok] at hg
  obtain ⟨_, h1, h2, _⟩ := hg
  rcases h1 with h1 | h1
  · left
    rcases h2 with h2 | h2
    · exact absurd h1 h2
    · cases ho : (w.inst i).out <;> simp [ho] at h2
      exact ⟨h1, rfl, h2⟩
  · right; exact ⟨h1.1, h1.2⟩

/-- **C11**: recording a handler's outcome — error or not — leaves the rest of the activation alone: the handlers still to
    be scheduled are exactly those that were (the remaining handlers of the event still run). -/
theorem C11_recording_an_outcome_keeps_the_remaining_handlers (w : World) (i : IId) (r : Fin) (A : Act)
    (hA : w.act (w.inst i).exec = some A) :
    ∃ A', (apply w (.hFinish i r)).act (w.inst i).exec = some A' ∧ A'.todo = A.todo ∧ A'.bus = A.bus ∧ A'.ev = A.ev := by
  have hcp : ∀ (fuel : Nat) (w : World) (x : EId), (cancelPendingChildren w fuel x).act = w.act := by
    intro fuel
    induction fuel with
    | zero => intros; rfl
    | succ n ih =>
      intro w x; unfold cancelPendingChildren
      generalize (w.ev x).children = cs
      induction cs generalizing w with
      | nil => rfl
      | cons c cs ihc => simp only [List.foldl_cons]; rw [ihc, ih]; simp
  refine ⟨{ A with running := A.running.erase i }, ?_, rfl, rfl, rfl⟩
  simp only [apply, apply0, wake_act, applyFinish, hA]
  split <;> simp [hcp]

/-- **C18**: when `expect()` ends — match, timeout or raising predicate — exactly its temporary subscription is removed
    from its bus and no other bus's registrations change. -/
theorem C18_end_of_expect_removes_exactly_its_subscription (w w' : World) (x : Nat) (got : Option EId)
    (hs : step w (.expectEnd x got) = some w') :
    ∃ b key k d g dead, w.waiter x = .expecting b key k d g dead ∧
      (w'.bus b).handlers = (w.bus b).handlers.eraseP (fun r => r.key == key && r.hid == k) ∧
      ∀ b', b' ≠ b → (w'.bus b').handlers = (w.bus b').handlers := by
  obtain ⟨hg, rfl⟩ := step_some hs
  simp [guard, checks, Checks.ok] at hg
  cases hw : w.waiter x <;> simp [hw] at hg
  rename_i b key k d g dead
  refine ⟨b, key, k, d, g, dead, rfl, ?_, ?_⟩
  · simp [apply, apply0, hw]
  · intro b' hb'
    simp [apply, apply0, hw, hb']

/-- **C18**: the same when the calling task is cancelled. -/
theorem C18_cancelled_expect_removes_exactly_its_subscription (w w' : World) (x : Nat)
    (hs : step w (.expectCancel x) = some w') :
    ∃ b key k d g dead, w.waiter x = .expecting b key k d g dead ∧
      (w'.bus b).handlers = (w.bus b).handlers.eraseP (fun r => r.key == key && r.hid == k) ∧
      ∀ b', b' ≠ b → (w'.bus b').handlers = (w.bus b').handlers := by
  obtain ⟨hg, rfl⟩ := step_some hs
  simp [guard, checks, Checks.ok] at hg
  cases hw : w.waiter x <;> simp [hw] at hg
  rename_i b key k d g dead
  refine ⟨b, key, k, d, g, dead, rfl, ?_, ?_⟩
  · simp [apply, apply0, hw]
  · intro b' hb'
    simp [apply, apply0, hw, hb']

end Bubus.Thm

namespace Bubus

/-- no handler result of the event is pending -/
def noPending (w : World) (c : EId) : Prop := ∀ r ∈ (w.ev c).results, r.status ≠ .pending

theorem cancelPendingChildren_noPending (w : World) (fuel : Nat) (e x : EId) (h : noPending w x) :
    noPending (cancelPendingChildren w fuel e) x := by
  induction fuel generalizing w e with
  | zero => exact h
  | succ n ih =>
    unfold cancelPendingChildren
    generalize (w.ev e).children = cs
    induction cs generalizing w with
    | nil => exact h
    | cons c cs ihc =>
      simp only [List.foldl_cons]
      apply ihc
      apply ih
      intro r hr
      simp only [modEv_eq, setEv_ev] at hr
      split at hr
      · rename_i hx; subst hx
        simp only [List.mem_map] at hr
        obtain ⟨r0, hr0, rfl⟩ := hr
        split
        · simp
        · exact h r0 hr0
      · exact h r hr

/-- after the cleanup of event `e`, none of the events in the list `cs` it iterates over has a pending result -/
theorem cancel_fold_noPending (fuel : Nat) (cs : List EId) (w : World) (c : EId) (hc : c ∈ cs) :
    noPending (cs.foldl (fun w c =>
      let w := w.modEv c fun C =>
        { C with results := C.results.map fun r =>
            if r.status == .pending then { r with status := .error, err := .cancelled } else r }
      cancelPendingChildren w fuel c) w) c := by
  induction cs generalizing w with
  | nil => cases hc
  | cons a t ih =>
    simp only [List.foldl_cons]
    by_cases hat : c ∈ t
    · exact ih _ hat
    · have hca : c = a := by
        cases hc with
        | head => rfl
        | tail _ h => exact absurd h hat
      subst hca
      -- after its own step `c` has no pending result; the rest of the fold keeps that
      have h1 : noPending (cancelPendingChildren (w.modEv c fun C =>
          { C with results := C.results.map fun r =>
              if r.status == .pending then { r with status := .error, err := .cancelled } else r }) fuel c) c := by
        apply cancelPendingChildren_noPending
        intro r hr
        simp only [modEv_eq, setEv_ev, if_true, List.mem_map] at hr
        obtain ⟨r0, _, rfl⟩ := hr
        split
        · simp
        · rename_i hne; simpa using hne
      generalize (cancelPendingChildren (w.modEv c fun C =>
          { C with results := C.results.map fun r =>
              if r.status == .pending then { r with status := .error, err := .cancelled } else r }) fuel c) = w1 at h1
      clear ih hc hat
      induction t generalizing w1 with
      | nil => exact h1
      | cons b t iht =>
        simp only [List.foldl_cons]
        apply iht
        apply cancelPendingChildren_noPending
        intro r hr
        simp only [modEv_eq, setEv_ev] at hr
        split at hr
        · rename_i hx; subst hx
          simp only [List.mem_map] at hr
          obtain ⟨r0, hr0, rfl⟩ := hr
          split
          · simp
          · exact h1 r0 hr0
        · exact h1 r hr

namespace Thm

/-- **C10**: when a handler's timeout is recorded, the handler results of the child events of its event are cancelled
    rather than left pending: afterwards no child has a pending result. -/
theorem C10_timeout_leaves_no_child_result_pending (w : World) (i : IId) (c : EId) :
    let w1 := (w.modEv (w.inst i).ev fun E => E.updRes (w.inst i).bus (w.inst i).hid fun x =>
                { x with status := Fin.errTimeout.status, err := Fin.errTimeout.err })
    c ∈ (w1.ev (w.inst i).ev).children → noPending (apply w (.hFinish i .errTimeout)) c := by
  intro w1 hc
  have hev : (apply w (.hFinish i .errTimeout)).ev =
      (cancelPendingChildren (w1.setInst i { w.inst i with st := .finished }) (w.ne + 1) (w.inst i).ev).ev := by
    simp only [apply, apply0, wake_ev, applyFinish]
    have hcp : ∀ (fuel : Nat) (wa wb : World) (x : EId), wa.ev = wb.ev →
        (cancelPendingChildren wa fuel x).ev = (cancelPendingChildren wb fuel x).ev := by
      intro fuel
      induction fuel with
      | zero => intro wa wb x h; exact h
      | succ n ih =>
        intro wa wb x h
        unfold cancelPendingChildren
        rw [h]
        generalize (wb.ev x).children = cs
        induction cs generalizing wa wb with
        | nil => exact h
        | cons c cs ihc =>
          simp only [List.foldl_cons]
          apply ihc
          apply ih
          simp only [modEv_eq, World.setEv, h]
    cases hA : w.act (w.inst i).exec <;> simp only [] <;> apply hcp <;> rfl
  unfold noPending
  rw [hev]
  have := cancel_fold_noPending (w.ne) ((w1.ev (w.inst i).ev).children) (w1.setInst i { w.inst i with st := .finished }) c hc
  unfold cancelPendingChildren
  exact this

end Thm
end Bubus

namespace Bubus.Thm
open Bubus

/-- **C16**: a run loop whose task has been cancelled (by `stop()` or from outside) begins no further activation … -/
theorem C16_cancelled_run_loop_begins_no_activation (w w' : World) (b' b : BId) (e : EId)
    (hs : step w (.peBegin (.rl b') b e) = some w') : (w.bus b').cancelReq = false := by
  obtain ⟨hg, _⟩ := step_some hs
  simp [guard, checks, Checks.ok] at hg
  exact hg.2.2.2

/-- … and schedules no further handler of the activation it was in: the cancellation terminates it. -/
theorem C16_cancelled_run_loop_schedules_no_handler (w w' : World) (b' : BId) (i : IId) (b : BId) (e : EId) (k : HId)
    (hs : step w (.hSched (.rl b') i b e k) = some w') : (w.bus b').cancelReq = false := by
  obtain ⟨hg, _⟩ := step_some hs
  simp [guard, checks, Checks.ok] at hg
  exact hg.2.2.2.2.2.2.2

end Bubus.Thm
