/-
  Bubus.Proofs.History2 — C13, the rest of the eviction order: a pending event is evicted only after every started
  one, and within one status class eviction is oldest first (by creation time).
-/
import Bubus.Proofs.History
namespace Bubus

theorem byCreated_sorted (w : World) (l : List EId) : (l.mergeSort (byCreated w)).Pairwise (fun a b => byCreated w a b = true) := by
  apply List.pairwise_mergeSort
  · intro a b c hab hbc
    simp only [byCreated, decide_eq_true_eq] at *
    omega
  · intro a b
    simp only [byCreated, Bool.or_eq_true, decide_eq_true_eq]
    omega

/-- in a list sorted by creation time, a prefix that contains `x` contains every strictly older element -/
theorem take_closed_under_older (w : World) (L : List EId) (hs : L.Pairwise (fun a b => byCreated w a b = true))
    (j : Nat) (x y : EId) (hx : x ∈ L.take j) (hy : y ∈ L) (hold : (w.ev y).created < (w.ev x).created) :
    y ∈ L.take j := by
  have hsplit : L = L.take j ++ L.drop j := (List.take_append_drop j L).symm
  rw [hsplit] at hy hs
  rcases List.mem_append.mp hy with h | h
  · exact h
  · have := (List.pairwise_append.mp hs).2.2 x hx y h
    simp only [byCreated, decide_eq_true_eq] at this
    omega

theorem bucket_mem (w : World) (h : List EId) (s : EStatus) (x : EId) :
    x ∈ (h.filter fun e => (w.ev e).status == s).mergeSort (byCreated w) ↔ x ∈ h ∧ (w.ev x).status = s := by
  rw [(List.mergeSort_perm _ _).mem_iff]
  simp

namespace Thm

/-- C13: eviction order, second half — a pending event is evicted only if every started (and, with the theorem in
    `History.lean`, every completed) event of the history is evicted too. -/
theorem C13_pending_evicted_only_after_all_started (w : World) (h : List EId) (n : Nat) (x : EId)
    (hx : x ∈ cleanupVictims w h n) (hs : (w.ev x).status = .pending) :
    ∀ y ∈ h, (w.ev y).status = .started → y ∈ cleanupVictims w h n := by
  intro y hy hys
  unfold cleanupVictims at hx ⊢
  simp only [] at hx ⊢
  have hyS := (bucket_mem w h .started y).mpr ⟨hy, hys⟩
  have hxC : x ∉ (h.filter fun e => (w.ev e).status == .completed).mergeSort (byCreated w) := by
    rw [bucket_mem]; intro hh; rw [hs] at hh; cases hh.2
  have hxS : x ∉ (h.filter fun e => (w.ev e).status == .started).mergeSort (byCreated w) := by
    rw [bucket_mem]; intro hh; rw [hs] at hh; cases hh.2
  generalize (h.filter fun e => (w.ev e).status == .completed).mergeSort (byCreated w) = C at hx hxC ⊢
  generalize (h.filter fun e => (w.ev e).status == .started).mergeSort (byCreated w) = S at hx hxS hyS ⊢
  generalize (h.filter fun e => (w.ev e).status == .pending).mergeSort (byCreated w) = P at hx ⊢
  rw [List.take_append, List.mem_append] at hx ⊢
  rcases hx with hx | hx
  · have := (List.take_sublist _ _).subset hx
    rcases List.mem_append.mp this with h1 | h1
    · exact absurd h1 hxC
    · exact absurd h1 hxS
  · left
    have hk : (C ++ S).length < h.length - n := by
      by_cases hk : (C ++ S).length < h.length - n
      · exact hk
      · have : h.length - n - (C.length + S.length) = 0 := by
          simp only [List.length_append] at hk; omega
        rw [List.length_append, this] at hx
        simp at hx
    rw [List.take_of_length_le (by omega)]
    exact List.mem_append_right _ hyS

/-- C13: oldest first — within one status class, an evicted event takes every strictly older event of that class
    with it. -/
theorem C13_eviction_is_oldest_first_within_a_class (w : World) (h : List EId) (n : Nat) (x y : EId)
    (hx : x ∈ cleanupVictims w h n) (hy : y ∈ h) (hsame : (w.ev y).status = (w.ev x).status)
    (hold : (w.ev y).created < (w.ev x).created) : y ∈ cleanupVictims w h n := by
  unfold cleanupVictims at hx ⊢
  simp only [] at hx ⊢
  have sC := byCreated_sorted w (h.filter fun e => (w.ev e).status == .completed)
  have sS := byCreated_sorted w (h.filter fun e => (w.ev e).status == .started)
  have sP := byCreated_sorted w (h.filter fun e => (w.ev e).status == .pending)
  have mC := fun z => bucket_mem w h .completed z
  have mS := fun z => bucket_mem w h .started z
  have mP := fun z => bucket_mem w h .pending z
  generalize (h.filter fun e => (w.ev e).status == .completed).mergeSort (byCreated w) = C at hx sC mC ⊢
  generalize (h.filter fun e => (w.ev e).status == .started).mergeSort (byCreated w) = S at hx sS mS ⊢
  generalize (h.filter fun e => (w.ev e).status == .pending).mergeSort (byCreated w) = P at hx sP mP ⊢
  rw [List.take_append, List.mem_append, List.take_append, List.mem_append] at hx ⊢
  rcases hx with (hx | hx) | hx
  · -- x among the completed ones taken
    have hxs := ((mC x).mp ((List.take_sublist _ _).subset hx)).2
    exact .inl (.inl (take_closed_under_older w C sC _ x y hx ((mC y).mpr ⟨hy, by rw [hsame, hxs]⟩) hold))
  · have hxs := ((mS x).mp ((List.take_sublist _ _).subset hx)).2
    exact .inl (.inr (take_closed_under_older w S sS _ x y hx ((mS y).mpr ⟨hy, by rw [hsame, hxs]⟩) hold))
  · have hxs := ((mP x).mp ((List.take_sublist _ _).subset hx)).2
    exact .inr (take_closed_under_older w P sP _ x y hx ((mP y).mpr ⟨hy, by rw [hsame, hxs]⟩) hold)

end Thm
end Bubus
