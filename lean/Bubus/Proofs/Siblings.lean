/-
  Bubus.Proofs.Siblings — theorems about the sibling models: retry loop (C19), retry semaphores (C20),
  result recording and accessor views (C12).
-/
import Bubus.Model.Retry
import Bubus.Model.Results
namespace Bubus.Thm
open Bubus

/-! ### C19 -/
open Retry in
theorem retryLoop_calls_le (retries : Nat) (tl : Bool) (atts : List Att) (attempt : Nat) (h : attempt ≤ retries) :
    (retryLoop retries tl attempt atts).calls + attempt ≤ retries + 1 := by
  induction atts generalizing attempt with
  | nil => simp [retryLoop]; omega
  | cons a rest ih =>
    unfold retryLoop
    cases a <;> simp only []
    · omega
    · split
      · have := ih (attempt + 1) (by omega); simp only []; omega
      · simp; omega
    · omega
    · cases tl <;> simp only [if_true, if_false, Bool.false_eq_true]
      · omega
      · split
        · have := ih (attempt + 1) (by omega); simp only []; omega
        · simp; omega
    · omega

/-- C19: the wrapped function is called at most `retries + 1` times, whatever the attempts do. -/
theorem C19_at_most_retries_plus_one_calls (retries : Nat) (tl : Bool) (atts : List Retry.Att) :
    (Retry.run retries tl atts).calls ≤ retries + 1 := by
  have := retryLoop_calls_le retries tl atts 0 (Nat.zero_le _)
  simpa [Retry.run] using this

/-- C19: a successful first attempt is returned at once: one call, no wait. -/
theorem C19_first_success_returns_at_once (retries : Nat) (tl : Bool) (v : Nat) (rest : List Retry.Att) :
    Retry.run retries tl (.ok v :: rest) = { calls := 1, waits := [], final := .ret v } := by
  simp [Retry.run, Retry.retryLoop]

/-- C19: an exception not listed in `retry_on` propagates immediately, without another attempt. -/
theorem C19_unlisted_exception_propagates_at_once (retries : Nat) (tl : Bool) (x : Nat) (rest : List Retry.Att) :
    Retry.run retries tl (.unlisted x :: rest) = { calls := 1, waits := [], final := .raised x } := by
  simp [Retry.run, Retry.retryLoop]

/-- C19: cancellation of the caller is never swallowed or retried. -/
theorem C19_cancellation_is_not_retried (retries : Nat) (tl : Bool) (rest : List Retry.Att) :
    Retry.run retries tl (.cancelled :: rest) = { calls := 1, waits := [], final := .cancelled } := by
  simp [Retry.run, Retry.retryLoop]

open Retry in
theorem retryLoop_calls_pos (retries : Nat) (tl : Bool) (atts : List Att) (attempt : Nat)
    (hlen : retries + 1 ≤ atts.length + attempt) (h : attempt ≤ retries) :
    1 ≤ (retryLoop retries tl attempt atts).calls := by
  cases atts with
  | nil => simp at hlen; omega
  | cons a rest =>
    unfold retryLoop
    cases a <;> simp only []
    · omega
    · split <;> simp
    · omega
    · cases tl <;> simp only [if_true, if_false, Bool.false_eq_true]
      · omega
      · split <;> simp
    · omega

open Retry in
theorem retryLoop_waits (retries : Nat) (tl : Bool) (atts : List Att) (attempt : Nat)
    (hlen : retries + 1 ≤ atts.length + attempt) (h : attempt ≤ retries) :
    (retryLoop retries tl attempt atts).waits =
      (List.range ((retryLoop retries tl attempt atts).calls - 1)).map (· + attempt) := by
  induction atts generalizing attempt with
  | nil => simp at hlen; omega
  | cons a rest ih =>
    have key : ∀ (hlt : attempt < retries),
        attempt :: (retryLoop retries tl (attempt + 1) rest).waits =
          (List.range ((retryLoop retries tl (attempt + 1) rest).calls + 1 - 1)).map (· + attempt) := by
      intro hlt
      have hl' : retries + 1 ≤ rest.length + (attempt + 1) := by simp at hlen; omega
      have hpos := retryLoop_calls_pos retries tl rest (attempt + 1) hl' (by omega)
      rw [ih (attempt + 1) hl' (by omega)]
      have : (retryLoop retries tl (attempt + 1) rest).calls + 1 - 1 =
          ((retryLoop retries tl (attempt + 1) rest).calls - 1) + 1 := by omega
      rw [this, List.range_succ_eq_map]
      simp [Function.comp_def, Nat.add_assoc, Nat.add_comm 1]
    unfold retryLoop
    cases a <;> simp only []
    · simp
    · split
      · rename_i hlt; simpa using key hlt
      · simp
    · simp
    · cases tl <;> simp only [if_true, if_false, Bool.false_eq_true]
      · simp
      · split
        · rename_i hlt; simpa using key hlt
        · simp
    · simp

/-- C19: the wait before attempt k+1 uses exponent k: the waits are `wait * backoff ** 0, … ** 1, …`, one between
    each pair of consecutive calls (for any outcome list that covers all `retries + 1` possible attempts). -/
theorem C19_wait_exponents_are_0_1_2 (retries : Nat) (tl : Bool) (atts : List Retry.Att)
    (hlen : retries + 1 ≤ atts.length) :
    (Retry.run retries tl atts).waits = List.range ((Retry.run retries tl atts).calls - 1) := by
  have := retryLoop_waits retries tl atts 0 (by simpa using hlen) (Nat.zero_le _)
  simpa [Retry.run] using this

/-! ### C12 -/
open Results

/-- C12: with a declared type, a value pydantic rejects ends as an error result holding no value. -/
theorem C12_nonconforming_value_is_an_error_without_value (r : Res) (ret : Val)
    (hn : ret.isNone = false) (he : ret.isEvent = false) (hx : ret.isExc = false) :
    (recordReturn r true ret none).status = .error ∧ (recordReturn r true ret none).value = .none := by
  cases ret <;> simp_all [recordReturn, Val.isNone, Val.isEvent, Val.isExc]

/-- C12: with a declared type, a completed result holds pydantic's validated value, or None, or a forwarded event. -/
theorem C12_completed_value_conforms (r : Res) (ret : Val) (vd : Option Val)
    (hc : (recordReturn r true ret vd).status = .completed) :
    (recordReturn r true ret vd).value = .none ∨ (recordReturn r true ret vd).value.isEvent = true ∨
      vd = some (recordReturn r true ret vd).value := by
  cases ret <;> cases vd <;> simp_all [recordReturn, Val.isNone, Val.isEvent, Val.isExc]

/-- C12: without a declared type the returned value is stored unchanged (an exception object aside, which is an error). -/
theorem C12_untyped_value_is_stored_unchanged (r : Res) (ret : Val) (vd : Option Val) (hx : ret.isExc = false) :
    (recordReturn r false ret vd).value = ret ∧ (recordReturn r false ret vd).status = .completed := by
  cases ret <;> simp_all [recordReturn, Val.isExc]

/-- C12: whatever the flags, the accessors never invent, drop-and-reorder or duplicate: the included results are a
    sublist of the recorded results (same order), and exactly those the `include` filter admits. -/
theorem C12_filtered_is_the_include_filter (rs : List Res) (incl : Res → Bool) (ra rn : Bool) (l : List Res)
    (h : filtered rs incl ra rn = .ok l) : l = rs.filter incl := by
  unfold filtered at h
  simp only [] at h
  split at h
  · cases h
  · split at h
    · cases h
    · injection h with h; exact h.symm

theorem C12_views_are_sublists_in_handler_order (rs : List Res) (incl : Res → Bool) (ra rn : Bool) (l : List Res)
    (h : filtered rs incl ra rn = .ok l) : l.Sublist rs := by
  rw [C12_filtered_is_the_include_filter rs incl ra rn l h]
  exact List.filter_sublist

/-- C12: `event_results_list` is the list of values of the included results, in handler order. -/
theorem C12_results_list_is_map_value (rs : List Res) (incl : Res → Bool) (ra rn : Bool) (l : List Val)
    (h : resultsList rs incl ra rn = .ok l) : l = (rs.filter incl).map (·.value) := by
  unfold resultsList at h
  cases hf : filtered rs incl ra rn with
  | error e => simp [hf, Except.map] at h
  | ok l' =>
    simp [hf, Except.map] at h
    rw [← h, C12_filtered_is_the_include_filter rs incl ra rn l' hf]

/-- C12: with `raise_if_any`, the first recorded error (in handler order) is what is raised. -/
theorem C12_raise_if_any_raises_the_first_error (rs : List Res) (incl : Res → Bool) (rn : Bool) (e : Res)
    (he : (rs.filter isErrorResult).head? = some e) (x : Err) (hx : e.err = some x) :
    filtered rs incl true rn = .error x := by
  unfold filtered
  simp [he, hx]

/-- C12: without `raise_if_any`, errors never make an accessor raise (only an empty selection with `raise_if_none` does). -/
theorem C12_no_raise_without_raise_if_any (rs : List Res) (incl : Res → Bool) (rn : Bool)
    (hne : (rs.filter incl) ≠ []) : filtered rs incl false rn = .ok (rs.filter incl) := by
  unfold filtered
  cases rn <;> simp [hne]

end Bubus.Thm
