/-
  Bubus.Proofs.Guards3 — two more guard-level facts the monitors of round 9 rely on.
-/
import Bubus.Proofs.Guards
namespace Bubus
namespace Thm

/-- **C02** (a run loop holds at most one event): a run loop takes an event from its queue only while it is polling - not
    while it holds a taken event it has not begun, and not while it is processing one. -/
theorem C02_a_run_loop_takes_an_event_only_while_it_polls (w w' : World) (b b' : BId) (e : EId)
    (hs : step w (.take (.rl b') b e) = some w') : b' = b ∧ (w.bus b).rl = .polling := by
  obtain ⟨hg, _⟩ := step_some hs
  simp [guard, checks, Checks.ok] at hg
  exact ⟨hg.2.2.1, hg.2.2.2⟩

/-- **C14 / C01** (no spurious drop): an event taken for processing is refused by the recursion guard only where the documented
    rule says so (`recursionTrips`: one of its handlers already has a result on more than `recursionLimit` of its ancestors). -/
theorem C14_the_recursion_guard_trips_only_by_its_rule (w w' : World) (p : Proc) (b : BId) (e : EId)
    (hs : step w (.peRecTrip p b e) = some w') : recursionTrips w b e = true := by
  obtain ⟨hg, _⟩ := step_some hs
  simp [guard, checks, Checks.ok] at hg
  exact hg.2.2.1

end Thm
end Bubus
