/-
  Bubus.Proofs.Pure — theorems about the synchronous functions and single-step effects (frame properties).
-/
import Bubus.Proofs.Guards
namespace Bubus

theorem markComplete_ev_other (w : World) (e x : EId) (h : x ≠ e) : (markComplete w e).ev x = w.ev x := by
  unfold markComplete
  simp only []
  repeat' split
  all_goals simp [h]

theorem markComplete_bus (w : World) (e : EId) : (markComplete w e).bus = w.bus := by
  unfold markComplete
  simp only []
  repeat' split
  all_goals simp

theorem markComplete_results (w : World) (e x : EId) : ((markComplete w e).ev x).results = (w.ev x).results := by
  by_cases h : x = e
  · subst h
    unfold markComplete
    simp only []
    repeat' split
    all_goals simp
  · rw [markComplete_ev_other w e x h]

theorem markComplete_signal_mono (w : World) (e x : EId) (h : (w.ev x).signal = true) :
    ((markComplete w e).ev x).signal = true := by
  by_cases hx : x = e
  · subst hx
    unfold markComplete
    simp only []
    repeat' split
    all_goals simp_all
  · rw [markComplete_ev_other w e x hx]; exact h

theorem parentWalk_signal_mono (w : World) (fuel : Nat) (e : EId) (seen : List EId) (x : EId)
    (h : (w.ev x).signal = true) : ((parentWalk w fuel e seen).ev x).signal = true := by
  induction fuel generalizing w e seen with
  | zero => simpa [parentWalk] using h
  | succ n ih =>
    unfold parentWalk
    split
    · exact h
    · split
      · exact h
      · split
        · exact ih _ _ _ (markComplete_signal_mono w _ x h)
        · exact h

theorem parentWalk_results (w : World) (fuel : Nat) (e : EId) (seen : List EId) (x : EId) :
    ((parentWalk w fuel e seen).ev x).results = (w.ev x).results := by
  induction fuel generalizing w e seen with
  | zero => simp [parentWalk]
  | succ n ih =>
    unfold parentWalk
    split
    · rfl
    · split
      · rfl
      · split
        · rw [ih, markComplete_results]
        · rfl

namespace Thm

/-- C08: the completion signal, once set, is never unset by the completion check … -/
theorem C08_signal_is_monotone_markComplete (w : World) (e x : EId) (h : (w.ev x).signal = true) :
    ((markComplete w e).ev x).signal = true := markComplete_signal_mono w e x h

/-- … nor by the parent walk at the end of processing. -/
theorem C08_signal_is_monotone_parentWalk (w : World) (fuel : Nat) (e : EId) (seen : List EId) (x : EId)
    (h : (w.ev x).signal = true) : ((parentWalk w fuel e seen).ev x).signal = true :=
  parentWalk_signal_mono w fuel e seen x h

/-- C08 / C03: marking events complete and walking up the parent chain never touch any handler result. -/
theorem C08_completion_marking_leaves_results_alone (w : World) (fuel : Nat) (e : EId) (seen : List EId) (x : EId) :
    ((parentWalk (markComplete w e) fuel e seen).ev x).results = (w.ev x).results := by
  rw [parentWalk_results, markComplete_results]

/-- C07: the path stays duplicate-free when a bus is appended by `dispatch`. -/
theorem C07_path_stays_duplicate_free (w : World) (b : BId) (e : EId) (h : (w.ev e).path.Nodup) :
    ((dPath w b e).ev e).path.Nodup := by
  rw [dPath_path_same]
  split
  · exact h
  · rename_i hc
    rw [List.nodup_append]
    refine ⟨h, by simp, ?_⟩
    intro a ha c hc'
    simp at hc'
    subst hc'
    intro hab
    subst hab
    exact hc (by simpa using ha)

/-- C07: a forwarding handler whose target bus is already in the event's path is never selected. -/
theorem C07_forward_to_visited_bus_is_filtered (w : World) (b : BId) (e : EId) (r : Reg) (t : BId)
    (hk : r.kind = .forward t)
    (hr : r ∈ (matching (w.bus b) (w.ev e).etype).filter (passesLoopFilter (w.ev e) b)) :
    t ∉ (w.ev e).path := by
  simp [passesLoopFilter, hk] at hr
  exact hr.2.1

/-- C01: a handler is selected only if the event has no result yet for it on this bus (pending, started or terminal):
    an existing result suppresses a second run, also when the same event is dispatched to the bus again. -/
theorem C01_selected_handlers_have_no_result_yet (w : World) (b : BId) (e : EId) (r : Reg)
    (hr : r ∈ (matching (w.bus b) (w.ev e).etype).filter (passesLoopFilter (w.ev e) b)) :
    (w.ev e).hasRes b r.hid = false := by
  simp [passesLoopFilter] at hr
  exact hr.2.2

/-- C01: scheduling a handler requires its result to be pending (a started or finished handler is never scheduled again). -/
theorem C01_scheduling_requires_a_pending_result (w w' : World) (p : Proc) (i : IId) (b : BId) (e : EId) (k : HId)
    (h : step w (.hSched p i b e k) = some w') :
    ∃ r, (w.ev e).getRes? b k = some r ∧ r.status = .pending := by
  obtain ⟨hg, _⟩ := step_some h
  simp [guard, checks, Checks.ok] at hg
  obtain ⟨_, _, _, _, _, _, hp, _⟩ := hg
  cases hr : (w.ev e).getRes? b k with
  | none => simp [hr] at hp
  | some r => exact ⟨r, rfl, by simpa [hr] using hp⟩

/-- C17: a successful WAL write appends exactly the processed event to that bus's log; a failed one changes no log. -/
theorem C17_wal_write_appends_one_line (w : World) (p : Proc) (b : BId) (e : EId) (ok : Bool) :
    ((apply w (.walWrite p b e ok)).bus b).walLines = if ok then (w.bus b).walLines ++ [e] else (w.bus b).walLines := by
  simp only [apply, apply0, wake_bus]
  cases ok <;> cases hA : w.act p <;> simp [hA]

/-- C17: a WAL write, failing or not, does not touch any event (results, status, signal, lineage). -/
theorem C17_wal_write_does_not_touch_events (w : World) (p : Proc) (b : BId) (e : EId) (ok : Bool) :
    (apply w (.walWrite p b e ok)).ev = w.ev := by
  simp only [apply, apply0, wake_ev]
  cases ok <;> cases hA : w.act p <;> simp [hA]

end Thm
end Bubus
