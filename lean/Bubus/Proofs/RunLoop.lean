/-
  Bubus.Proofs.RunLoop — C16: a run loop that has exited (stopped, or its task cancelled) is out of the game, as an
  invariant of all reachable states: an open run-loop activation exists only while that bus's run loop is in its
  `processing` state. So from the moment the run loop is `exited` it begins no activation and starts no handler, in any
  later state of any run, until a new run loop is created for the bus.
-/
import Bubus.Proofs.NoSkip
namespace Bubus

/-- labels that write some bus's run-loop state -/
def writesRl : Label → Bool
  | .newBus .. | .rlCreate .. | .rlExit .. | .rlCancelled .. | .rlDropExit .. => true
  | .take (.rl _) .. | .peBegin (.rl _) .. | .peRecTrip (.rl _) .. | .peEnd (.rl _) .. | .peAbort (.rl _) .. => true
  | _ => false

theorem cleanup_rl (w : World) (b b' : BId) : ((cleanup w b).bus b').rl = (w.bus b').rl := by
  by_cases hb : b' = b <;> simp [cleanup, hb, setBus_bus]

theorem dEnqueue_rl (w : World) (b : BId) (e : EId) (b' : BId) : ((dEnqueue w b e).bus b').rl = (w.bus b').rl := by
  by_cases hb : b' = b <;> simp [dEnqueue, hb, setBus_bus]

theorem applyDispatch_rl (w : World) (p : Proc) (b : BId) (e : EId) (res : DRes) (b' : BId) :
    ((applyDispatch w p b e res).bus b').rl = (w.bus b').rl := by
  unfold applyDispatch
  cases res <;> simp only [] <;>
    first
    | (rw [cleanup_rl, dChild_bus, dEnqueue_rl, dFwd_bus, dPath_bus, dParent_bus])
    | (rw [dFwd_bus, dPath_bus, dParent_bus])

theorem peClose_rl (w : World) (p : Proc) (b : BId) (e : EId) (b' : BId) : ((peClose w p b e).bus b').rl = (w.bus b').rl := by
  unfold peClose
  by_cases hb : b' = b
  · subst hb; simp [setBus_bus, cleanup_rl, parentWalk_bus, markComplete_bus]
  · simp [setBus_bus, hb, cleanup_rl, parentWalk_bus, markComplete_bus]

/-- all other labels leave every bus's run-loop state alone -/
theorem apply0_rl_frame (w : World) (l : Label) (b : BId) (h : writesRl l = false) :
    ((apply0 w l).bus b).rl = (w.bus b).rl := by
  cases l <;> simp [writesRl] at h
  case on b' key k kind => by_cases hb : b = b' <;> simp [apply0, hb, setBus_bus]
  case off b' key k => by_cases hb : b = b' <;> simp [apply0, hb, setBus_bus]
  case newEvent => simp [apply0]
  case tick => simp [apply0]
  case dispatch p b' e res => exact applyDispatch_rl w p b' e res b
  case take p b' e =>
    cases p <;> simp [writesRl] at h <;> by_cases hb : b = b' <;> simp [apply0, hb, setBus_bus]
  case peBegin p b' e =>
    show ((peOpen (peEnter w p b') p b' e).bus b).rl = _
    rw [peOpen_bus]
    cases p <;> simp [writesRl] at h <;> simp [peEnter]
  case peRecTrip p b' e =>
    cases p <;> simp [writesRl] at h <;> simp [apply0]
  case hSched p i b' e k =>
    show ((applySched w p i b' e k).bus b).rl = _
    unfold applySched
    cases hA : w.act p <;> simp
  case hStart => simp [apply0]
  case hCancel => simp [apply0]
  case hEnd i out =>
    simp only [apply0]
    split <;> (try split) <;> (try split) <;> simp
  case hFinish i r =>
    simp only [apply0, applyFinish]
    cases hA : w.act (w.inst i).exec <;> simp [hA] <;> split <;> simp [cancelPendingChildren_bus]
  case walWrite p b' e ok =>
    simp only [apply0]
    cases hA : w.act p <;> cases ok <;> by_cases hb : b = b' <;> simp [hA, hb, setBus_bus]
  case peEnd p b' e =>
    cases p <;> simp [writesRl] at h <;> simp only [apply0] <;> exact peClose_rl _ _ _ _ _
  case peAbort p b' e =>
    cases p <;> simp [writesRl] at h <;> simp [apply0]
  case awaitBegin => simp [apply0]
  case pollYield => simp [apply0]
  case awaitEnd => simp [apply0]
  case xAwaitEnd => simp [apply0]
  case readBus => simp [apply0]
  case rlWake b' => by_cases hb : b = b' <;> simp [apply0, hb, setBus_bus]
  case rlPoll b' =>
    simp only [apply0, rlIdleCheck]
    split <;> by_cases hb : b = b' <;> simp [hb, setBus_bus]
  case wiBegin => simp [apply0]
  case wiJoined x => simp only [apply0]; split <;> simp
  case wiIdle x => simp only [apply0]; split <;> simp
  case wiRecheck x =>
    simp only [apply0]
    split
    · rename_i b' _; by_cases hb : b = b' <;> simp [hb, setBus_bus]
    · simp
  case wiEnd => simp [apply0]
  case wiCancel => simp [apply0]
  case expectTimeout x' => simp only [apply0]; split <;> simp
  case expectCancelReq x' => simp only [apply0]; split <;> simp
  case hSkip p_ b_ e_ k_ => simp only [apply0]; split <;> simp
  case stopBegin x b' c => by_cases hb : b = b' <;> simp [apply0, hb, setBus_bus]
  case stopNoop => simp [apply0]
  case stopEnd x =>
    simp only [apply0]
    split
    · rename_i b' _ clear _; cases clear <;> by_cases hb : b = b' <;> simp [hb, setBus_bus]
    · simp
  case cancelRl b' => by_cases hb : b = b' <;> simp [apply0, hb, setBus_bus]
  case expectBegin x b' key k pred to => by_cases hb : b = b' <;> simp [apply0, hb, setBus_bus]
  case expectEnd x got =>
    simp only [apply0]
    split
    · rename_i b' _ _ _ _ _ _; by_cases hb : b = b' <;> simp [hb, setBus_bus]
    · simp
  case expectCancel x =>
    simp only [apply0]
    split
    · rename_i b' _ _ _ _ _ _; by_cases hb : b = b' <;> simp [hb, setBus_bus]
    · simp


theorem apply0_nb (w : World) (l : Label) : (apply0 w l).nb = match l with | .newBus .. => w.nb + 1 | _ => w.nb := by
  cases l
  case hSched p i b e k => show (applySched w p i b e k).nb = _; unfold applySched; cases hA : w.act p <;> simp
  case dispatch p b e res =>
    show (applyDispatch w p b e res).nb = w.nb
    unfold applyDispatch
    have h1 : ∀ w' : World, (dFwd w' p).nb = w'.nb := by intro w'; unfold dFwd; split <;> (try split) <;> simp
    have h2 : ∀ w' : World, (dPath w' b e).nb = w'.nb := by intro w'; unfold dPath; split <;> simp
    have h3 : ∀ w' : World, ∀ c, (dParent w' c e).nb = w'.nb := by intro w' c; unfold dParent; split <;> (try split) <;> simp
    have h4 : ∀ w' : World, ∀ c, (dChild w' c e).nb = w'.nb := by intro w' c; unfold dChild; split <;> (try split) <;> simp
    cases res <;> simp [cleanup, dEnqueue, h1, h2, h3, h4]
  case peBegin p b e =>
    show (peOpen (peEnter w p b) p b e).nb = w.nb
    unfold peOpen
    simp only []
    have hm : ∀ (w : World) (x : EId), (markComplete w x).nb = w.nb := by
      intro w x; unfold markComplete; simp only []; repeat' split
      all_goals simp
    split <;> cases p <;> simp [hm, peEnter]
  case peEnd p b e =>
    have hm : ∀ (w : World) (x : EId), (markComplete w x).nb = w.nb := by
      intro w x; unfold markComplete; simp only []; repeat' split
      all_goals simp
    have hp : ∀ (fuel : Nat) (w : World) (x : EId) (seen : List EId), (parentWalk w fuel x seen).nb = w.nb := by
      intro fuel
      induction fuel with
      | zero => intros; rfl
      | succ n ih =>
        intro w x seen; unfold parentWalk
        split
        · rfl
        · split
          · rfl
          · split
            · rw [ih, hm]
            · rfl
    have hc : (peClose w p b e).nb = w.nb := by unfold peClose; simp [cleanup, hp, hm]
    have hr : ∀ (w : World) (b : BId), (releaseRl w b).nb = w.nb := by
      intro w b; unfold releaseRl rlIdleCheck rlBack; split <;> simp
    simp only [apply0]
    cases p <;> simp [hr, hc]
  case hFinish i r =>
    show (applyFinish w i r).nb = w.nb
    have hcp : ∀ (fuel : Nat) (w : World) (x : EId), (cancelPendingChildren w fuel x).nb = w.nb := by
      intro fuel
      induction fuel with
      | zero => intros; rfl
      | succ n ih =>
        intro w x; unfold cancelPendingChildren
        generalize (w.ev x).children = cs
        induction cs generalizing w with
        | nil => rfl
        | cons c cs ihc => simp only [List.foldl_cons]; rw [ihc, ih]; simp
    unfold applyFinish
    simp only []
    cases hA : w.act (w.inst i).exec <;> simp only [] <;> split <;> simp [hcp]
  all_goals first
    | rfl
    | (simp only [apply0, rlIdleCheck, rlBack]; (repeat' split) <;> (try simp))

/-- an open run-loop activation exists only while that run loop is `processing`; buses that do not exist yet have no run loop -/
structure RInv (w : World) : Prop where
  act : ∀ b, (w.act (.rl b)).isSome = true → (w.bus b).rl = .processing
  fresh : ∀ b, w.nb ≤ b → (w.bus b).rl = .none

theorem RInv.lt_nb (w : World) (hI : RInv w) (b : BId) (h : (w.bus b).rl ≠ .none) : b < w.nb := by
  by_cases hb : b < w.nb
  · exact hb
  · exact absurd (hI.fresh b (Nat.le_of_not_lt hb)) h

/-- one bus's run loop changes, everything else this invariant reads stays -/
theorem rinv_update (w w' : World) (b0 : BId) (hI : RInv w) (hnb : w'.nb = w.nb)
    (hrl : ∀ b', b' ≠ b0 → (w'.bus b').rl = (w.bus b').rl)
    (hact : ∀ b', b' ≠ b0 → (w'.act (.rl b')).isSome = (w.act (.rl b')).isSome)
    (hb0 : b0 < w.nb) (h0 : (w'.act (.rl b0)).isSome = true → (w'.bus b0).rl = .processing) : RInv w' := by
  refine ⟨?_, ?_⟩
  · intro b hb
    by_cases h : b = b0
    · subst h; exact h0 hb
    · rw [hrl b h]; rw [hact b h] at hb; exact hI.act b hb
  · intro b hb
    rw [hnb] at hb
    have h : b ≠ b0 := fun h => by subst h; exact absurd hb0 (Nat.not_lt.mpr hb)
    rw [hrl b h]; exact hI.fresh b hb

/-- the labels that do not open or close a run-loop activation -/
def keepsActRl : Label → Bool
  | .peBegin (.rl _) .. | .peEnd (.rl _) .. | .peAbort (.rl _) .. => false
  | _ => true

/-- the activations of the run loops are touched by no label but these -/
theorem apply0_actRl_frame (w : World) (l : Label) (b : BId) (hg : guard w l = true) (h : keepsActRl l = true) :
    ((apply0 w l).act (.rl b)).isSome = (w.act (.rl b)).isSome := by
  by_cases hw : writesAct l = false
  · rw [apply0_act_frame w l hw]
  · cases l <;> simp [writesAct] at hw
    case peBegin p b' e =>
      cases p <;> simp [keepsActRl] at h
      all_goals (simp only [apply0]; rw [peOpen_act_other _ _ _ _ _ (by intro hc; cases hc), peEnter_act])
    case hSched p i b' e k =>
      simp only [apply0]
      by_cases hp : Proc.rl b = p
      · subst hp
        have hgg := hg
        simp [guard, checks, Checks.ok, actIs] at hgg
        cases hA : w.act (.rl b) with
        | none => simp [hA] at hgg
        | some A => rw [applySched_act_same _ _ _ _ _ _ A hA]; rfl
      · rw [applySched_act_other _ _ _ _ _ _ _ hp]
    case hFinish i r =>
      simp only [apply0]
      by_cases hp : Proc.rl b = (w.inst i).exec
      · have hgg := hg
        simp [guard, checks, Checks.ok] at hgg
        cases hA : w.act (w.inst i).exec with
        | none => simp [hA] at hgg
        | some A => rw [hp, applyFinish_act_same _ _ _ A hA, hA]; rfl
      · rw [applyFinish_act_other _ _ _ _ hp]
    case walWrite p b' e ok =>
      simp only [apply0]
      cases hA : w.act p <;> cases ok <;> by_cases hp : Proc.rl b = p <;> simp [hp, hA]
      all_goals (subst hp; simp [hA])
    case peEnd p b' e =>
      cases p <;> simp [keepsActRl] at h
      all_goals (simp only [apply0]; rw [peClose_act]; simp)
    case peAbort p b' e =>
      cases p <;> simp [keepsActRl] at h
      all_goals simp [apply0]
    case hSkip p b' e k =>
      simp only [apply0]
      cases hA : w.act p <;> by_cases hp : Proc.rl b = p <;> simp [hp, hA]
      all_goals (subst hp; simp [hA])


theorem releaseRl_bus_other (w : World) (b b' : BId) (h : b' ≠ b) : ((releaseRl w b).bus b').rl = (w.bus b').rl := by
  unfold releaseRl rlIdleCheck rlBack; split <;> simp [setBus_bus, h]

theorem rinv_apply0 (w : World) (l : Label) (hg : guard w l = true) (hI : RInv w) : RInv (apply0 w l) := by
  by_cases hw : writesRl l = false
  · -- the run-loop states stay; the run-loop activations stay (the three labels that write one also write the state)
    have hactw : keepsActRl l = true := by
      cases l <;> simp [writesRl, keepsActRl] at hw ⊢
      all_goals (rename_i p _ _; cases p <;> simp [writesRl, keepsActRl] at hw ⊢)
    have hnb : (apply0 w l).nb = w.nb := by
      rw [apply0_nb]; cases l <;> simp [writesRl] at hw ⊢
    refine ⟨?_, ?_⟩
    · intro b hb
      rw [apply0_rl_frame w l b hw]
      rw [apply0_actRl_frame w l b hg hactw] at hb
      exact hI.act b hb
    · intro b hb
      rw [hnb] at hb
      rw [apply0_rl_frame w l b hw]; exact hI.fresh b hb
  · cases l <;> simp [writesRl] at hw
    case newBus b par maxh wal =>
      have hgg := hg
      simp [guard, checks, Checks.ok] at hgg
      subst hgg
      refine ⟨?_, ?_⟩
      · intro b hb
        simp only [apply0] at hb ⊢
        by_cases h : b = w.nb
        · subst h
          simp at hb
          have := hI.act _ hb
          rw [hI.fresh _ (Nat.le_refl _)] at this
          cases this
        · simp [setBus_bus, h] at hb ⊢
          exact hI.act b hb
      · intro b hb
        simp only [apply0] at hb ⊢
        simp at hb
        have h : b ≠ w.nb := by omega
        simp [setBus_bus, h]
        exact hI.fresh b (by omega)
    case rlCreate b =>
      have hgg := hg
      simp [guard, checks, Checks.ok] at hgg
      obtain ⟨hlt, _, hrl⟩ := hgg
      refine rinv_update w _ b hI (by rw [apply0_nb]) ?_ ?_ hlt ?_
      · intro b' hb'; simp [apply0, setBus_bus, hb']
      · intro b' _; simp [apply0]
      · intro hb
        simp [apply0] at hb
        have := hI.act b hb
        rcases hrl with h | h <;> rw [h] at this <;> cases this
    case take p b e =>
      cases p <;> simp [writesRl] at hw
      rename_i b0
      have hgg := hg
      simp [guard, checks, Checks.ok] at hgg
      obtain ⟨_, _, hb0, hpoll⟩ := hgg
      subst hb0
      have hlt : b0 < w.nb := hI.lt_nb w b0 (by rw [hpoll]; intro h; cases h)
      refine rinv_update w _ b0 hI (by rw [apply0_nb]) ?_ ?_ hlt ?_
      · intro b' hb'; simp [apply0, setBus_bus, hb']
      · intro b' _; simp [apply0]
      · intro hb
        simp [apply0] at hb
        have := hI.act b0 hb
        rw [hpoll] at this; cases this
    case peBegin p b e =>
      cases p <;> simp [writesRl] at hw
      rename_i b0
      have hgg := hg
      simp [guard, checks, Checks.ok] at hgg
      obtain ⟨_, ⟨⟨⟨hb0, htook⟩, _⟩, _⟩, _⟩ := hgg
      subst hb0
      have hlt : b0 < w.nb := hI.lt_nb w b0 (by rw [htook]; intro h; cases h)
      refine rinv_update w _ b0 hI (by rw [apply0_nb]) ?_ ?_ hlt ?_
      · intro b' hb'
        show ((peOpen (peEnter w (.rl b0) b0) (.rl b0) b0 e).bus b').rl = _
        rw [peOpen_bus]; simp [peEnter, setBus_bus, hb']
      · intro b' hb'
        simp only [apply0]
        rw [peOpen_act_other _ _ _ _ _ (by intro hc; injection hc with hc; exact hb' hc), peEnter_act]
      · intro _
        show ((peOpen (peEnter w (.rl b0) b0) (.rl b0) b0 e).bus b0).rl = _
        rw [peOpen_bus]; simp [peEnter]
    case peRecTrip p b e =>
      cases p <;> simp [writesRl] at hw
      rename_i b0
      have hgg := hg
      simp [guard, checks, Checks.ok] at hgg
      obtain ⟨hnone, ⟨⟨⟨hb0, htook⟩, _⟩, _⟩, _⟩ := hgg
      subst hb0
      have hlt : b0 < w.nb := hI.lt_nb w b0 (by rw [htook]; intro h; cases h)
      refine rinv_update w _ b0 hI (by rw [apply0_nb]) ?_ ?_ hlt ?_
      · intro b' hb'; simp [apply0, rlBack, setBus_bus, hb']
      · intro b' _; simp [apply0, rlBack]
      · intro hb
        simp [apply0, rlBack] at hb
        rw [hnone] at hb; cases hb
    case peEnd p b e =>
      cases p <;> simp [writesRl] at hw
      rename_i b0
      have hgg := hg
      simp [guard, checks, Checks.ok, actIs] at hgg
      have hsome : (w.act (.rl b0)).isSome = true := by
        cases hA : w.act (.rl b0) with
        | none => simp [hA] at hgg
        | some A => rfl
      have hproc := hI.act b0 hsome
      have hlt : b0 < w.nb := hI.lt_nb w b0 (by rw [hproc]; intro h; cases h)
      refine rinv_update w _ b0 hI (by rw [apply0_nb]) ?_ ?_ hlt ?_
      · intro b' hb'
        simp only [apply0]
        rw [releaseRl_bus_other _ _ _ hb', peClose_rl]
      · intro b' hb'
        simp only [apply0]
        rw [releaseRl_act, peClose_act]
        have : Proc.rl b' ≠ Proc.rl b0 := by intro hc; injection hc with hc; exact hb' hc
        simp [this]
      · intro hb
        simp only [apply0] at hb
        rw [releaseRl_act, peClose_act] at hb
        simp at hb
    case peAbort p b e =>
      cases p <;> simp [writesRl] at hw
      rename_i b0
      have hgg := hg
      simp [guard, checks, Checks.ok, actIs] at hgg
      have hsome : (w.act (.rl b0)).isSome = true := by
        cases hA : w.act (.rl b0) with
        | none => simp [hA] at hgg
        | some A => rfl
      have hproc := hI.act b0 hsome
      have hlt : b0 < w.nb := hI.lt_nb w b0 (by rw [hproc]; intro h; cases h)
      refine rinv_update w _ b0 hI (by rw [apply0_nb]) ?_ ?_ hlt ?_
      · intro b' hb'; simp [apply0, setBus_bus, hb']
      · intro b' hb'
        have : Proc.rl b' ≠ Proc.rl b0 := by intro hc; injection hc with hc; exact hb' hc
        simp [apply0, this]
      · intro hb
        simp [apply0] at hb
    case rlExit b =>
      have hgg := hg
      simp [guard, checks, Checks.ok] at hgg
      have hpoll := hgg.1
      have hlt : b < w.nb := hI.lt_nb w b (by rw [hpoll]; intro h; cases h)
      refine rinv_update w _ b hI (by rw [apply0_nb]) ?_ ?_ hlt ?_
      · intro b' hb'
        simp only [apply0, rlIdleCheck]
        split <;> (try split) <;> simp [setBus_bus, hb']
      · intro b' _
        simp only [apply0, rlIdleCheck]
        split <;> (try split) <;> simp
      · intro hb
        have : ((apply0 w (.rlExit b)).act (.rl b)) = w.act (.rl b) := by
          simp only [apply0, rlIdleCheck]
          split <;> (try split) <;> simp
        rw [this] at hb
        have := hI.act b hb
        rw [hpoll] at this; cases this
    case rlCancelled b =>
      have hgg := hg
      simp [guard, checks, Checks.ok] at hgg
      have hne : (w.bus b).rl ≠ .none ∧ (w.bus b).rl ≠ .processing := by
        cases hr : (w.bus b).rl <;> simp [hr] at hgg ⊢
      have hlt : b < w.nb := hI.lt_nb w b hne.1
      refine rinv_update w _ b hI (by rw [apply0_nb]) ?_ ?_ hlt ?_
      · intro b' hb'; simp [apply0, setBus_bus, hb']
      · intro b' _; simp [apply0]
      · intro hb
        simp [apply0] at hb
        exact absurd (hI.act b hb) hne.2
    case rlDropExit b =>
      have hgg := hg
      simp [guard, checks, Checks.ok] at hgg
      have hne : (w.bus b).rl ≠ .none ∧ (w.bus b).rl ≠ .processing := by
        cases hr : (w.bus b).rl <;> simp [hr] at hgg ⊢
      have hlt : b < w.nb := hI.lt_nb w b hne.1
      refine rinv_update w _ b hI (by rw [apply0_nb]) ?_ ?_ hlt ?_
      · intro b' hb'
        simp only [apply0, rlIdleCheck]
        split <;> simp [setBus_bus, hb']
      · intro b' _
        simp only [apply0, rlIdleCheck]
        split <;> simp
      · intro hb
        have : ((apply0 w (.rlDropExit b)).act (.rl b)) = w.act (.rl b) := by
          simp only [apply0, rlIdleCheck]
          split <;> simp
        rw [this] at hb
        exact absurd (hI.act b hb) hne.2

theorem rinv_wake (w : World) (h : RInv w) : RInv (wake w) := by
  refine ⟨?_, ?_⟩
  · intro b hb; simp only [wake_act] at hb; simpa only [wake_bus] using h.act b hb
  · intro b hb; simp only [wake_nb] at hb; simpa only [wake_bus] using h.fresh b hb

theorem rinv_step (w w' : World) (l : Label) (hI : RInv w) (hs : step w l = some w') : RInv w' := by
  obtain ⟨hg, rfl⟩ := step_some hs
  exact rinv_wake _ (rinv_apply0 w l hg hI)

theorem rinv_init : RInv ({} : World) := ⟨fun b hb => by simp [World.act] at hb, fun b _ => rfl⟩

theorem rinv_run (w w' : World) (ls : List Label) (hI : RInv w) (h : run w ls = some w') : RInv w' := by
  induction ls generalizing w with
  | nil => simp [run] at h; subst h; exact hI
  | cons l ls ih =>
    simp only [run] at h
    cases hs : step w l with
    | none => simp [hs] at h
    | some w1 => simp only [hs] at h; exact ih w1 (rinv_step w w1 l hI hs) h

theorem rinv_reachable (w : World) (hr : Reachable w) : RInv w := by
  obtain ⟨ls, h⟩ := hr
  exact rinv_run {} w ls rinv_init h

namespace Thm

/-- C16, for every reachable state: while a bus's run loop is not in its `processing` state — in particular once it has
    exited, after `stop()` or after its task was cancelled — that run loop has no open activation. -/
theorem C16_a_run_loop_outside_processing_has_no_open_activation (w : World) (hr : Reachable w) (b : BId)
    (h : (w.bus b).rl ≠ .processing) : w.act (.rl b) = none := by
  cases hA : w.act (.rl b) with
  | none => rfl
  | some A => exact absurd ((rinv_reachable w hr).act b (by rw [hA]; rfl)) h

/-- C16 "no handler of that bus starts afterwards": in no reachable state in which the run loop of bus `b` has exited can
    that run loop begin an activation or schedule (start) a handler; this stays so in every later state until a new run
    loop is created for the bus (`rlCreate`, the only label that leaves `exited`). -/
theorem C16_an_exited_run_loop_starts_no_handler (w : World) (hr : Reachable w) (b : BId) (h : (w.bus b).rl = .exited) :
    (∀ i b' e k, step w (.hSched (.rl b) i b' e k) = none) ∧ (∀ b' e, step w (.peBegin (.rl b) b' e) = none) := by
  have hnone := C16_a_run_loop_outside_processing_has_no_open_activation w hr b (by rw [h]; intro hc; cases hc)
  refine ⟨?_, ?_⟩
  · intro i b' e k
    cases hs : step w (.hSched (.rl b) i b' e k) with
    | none => rfl
    | some w' =>
      obtain ⟨hg, _⟩ := step_some hs
      simp [guard, checks, Checks.ok, actIs, hnone] at hg
  · intro b' e
    cases hs : step w (.peBegin (.rl b) b' e) with
    | none => rfl
    | some w' =>
      obtain ⟨hg, _⟩ := step_some hs
      simp [guard, checks, Checks.ok] at hg
      obtain ⟨_, ⟨⟨⟨hb, htook⟩, _⟩, _⟩, _⟩ := hg
      subst hb
      rw [h] at htook; cases htook

/-- … and only the creation of a new run loop ends that: every label that changes the run-loop state of a bus whose run
    loop has exited is `rlCreate` for that bus. -/
theorem C16_only_a_new_run_loop_leaves_exited (w w' : World) (l : Label) (b : BId) (hr : Reachable w)
    (h : (w.bus b).rl = .exited) (hs : step w l = some w') (hch : (w'.bus b).rl ≠ .exited) : l = .rlCreate b := by
  obtain ⟨hg, rfl⟩ := step_some hs
  have hlt : b < w.nb := (rinv_reachable w hr).lt_nb w b (by rw [h]; intro hc; cases hc)
  have hnone := C16_a_run_loop_outside_processing_has_no_open_activation w hr b (by rw [h]; intro hc; cases hc)
  simp only [apply, wake_bus] at hch
  by_cases hw : writesRl l = false
  · rw [apply0_rl_frame w l b hw] at hch; exact absurd h hch
  · cases l <;> simp [writesRl] at hw
    case newBus b0 par maxh wal =>
      simp [guard, checks, Checks.ok] at hg
      subst hg
      have : b ≠ w.nb := Nat.ne_of_lt hlt
      simp [apply0, setBus_bus, this] at hch
      exact absurd h hch
    case rlCreate b0 =>
      by_cases hb : b = b0
      · subst hb; rfl
      · simp [apply0, setBus_bus, hb] at hch; exact absurd h hch
    case take p b0 e =>
      cases p <;> simp [writesRl] at hw
      rename_i b1
      simp [guard, checks, Checks.ok] at hg
      obtain ⟨_, _, hb0, hpoll⟩ := hg
      subst hb0
      by_cases hb : b = b1
      · subst hb; rw [h] at hpoll; cases hpoll
      · simp [apply0, setBus_bus, hb] at hch; exact absurd h hch
    case peBegin p b0 e =>
      cases p <;> simp [writesRl] at hw
      rename_i b1
      simp [guard, checks, Checks.ok] at hg
      obtain ⟨_, ⟨⟨⟨hb0, htook⟩, _⟩, _⟩, _⟩ := hg
      subst hb0
      by_cases hb : b = b1
      · subst hb; rw [h] at htook; cases htook
      · have : ((apply0 w (.peBegin (.rl b1) b1 e)).bus b).rl = (w.bus b).rl := by
          show ((peOpen (peEnter w (.rl b1) b1) (.rl b1) b1 e).bus b).rl = _
          rw [peOpen_bus]; simp [peEnter, setBus_bus, hb]
        rw [this] at hch; exact absurd h hch
    case peRecTrip p b0 e =>
      cases p <;> simp [writesRl] at hw
      rename_i b1
      simp [guard, checks, Checks.ok] at hg
      obtain ⟨_, ⟨⟨⟨hb0, htook⟩, _⟩, _⟩, _⟩ := hg
      subst hb0
      by_cases hb : b = b1
      · subst hb; rw [h] at htook; cases htook
      · simp [apply0, rlBack, setBus_bus, hb] at hch; exact absurd h hch
    case peEnd p b0 e =>
      cases p <;> simp [writesRl] at hw
      rename_i b1
      simp [guard, checks, Checks.ok, actIs] at hg
      by_cases hb : b = b1
      · subst hb; simp [hnone] at hg
      · simp only [apply0] at hch
        rw [releaseRl_bus_other _ _ _ hb, peClose_rl] at hch; exact absurd h hch
    case peAbort p b0 e =>
      cases p <;> simp [writesRl] at hw
      rename_i b1
      simp [guard, checks, Checks.ok, actIs] at hg
      by_cases hb : b = b1
      · subst hb; simp [hnone] at hg
      · simp [apply0, setBus_bus, hb] at hch; exact absurd h hch
    case rlExit b0 =>
      simp [guard, checks, Checks.ok] at hg
      by_cases hb : b = b0
      · subst hb; rw [h] at hg; simp at hg
      · have : ((apply0 w (.rlExit b0)).bus b).rl = (w.bus b).rl := by
          simp only [apply0, rlIdleCheck]
          split <;> (try split) <;> simp [setBus_bus, hb]
        rw [this] at hch; exact absurd h hch
    case rlCancelled b0 =>
      simp [guard, checks, Checks.ok] at hg
      by_cases hb : b = b0
      · subst hb; rw [h] at hg; simp at hg
      · simp [apply0, setBus_bus, hb] at hch; exact absurd h hch
    case rlDropExit b0 =>
      simp [guard, checks, Checks.ok] at hg
      by_cases hb : b = b0
      · subst hb; rw [h] at hg; simp at hg
      · have : ((apply0 w (.rlDropExit b0)).bus b).rl = (w.bus b).rl := by
          simp only [apply0, rlIdleCheck]
          split <;> simp [setBus_bus, hb]
        rw [this] at hch; exact absurd h hch

end Thm

end Bubus
