/-
  Bubus.Proofs.MutexThm — C06 for every reachable state of serial buses: the chain invariant holds along every run,
  hence at most one handler executes at a time, across all buses.
-/
import Bubus.Proofs.MutexInv
namespace Bubus

/-- no bus of the run is created with `parallel_handlers=True` -/
def serialLabel : Label → Bool
  | .newBus _ par _ _ => !par
  | _ => true

def SerialRun (ls : List Label) : Prop := ∀ l ∈ ls, serialLabel l = true

theorem minv_apply0 (w : World) (l : Label) (hI : MInv w) (hg : guard w l) (hser : serialLabel l = true) :
    MInv (apply0 w l) := by
  have heasy := apply0_sameView_easy w l hg hI (by
    intro b par maxh wal h; subst h; simpa [serialLabel] using hser)
  cases l
  case take p b e => exact minv_take w p b e hI hg
  case peBegin p b e => exact minv_peBegin w p b e hI hg
  case peRecTrip p b e => exact minv_peRecTrip w p b e hI hg
  case hSched p i b e k => exact minv_hSched w p i b e k hI hg
  case hCancel i => exact minv_hCancel w i hI hg
  case hFinish i r => exact minv_hFinish w i r hI hg
  case peEnd p b e => exact minv_peEnd w p b e hI hg
  case peAbort p b e => exact minv_peAbort w p b e hI hg
  case awaitBegin i c => exact minv_awaitBegin w i c hI hg
  case awaitEnd i c => exact minv_awaitEnd w i c hI hg
  all_goals exact minv_of_sameView _ _ heasy hI

theorem minv_step (w w' : World) (l : Label) (hI : MInv w) (hser : serialLabel l = true) (hs : step w l = some w') :
    MInv w' := by
  obtain ⟨hg, rfl⟩ := step_some hs
  exact minv_of_skel _ _ (wake_skel _) (minv_apply0 w l hI hg hser)

theorem minv_init : MInv ({} : World) := by
  refine ⟨fun _ => rfl, ?_, List.nodup_nil, trivial, ?_, ?_, rfl, ?_, ?_, ?_⟩
  · intro i; show i ∈ ([] : List IId) ↔ _; simp [cs]
  · intro b h; cases h
  · intro j h; cases h
  · intro p l h; cases h
  · intro i h; cases h
  · intro j _; exact ⟨rfl, rfl, rfl⟩

theorem minv_run (w w' : World) (ls : List Label) (hI : MInv w) (hser : SerialRun ls) (h : run w ls = some w') : MInv w' := by
  induction ls generalizing w with
  | nil => simp [run] at h; subst h; exact hI
  | cons l ls ih =>
    simp only [run] at h
    split at h
    · rename_i w1 hs1
      exact ih w1 (minv_step w w1 l hI (hser l (by simp)) hs1) (fun l' hl' => hser l' (by simp [hl'])) h
    · cases h

namespace Thm

/-- **C06 (mutual exclusion), for every reachable state of serial buses**: whatever the number of buses, the forwarding
    topology, the nesting of awaits, timeouts, cancellations and the schedule, at most one handler instance is executing
    (scheduled, running or ended-but-unrecorded) at any time; every other live instance is suspended in an await. -/
theorem C06_at_most_one_handler_executes_at_a_time (ls : List Label) (w : World) (hser : SerialRun ls)
    (hrun : run {} ls = some w) (i j : IId)
    (hi : cs (w.inst i).st = .busy) (hj : cs (w.inst j).st = .busy) : i = j := by
  have hI := minv_run {} w ls minv_init hser hrun
  have h1 := only_top_busy w hI i hi
  have h2 := only_top_busy w hI j hj
  rw [h1] at h2
  injection h2

/-- **C06**: in every reachable state of serial buses, a live handler instance exists only while some run loop holds the
    global lock, and the live instances form one chain of nested inline activations below that run loop. -/
theorem C06_live_handlers_run_under_the_global_lock (ls : List Label) (w : World) (hser : SerialRun ls)
    (hrun : run {} ls = some w) (i : IId) (hi : cs (w.inst i).st ≠ .fin) :
    ∃ b, w.lock = some b ∧ Chain w w.stack ∧ i ∈ w.stack := by
  have hI := minv_run {} w ls minv_init hser hrun
  have hmem := (hI.mem i).mpr hi
  obtain ⟨_, b, _, _, hl, _⟩ := chain_bottom w w.stack (fun h => by rw [h] at hmem; cases hmem) hI.chain
  exact ⟨b, hl, hI.chain, hmem⟩

/-- **C06**, as the run-time monitor states it: when a handler starts on serial buses, no other handler instance is
    running un-suspended (the clause `C06.exclusive` evaluated by the correspondence check on every real trace). -/
theorem C06_a_starting_handler_is_exclusive (ls : List Label) (w w' : World) (hser : SerialRun ls)
    (hrun : run {} ls = some w) (j : IId) (hs : step w (.hStart j) = some w') : C06.exclusive w' j = true := by
  have hI := minv_run {} w ls minv_init hser hrun
  have hI' := minv_step w w' (.hStart j) hI rfl hs
  obtain ⟨hg, rfl⟩ := step_some hs
  have hj : cs ((apply w (.hStart j)).inst j).st = .busy := by
    simp [apply, apply0, World.modInst, cs]
  simp only [C06.exclusive, List.all_eq_true, Bool.or_eq_true, beq_iff_eq]
  intro i1 _
  by_cases h : i1 = j
  · exact Or.inl h
  · right
    simp only [C06.pairOk, Bool.or_eq_true]
    left; left
    cases hst : ((apply w (.hStart j)).inst i1).st <;> simp
    have hb : cs ((apply w (.hStart j)).inst i1).st = .busy := by rw [hst]; rfl
    have h1 := only_top_busy _ hI' i1 hb
    have h2 := only_top_busy _ hI' j hj
    rw [h1] at h2
    injection h2 with h2
    exact h h2

end Thm
end Bubus

namespace Bubus.Thm

/-- **C02 (second clause), for every reachable state of serial buses**: when a handler starts, no handler of another event
    of that bus — indeed no other handler at all — is running un-suspended: a bus does not start a later event while a
    handler of an earlier one is still running, other than while that handler is suspended awaiting an event. -/
theorem C02_serial_bus_starts_no_handler_beside_a_running_one (ls : List Label) (w w' : World) (hser : SerialRun ls)
    (hrun : run {} ls = some w) (j : IId) (hs : step w (.hStart j) = some w') : C02.serialNoOverlap w' j = true := by
  have hI := minv_run {} w ls minv_init hser hrun
  have hI' := minv_step w w' (.hStart j) hI rfl hs
  obtain ⟨hg, rfl⟩ := step_some hs
  have hj : cs ((apply w (.hStart j)).inst j).st = .busy := by
    simp [apply, apply0, World.modInst, cs]
  simp only [C02.serialNoOverlap, Bool.or_eq_true, Bool.not_eq_true', List.any_eq_false, Bool.and_eq_true, bne_iff_ne,
    beq_iff_eq, not_and]
  right
  intro i1 _ hne hst
  have hne := hne.1.1
  have hb : cs ((apply w (.hStart j)).inst i1).st = .busy := by rw [hst]; rfl
  have h1 := only_top_busy _ hI' i1 hb
  have h2 := only_top_busy _ hI' j hj
  rw [h1] at h2
  injection h2 with h2
  exact hne h2

end Bubus.Thm
