/-
  Bubus.Proofs.History — C13: `cleanup_event_history` brings the history down to `max_history_size`,
  evicting completed before started before pending events, oldest first.
-/
import Bubus.Proofs.Frames2
namespace Bubus

/-- removing the members of a duplicate-free sub-collection `V` from a duplicate-free list removes exactly `|V|` elements -/
theorem length_filter_not_mem {α : Type} [BEq α] [LawfulBEq α] (h V : List α) (hn : h.Nodup) (vn : V.Nodup) (hsub : ∀ x ∈ V, x ∈ h) :
    (h.filter fun e => !V.contains e).length + V.length = h.length := by
  have hperm : (h.filter fun e => V.contains e).Perm V := by
    rw [List.perm_ext_iff_of_nodup (hn.sublist List.filter_sublist) vn]
    intro a
    simp only [List.mem_filter, List.contains_iff_mem]
    exact ⟨fun ⟨_, h2⟩ => h2, fun h2 => ⟨hsub a h2, h2⟩⟩
  have h1 := List.length_eq_countP_add_countP (fun e => V.contains e) (l := h)
  rw [List.countP_eq_length_filter, List.countP_eq_length_filter, hperm.length_eq] at h1
  have h2 : (h.filter fun a => decide ¬(V.contains a) = true) = h.filter fun e => !V.contains e := by
    congr 1; funext a; cases V.contains a <;> simp
  rw [h2] at h1
  omega

/-- the three status buckets, each sorted, are together a permutation of the history -/
theorem buckets_perm (w : World) (h : List EId) :
    ((h.filter fun e => (w.ev e).status == .completed).mergeSort (byCreated w) ++
     (h.filter fun e => (w.ev e).status == .started).mergeSort (byCreated w) ++
     (h.filter fun e => (w.ev e).status == .pending).mergeSort (byCreated w)).Perm h := by
  have p1 := List.mergeSort_perm (h.filter fun e => (w.ev e).status == .completed) (byCreated w)
  have p2 := List.mergeSort_perm (h.filter fun e => (w.ev e).status == .started) (byCreated w)
  have p3 := List.mergeSort_perm (h.filter fun e => (w.ev e).status == .pending) (byCreated w)
  refine ((p1.append p2).append p3).trans ?_
  -- split h by "completed", then the rest by "started"
  have s1 := List.filter_append_perm (fun e => (w.ev e).status == .completed) h
  have s2 := List.filter_append_perm (fun e => (w.ev e).status == .started)
    (h.filter fun e => !((w.ev e).status == .completed))
  have e2 : ((h.filter fun e => !((w.ev e).status == .completed)).filter fun e => (w.ev e).status == .started) =
      h.filter fun e => (w.ev e).status == .started := by
    rw [List.filter_filter]; congr 1; funext e; cases (w.ev e).status <;> rfl
  have e3 : ((h.filter fun e => !((w.ev e).status == .completed)).filter fun e => !((w.ev e).status == .started)) =
      h.filter fun e => (w.ev e).status == .pending := by
    rw [List.filter_filter]; congr 1; funext e; cases (w.ev e).status <;> rfl
  rw [e2, e3] at s2
  rw [List.append_assoc]
  exact (List.Perm.append_left _ s2).trans s1

theorem cleanupVictims_props (w : World) (h : List EId) (n : Nat) (hn : h.Nodup) (hlen : n ≤ h.length) :
    (cleanupVictims w h n).Nodup ∧ (∀ x ∈ cleanupVictims w h n, x ∈ h) ∧
      (cleanupVictims w h n).length = h.length - n := by
  unfold cleanupVictims
  simp only []
  have hp := buckets_perm w h
  refine ⟨?_, ?_, ?_⟩
  · exact (hp.nodup_iff.mpr hn).sublist (List.take_sublist _ _)
  · intro x hx
    exact hp.mem_iff.mp ((List.take_sublist _ _).subset hx)
  · rw [List.length_take, hp.length_eq]; omega

namespace Thm

/-- C13: after cleanup the history holds at most `N` events (for every `N ≥ 1`, every history without duplicates). -/
theorem C13_cleanup_brings_history_down_to_the_bound (w : World) (h : List EId) (n : Nat)
    (hn : h.Nodup) (hpos : 0 < n) : (cleanupHist w h (some n)).length ≤ n := by
  unfold cleanupHist
  simp only []
  split
  · rename_i hc
    rcases hc with hc | hc
    · omega
    · exact hc
  · rename_i hc
    have hlen : n ≤ h.length := by omega
    obtain ⟨vn, vsub, vlen⟩ := cleanupVictims_props w h n hn hlen
    have := length_filter_not_mem h (cleanupVictims w h n) hn vn vsub
    omega

/-- C13: cleanup removes exactly the excess, never more. -/
theorem C13_cleanup_removes_exactly_the_excess (w : World) (h : List EId) (n : Nat)
    (hn : h.Nodup) (hpos : 0 < n) : (cleanupHist w h (some n)).length = min h.length n := by
  unfold cleanupHist
  simp only []
  split
  · rename_i hc
    rcases hc with hc | hc
    · omega
    · omega
  · rename_i hc
    have hlen : n ≤ h.length := by omega
    obtain ⟨vn, vsub, vlen⟩ := cleanupVictims_props w h n hn hlen
    have := length_filter_not_mem h (cleanupVictims w h n) hn vn vsub
    omega

/-- C13: eviction order — a started or pending event is evicted only if every completed event of the history is
    evicted too (in-flight events are spared while a completed one remains). -/
theorem C13_inflight_evicted_only_after_all_completed (w : World) (h : List EId) (n : Nat) (x : EId)
    (hx : x ∈ cleanupVictims w h n) (hs : (w.ev x).status ≠ .completed) :
    ∀ y ∈ h, (w.ev y).status = .completed → y ∈ cleanupVictims w h n := by
  intro y hy hyc
  unfold cleanupVictims at hx ⊢
  simp only [] at hx ⊢
  -- abbreviations
  generalize hC : (h.filter fun e => (w.ev e).status == .completed).mergeSort (byCreated w) = C at hx ⊢
  generalize hS : (h.filter fun e => (w.ev e).status == .started).mergeSort (byCreated w) = S at hx ⊢
  generalize hP : (h.filter fun e => (w.ev e).status == .pending).mergeSort (byCreated w) = P at hx ⊢
  have hyC : y ∈ C := by
    rw [← hC, (List.mergeSort_perm _ _).mem_iff]
    simp [hy, hyc]
  have hxC : x ∉ C := by
    rw [← hC, (List.mergeSort_perm _ _).mem_iff]
    simp
    intro _
    exact hs
  -- x is in the taken prefix but not in C, so the prefix is longer than C and contains all of C
  rw [List.append_assoc] at hx ⊢
  rw [List.take_append] at hx ⊢
  rw [List.mem_append] at hx ⊢
  rcases hx with hx | hx
  · exact absurd ((List.take_sublist _ _).subset hx) hxC
  · left
    have hk : C.length < h.length - n := by
      by_cases hk : C.length < h.length - n
      · exact hk
      · have : h.length - n - C.length = 0 := by omega
        simp [this] at hx
    rw [List.take_of_length_le (by omega)]
    exact hyC

/-- C13: eviction never touches the queue, the results, the lock or any process: only the history shrinks. -/
theorem C13_eviction_changes_only_the_history (w : World) (b : BId) :
    (cleanup w b).ev = w.ev ∧ (cleanup w b).inst = w.inst ∧ (cleanup w b).act = w.act ∧
    (cleanup w b).lock = w.lock ∧ ∀ b', ((cleanup w b).bus b').queue = (w.bus b').queue :=
  ⟨cleanup_ev w b, cleanup_inst w b, cleanup_act w b, cleanup_lock w b, fun b' => cleanup_queue w b b'⟩

end Thm
end Bubus
