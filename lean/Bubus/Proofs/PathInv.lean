/-
  Bubus.Proofs.PathInv — C07: in every reachable state every event's path is duplicate-free
  (forwarding never records a bus twice, whatever the topology: cycles, self-loops, diamonds, re-dispatch).
-/
import Bubus.Proofs.Fifo
namespace Bubus

theorem markComplete_path (w : World) (e x : EId) : ((markComplete w e).ev x).path = (w.ev x).path := by
  by_cases h : x = e
  · subst h
    unfold markComplete
    simp only []
    repeat' split
    all_goals simp
  · rw [markComplete_ev_other w e x h]

theorem parentWalk_path (w : World) (fuel : Nat) (e : EId) (seen : List EId) (x : EId) :
    ((parentWalk w fuel e seen).ev x).path = (w.ev x).path := by
  induction fuel generalizing w e seen with
  | zero => simp [parentWalk]
  | succ n ih =>
    unfold parentWalk
    split
    · rfl
    · split
      · rfl
      · split
        · rw [ih, markComplete_path]
        · rfl

theorem cancelPendingChildren_path (w : World) (fuel : Nat) (e x : EId) :
    ((cancelPendingChildren w fuel e).ev x).path = (w.ev x).path := by
  induction fuel generalizing w e with
  | zero => rfl
  | succ n ih =>
    unfold cancelPendingChildren
    generalize (w.ev e).children = cs
    induction cs generalizing w with
    | nil => rfl
    | cons c cs ihc =>
      simp only [List.foldl_cons]
      rw [ihc, ih]
      simp only [modEv_eq, setEv_ev]
      split
      · rename_i hx; subst hx; rfl
      · rfl

theorem peOpen_path (w : World) (p : Proc) (b : BId) (e x : EId) : ((peOpen w p b e).ev x).path = (w.ev x).path := by
  unfold peOpen
  simp only []
  split <;> (try rw [markComplete_path]) <;> simp only [setAct_ev, modEv_eq, setEv_ev] <;> split <;> simp_all

theorem peClose_path (w : World) (p : Proc) (b : BId) (e x : EId) : ((peClose w p b e).ev x).path = (w.ev x).path := by
  unfold peClose
  simp only [modBus_eq, setBus_ev, setAct_ev, cleanup_ev]
  rw [parentWalk_path, markComplete_path]

def writesPath : Label → Bool
  | .dispatch .. => true
  | .newEvent .. => true
  | _ => false

theorem apply0_path_frame (w : World) (l : Label) (x : EId) (h : writesPath l = false) :
    ((apply0 w l).ev x).path = (w.ev x).path := by
  cases l <;> simp [writesPath] at h
  case peBegin p b e =>
    show ((peOpen (peEnter w p b) p b e).ev x).path = _
    rw [peOpen_path]
    cases p <;> simp [peEnter]
  case hSched p i b e k =>
    show ((applySched w p i b e k).ev x).path = _
    unfold applySched
    cases hA : w.act p <;> simp [setEv_ev, Ev.updRes] <;> split <;> simp_all
  case hFinish i r =>
    show ((applyFinish w i r).ev x).path = _
    unfold applyFinish
    simp only []
    cases hA : w.act (w.inst i).exec <;> simp only [] <;> split <;>
      simp [cancelPendingChildren_path, setEv_ev, Ev.updRes] <;> split <;> simp_all
  case peEnd p b e =>
    simp only [apply0]
    cases p <;> simp only [releaseRl_ev, peClose_path]
  case newBus => simp [apply0]
  case on => simp [apply0]
  case off => simp [apply0]
  case tick => simp [apply0]
  case rlCreate => simp [apply0]
  case take p b e => cases p <;> simp [apply0]
  case peRecTrip p b e => cases p <;> simp [apply0, rlBack]
  case hStart => simp [apply0]
  case hCancel => simp [apply0]
  case hEnd i out =>
    simp only [apply0]
    split <;> (try split) <;> (try split) <;> simp
  case walWrite p b e ok => simp only [apply0]; cases hA : w.act p <;> cases ok <;> simp [hA]
  case peAbort p b e => cases p <;> simp [apply0]
  case awaitBegin => simp [apply0]
  case pollYield => simp [apply0]
  case awaitEnd => simp [apply0]
  case xAwaitEnd => simp [apply0]
  case readBus => simp [apply0]
  case rlWake => simp [apply0]
  case rlPoll b => simp only [apply0, rlIdleCheck]; split <;> simp
  case wiBegin => simp [apply0]
  case wiJoined x' => simp only [apply0]; split <;> simp
  case wiIdle x' => simp only [apply0]; split <;> simp
  case wiRecheck x' => simp only [apply0]; split <;> simp
  case wiEnd => simp [apply0]
  case wiCancel => simp [apply0]
  case expectTimeout x' => simp only [apply0]; split <;> simp
  case expectCancelReq x' => simp only [apply0]; split <;> simp
  case hSkip p_ b_ e_ k_ => simp only [apply0]; split <;> simp
  case stopBegin => simp [apply0]
  case stopNoop => simp [apply0]
  case stopEnd x' => simp only [apply0]; split <;> (try split) <;> simp
  case rlExit b => simp only [apply0, rlIdleCheck]; split <;> (try split) <;> simp
  case cancelRl => simp [apply0]
  case rlCancelled => simp [apply0]
  case rlDropExit b => simp only [apply0, rlIdleCheck]; split <;> simp
  case expectBegin => simp [apply0]
  case expectEnd x' got => simp only [apply0]; split <;> simp
  case expectCancel x' => simp only [apply0]; split <;> simp

theorem applyDispatch_path (w : World) (p : Proc) (b : BId) (e : EId) (res : DRes) (x : EId) :
    ((applyDispatch w p b e res).ev x).path = ((dPath w b e).ev x).path := by
  have h1 : ∀ x, ((dPath (dParent w (ctxOf w p) e) b e).ev x).path = ((dPath w b e).ev x).path := by
    intro x
    by_cases hx : x = e
    · subst hx; rw [dPath_path_same, dPath_path_same, dParent_path]
    · rw [dPath_path_other _ _ _ _ hx, dPath_path_other _ _ _ _ hx, dParent_path]
  unfold applyDispatch
  cases res <;> simp only [cleanup_ev, dChild_path, dEnqueue_ev, dFwd_ev] <;> exact h1 x

def PathInv (w : World) : Prop := ∀ x, (w.ev x).path.Nodup

theorem pathInv_step (w w' : World) (l : Label) (hI : PathInv w) (hs : step w l = some w') : PathInv w' := by
  obtain ⟨hg, rfl⟩ := step_some hs
  clear hs hg
  intro x
  show ((wake (apply0 w l)).ev x).path.Nodup
  rw [wake_ev]
  by_cases hw : writesPath l = false
  · rw [apply0_path_frame w l x hw]; exact hI x
  · cases l <;> simp [writesPath] at hw
    case newEvent e ty par to =>
      simp only [apply0, setNe_ev, setEv_ev]
      split
      · exact List.nodup_nil
      · exact hI x
    case dispatch p b e res =>
      show ((applyDispatch w p b e res).ev x).path.Nodup
      rw [applyDispatch_path]
      by_cases hx : x = e
      · subst hx; exact Thm.C07_path_stays_duplicate_free w b x (hI x)
      · rw [dPath_path_other _ _ _ _ hx]; exact hI x

theorem pathInv_run (w w' : World) (ls : List Label) (hI : PathInv w) (h : run w ls = some w') : PathInv w' := by
  induction ls generalizing w with
  | nil => simp [run] at h; subst h; exact hI
  | cons l ls ih =>
    simp only [run] at h
    split at h
    · rename_i w1 hs1; exact ih w1 (pathInv_step w w1 l hI hs1) h
    · cases h

namespace Thm

/-- **C07, for every reachable state**: whatever the forwarding topology (chains, diamonds, cycles, self-loops, several
    wildcard forwards per bus), re-dispatches and schedules, no bus ever appears twice in an event's path. -/
theorem C07_no_bus_twice_in_any_path (w : World) (hr : Reachable w) (e : EId) : (w.ev e).path.Nodup := by
  obtain ⟨ls, hls⟩ := hr
  exact pathInv_run {} w ls (fun _ => List.nodup_nil) hls e

end Thm
end Bubus
