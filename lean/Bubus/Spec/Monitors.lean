/-
  Bubus.Spec.Monitors — the properties C01…C16 as executable step predicates over the model.

  `Mon.step m w l w'` is evaluated by the driver for every accepted step `w --l--> w'` of a REAL history, and the
  theorems in `Bubus/Proofs` are about the same clause functions (`C01.once`, `C13.bound`, …).
  A failing clause yields a `Vio` carrying the names of the known-finding signatures (narrow, executable
  descriptions of the recorded mechanisms) that match the failing situation; suppression of a violation is decided by
  those names and `/verif/known_findings.json` only.
-/
import Bubus.Model.Step
namespace Bubus

structure Vio where
  prop : String
  clause : String
  sigs : List String
  detail : String
  deriving Repr

/-- ghost state of the monitors (history facts that are not part of the library's state) -/
structure Mon where
  accepted : List (BId × EId) := []     -- accepted dispatches, in order
  begun : List (BId × EId) := []        -- activations begun, in order
  tripped : List (BId × EId) := []      -- activations that hit the recursion guard (F2)
  aborted : List (BId × EId) := []      -- inline activations that were abandoned (F5)
  timedOut : List (EId × Nat) := []     -- events one of whose handlers recorded a timeout (which cancels the pending results
                                        -- of the event's descendants), with the number of abandoned activations so far
  snaps : List (EId × List Res) := []   -- results of an event when it was first complete and signalled
  entries : List (EId × BId) := []      -- accepted dispatches that are not forwards: (event, entry bus)
  fwdRejected : Bool := false
  everTimeout : Bool := false
  ended : List (BId × EId) := []        -- activations ended (normally or not), in order
  dropped : List (BId × EId) := []      -- events a run loop had taken when it was stopped / cancelled: never processed
  wiAccepted : List (Nat × List EId) := []      -- per blocked wait_until_idle caller: events accepted by its bus before the call
  stopped : List BId := []              -- buses whose stop() has returned
  heldExtra : List (BId × EId) := []    -- events a run loop took while it was not polling (a second event in hand: only on a history followed after the correspondence has broken)
  rlPos : List (BId × Nat) := []        -- per bus: the highest enqueue position whose processing a run loop has begun
  rlCancelledBy : List BId := []        -- buses whose run-loop task was cancelled from outside (until a new one is created)
  expSince : List (Nat × List EId) := []        -- per pending expect(): events of its bus begun since the call, in order
  expHandlers : List (Nat × List Reg) := []     -- per pending expect(): the bus's handler registry before the call
  expResolvedAt : List (Nat × Nat) := [] -- expect() calls: the time their future was resolved with a match
  expNested : List Nat := []            -- expect() calls resolved by an event whose activation is nested inside that of an earlier match
  lateAccepted : List (BId × EId) := []  -- dispatches accepted by a bus whose run loop had already exited (stopped / cancelled)
  badYield : List IId := []             -- instances whose current await suspended while some queue held an event (C05 `notImmediate`)
  redone : List EId := []               -- events accepted by a bus again: after their completion had been signalled, or by a bus that had them before
  selAt : List ((BId × EId) × List HId) := []   -- per begun activation: the ordinary handlers registered for a matching
                                        -- pattern at that moment (what "no handler is skipped" is about)
  scanning : Option IId := none         -- the instance whose await has just begun, or just finished an inline activation: it is
                                        -- running (not suspended) and about to scan the queues
  deriving Repr

def insts (w : World) : List IId := List.range w.ni
def events (w : World) : List EId := List.range w.ne
def buses (w : World) : List BId := List.range w.nb

def desc (w : World) (e c : EId) : Bool := isDesc w (w.ne + 1) e c

/-! ### clause functions (the objects of the theorems) -/

namespace C01
/-- no instance of (b, e, k) exists when one is scheduled -/
def once (w : World) (b : BId) (e : EId) (k : HId) : Bool :=
  !(insts w).any fun j => (w.inst j).bus == b && (w.inst j).ev == e && (w.inst j).hid == k
/-- at rest: every ordinary handler registered on `b` that matches `e` has a terminal result on `e` -/
def noSkip (w : World) (b : BId) (e : EId) : Bool :=
  (matching (w.bus b) (w.ev e).etype).all fun r =>
    match r.kind with
    | .async | .sync => (match (w.ev e).getRes? b r.hid with | some x => x.terminal | none => false)
    | _ => true
end C01

namespace C02
/-- an inline activation of `e` on bus `b` may overtake the event held by `b`'s run loop only if `e` is awaited
    (or a descendant of an awaited event) -/
def permitted (w : World) (e : EId) : Bool :=
  (insts w).any fun j => match (w.inst j).st with | .awaiting c => desc w e c | _ => false
def beginOrder (w : World) (p : Proc) (b : BId) (e : EId) : Bool :=
  match p, (w.bus b).rl with
  | .inst _, .took e1 => e1 == e || permitted w e
  | _, _ => true
/-- serial bus: no handler of another event of the same bus is executing un-suspended -/
def serialNoOverlap (w : World) (i : IId) : Bool :=
  let I := w.inst i
  (w.bus I.bus).parallel || !(insts w).any fun j =>
    j != i && (w.inst j).bus == I.bus && (w.inst j).ev != I.ev && (w.inst j).st == .running
end C02

namespace C05
/-- is a start of an instance for event `e` on bus `b` allowed while instance `i` awaits -/
def allowedDuring (w : World) (i : IId) (b : BId) (e : EId) : Bool :=
  match (w.inst i).st with
  | .awaiting c =>
    (w.ev c).signal || desc w e c ||
      ((w.inst i).ev == e && (w.inst i).bus == b && (w.bus b).parallel)
  | _ => true
def noIntruder (w : World) (j : IId) : Bool :=
  (insts w).all fun i => i == j || allowedDuring w i (w.inst j).bus (w.inst j).ev
end C05

namespace C06
def siblingAwaiting (w : World) (i1 : IId) : Bool :=
  (w.bus (w.inst i1).bus).parallel && (insts w).any fun i3 =>
    i3 != i1 && (w.inst i3).bus == (w.inst i1).bus && (w.inst i3).ev == (w.inst i1).ev && isAwaiting (w.inst i3).st
def pairOk (w : World) (i1 i2 : IId) : Bool :=
  (w.inst i1).st != .running ||
  ((w.inst i1).bus == (w.inst i2).bus && (w.inst i1).ev == (w.inst i2).ev && (w.bus (w.inst i1).bus).parallel) ||
  siblingAwaiting w i1
/-- when instance `i2` starts, every other executing instance is suspended in an await (or a permitted sibling) -/
def exclusive (w : World) (i2 : IId) : Bool :=
  (insts w).all fun i1 => i1 == i2 || pairOk w i1 i2
end C06

namespace C13
def bound (w : World) (b : BId) : Bool :=
  match (w.bus b).maxh with
  | some n => n == 0 || (w.bus b).hist.length ≤ n
  | none => true
end C13

namespace C14
/-- a rejected dispatch leaves queue, history and every child list as they were -/
def rejectFrame (w w' : World) (b : BId) : Bool :=
  (w'.bus b).queue == (w.bus b).queue && (w'.bus b).hist == (w.bus b).hist &&
  (w'.bus b).unfinished == (w.bus b).unfinished &&
  (events w).all fun x => ((w'.ev x).results.map (·.children)) == ((w.ev x).results.map (·.children))
end C14

/-! ### signatures of the recorded findings -/

/-- F4: some event of the tree was enqueued on several buses and is signalled although it (again) carries a
    result that is not terminal (or an incomplete child): completion was declared after the first bus,
    a later bus added results -/
def f4Sig (w : World) (e : EId) : Bool :=
  (events w).any fun d => desc w d e && (w.ev d).signal && (w.ev d).path.length > 1 && !treeDone w d

/-- redispatch-done: the client dispatched an already completed (signalled) event of the tree again; handlers that have no
    result for it yet run and add results while the event stays signalled complete -/
def redoneSig (w : World) (redone : List EId) (e : EId) : Bool :=
  (events w).any fun d => desc w d e && redone.contains d && (w.ev d).signal && !treeDone w d

/-- F1: the polling loop ran out while a run loop, blocked on the global lock, holds the awaited event or a descendant -/
def f1Sig (w : World) (i : IId) (c : EId) : Bool :=
  !(w.ev c).signal && (w.inst i).iters ≥ w.cfg.maxPoll &&
  (buses w).any fun b => match (w.bus b).rl with | .took d => desc w d c | _ => false

/-- par-steal: the inline activation of another instance, one that is not itself a handler inside the awaited tree (a sibling
    on a parallel bus), holds the awaited event or a descendant -/
def parStealSig (w : World) (i : IId) (c : EId) : Bool :=
  (insts w).any fun j => j != i && !desc w (w.inst j).ev c &&
    match w.act (.inst j) with | some A => desc w A.ev c | none => false

def evicted (w : World) (m : Mon) (d : EId) : Bool :=
  !(w.ev d).signal && !inAnyHist w d && m.accepted.any (·.2 == d)

/-- xparent: an event of the tree lists, among the children of one of its handler results, an event whose (explicitly
    supplied) parent id names another event: when that child completes the completion walk follows the parent id, so the
    event that is waiting for it is never re-checked -/
def xparentSig (w : World) (e : EId) : Bool :=
  (events w).any fun d => desc w d e && !(w.ev d).signal &&
    (w.ev d).children.any fun c => (w.ev c).parent != some d && c != d

/-- names of the recorded hang mechanisms present in the tree of `e` -/
def hangSigs (w : World) (m : Mon) (e : EId) : List String :=
  (if xparentSig w e then ["xparent"] else []) ++
  (if m.tripped.any (fun d => desc w d.2 e) then ["F2"] else []) ++
  (if m.aborted.any (fun d => desc w d.2 e) then ["F5"] else []) ++
  (if (events w).any (fun d => desc w d e && evicted w m d) then ["F11"] else []) ++
  (if f4Sig w e then ["F4"] else []) ++
  (if m.dropped.any (fun d => desc w d.2 e) then ["stop-drop"] else []) ++
  (if (events w).any (fun d => desc w d e && !(w.ev d).signal &&
        (buses w).any fun b => (w.bus b).rl == .exited && (w.bus b).queue.contains d) then ["stopped-backlog"] else [])

/-- the tree of `c` still has work queued, in hand or in progress somewhere: what an awaiting handler's inline drain
    (F0: it takes every queue's head, whatever it is) is working towards -/
def treeOutstanding (w : World) (c : EId) : Bool :=
  (events w).any fun d => desc w d c &&
    ((buses w).any (fun b => (w.bus b).queue.contains d || (match (w.bus b).rl with | .took x => x == d | _ => false) ||
        (match w.act (.rl b) with | some A => A.ev == d | none => false)) ||
     (insts w).any (fun j => ((w.inst j).ev == d && (w.inst j).st != .finished) ||
        (match (w.inst j).took with | some (_, x) => x == d | none => false) ||
        (match w.act (.inst j) with | some A => A.ev == d | none => false)))

/-- is `d` reached from `t` through the tracked children lists (what the timeout cleanup walks; an event that merely names
    `t` as its parent - an explicit parent id given by the client - is not) -/
def childReachFrom (w : World) (d : EId) : Nat → List EId → List EId → Bool
  | 0, _, _ => false
  | _ + 1, [], _ => false
  | fuel + 1, t :: rest, seen =>
    if t == d then true
    else if seen.contains t then childReachFrom w d fuel rest seen
    else childReachFrom w d fuel ((w.ev t).children ++ rest) (t :: seen)

/-- is `d` reachable from `t` through `event_children` (every event is expanded once) -/
def childReach (w : World) (_fuel : Nat) (t d : EId) : Bool :=
  childReachFrom w d (walkBudget w + (w.ev t).children.length + 1) [t] []

/-- what can leave the tree of `e` stuck with a result that is never made terminal: an abandoned activation counts only
    when its event is not a descendant of the abandoning handler's event (descendants have their pending results cancelled
    together with that handler, C10) -/
def stuckSigs (w : World) (m : Mon) (e : EId) : List String :=
  (hangSigs w m e).filter (· != "F5") ++
  -- an abandoned activation is *covered* when, after it was abandoned, a handler of one of its event's ancestors recorded
  -- a timeout: that handler's cleanup cancels the abandoned event's pending results (C10); otherwise nothing ever does
  -- (the cleanup of a timed-out handler of event t cancels the pending results of t's children and their descendants,
  --  not those of t itself)
  (if (m.aborted.zipIdx).any (fun (d, k) => desc w d.2 e &&
        !m.timedOut.any (fun (t, n) => k < n && (w.ev t).children.any fun c => childReach w (w.ne + 1) c d.2))
   then ["F5"] else [])

def busHangSigs (w : World) (m : Mon) (b : BId) : List String :=
  (if (w.bus b).hist.any (fun e => xparentSig w e) then ["xparent"] else []) ++
  (if m.tripped.any (fun d => d.1 == b) then ["F2"] else []) ++
  (if m.aborted.any (fun d => d.1 == b) then ["F5"] else []) ++
  (if m.dropped.any (fun d => d.1 == b) then ["stop-drop"] else []) ++
  (if (w.bus b).rl == .exited && !(w.bus b).queue.isEmpty then ["stopped-backlog"] else [])

/-- the executor at the root of the chain of inline activations an executor belongs to (a run loop, or ordinary code) -/
def rootExec (w : World) : Nat → Proc → Proc
  | 0, p => p
  | fuel + 1, .inst i => rootExec w fuel (w.inst i).exec
  | _, p => p

/-- par-drain: the two instances run inside two different sibling handlers of one event on a parallel bus,
    both of which drain the queues inline -/
def parDrainSig (w : World) (i1 i2 : IId) : Bool :=
  let c1 := execChain w (w.ni + 1) i1
  let c2 := execChain w (w.ni + 1) i2
  c1.any fun a => c2.any fun b =>
    a != b && (w.inst a).bus == (w.inst b).bus && (w.inst a).ev == (w.inst b).ev && (w.bus (w.inst a).bus).parallel

/-! ### C07: forwarding reachability (evaluated at rest) -/

def fwdTargets (w : World) (b : BId) (ty : Key) : List BId :=
  (matching (w.bus b) ty).filterMap fun r => match r.kind with | .forward t => some t | _ => none

def reach (w : World) (ty : Key) : Nat → List BId → List BId → List BId
  | 0, _, seen => seen
  | fuel+1, frontier, seen =>
    match frontier with
    | [] => seen
    | b :: rest =>
      let new := (fwdTargets w b ty).eraseDups.filter fun t => !seen.contains t && !rest.contains t && t != b
      reach w ty fuel (rest ++ new) (if seen.contains b then seen else seen ++ [b])

/-! ### the monitor step -/

def procInst : Proc → Option IId | .inst i => some i | _ => none

def Mon.step (m : Mon) (w : World) (l : Label) (w' : World) : Mon × List Vio :=
  let v (prop clause : String) (sigs : List String) (detail : String) : List Vio := [{ prop, clause, sigs, detail }]
  -- late client action of an instance past its deadline
  let late (i : IId) : List Vio :=
    if (w.inst i).deadline != 0 && (w.inst i).deadline < w.now && !(w.inst i).cancelling then
      v "C10" "overrun" [] s!"instance {i} acts at {w.now}, deadline {(w.inst i).deadline}" else []
  let (m, vs) : Mon × List Vio := match l with
  | .dispatch p b e res =>
    -- (redone: the event had completed already, or this bus had accepted it before - while it waits in the queue again, the
    --  completion of its children can signal it complete)
    let m := if res == .ok && ((w.ev e).signal || m.accepted.contains (b, e)) && !m.redone.contains e then
      { m with redone := m.redone ++ [e] } else m
    let m := if res == .ok then { m with accepted := m.accepted ++ [(b, e)] } else m
    let m := if res == .ok && (w.bus b).rl == .exited then { m with lateAccepted := m.lateAccepted ++ [(b, e)] } else m
    let isFwd := match p with | .inst i => (w.inst i).kind.isForward | _ => false
    let m := if isFwd && res != .ok then { m with fwdRejected := true } else m
    let m := if !isFwd && res == .ok then { m with entries := m.entries ++ [(e, b)] } else m
    let E := w.ev e; let E' := w'.ev e
    let vs :=
      (if res == .ok && !C13.bound w' b then v "C13" "bound" [] s!"bus {b} history {(w'.bus b).hist.length}" else []) ++
      (if res != .ok && !C14.rejectFrame w w' b then v "C14" "rejectFrame" [] s!"bus {b} event {e}" else []) ++
      -- a forward is refused only for the documented reasons (queue / backlog limit, stopped bus); refused otherwise, the
      -- target bus never processes an event that reached it through forwarding (the guard of dispatch demands the model's
      -- outcome, so this fires on a history followed after the correspondence has broken)
      (if isFwd && res != .ok && res != dispatchOutcome w b then
         v "C07" "forwardRefused" [] s!"the forward of event {e} to bus {b} was refused ({repr res}) although the bus had room for it: bus {b} never processes the event"
       else []) ++
      (if E'.path.eraseDups.length != E'.path.length then v "C07" "pathDup" [] s!"event {e} path {E'.path}" else []) ++
      (match E.parent with
       | some x => if E'.parent != some x then v "C09" "parentOverwritten" [] s!"event {e}" else []
       | none => match p with
         | .inst i => if (w.inst i).ev != e && E'.parent != some (w.inst i).ev then v "C09" "wrongParent" [] s!"event {e}" else []
         | _ => if E'.parent.isSome then v "C09" "parentFromOrdinaryCode" [] s!"event {e}" else []) ++
      (if E'.parent == some e && E.parent != some e then v "C09" "selfParent" ["F8"] s!"event {e}" else []) ++
      (if (w'.ev e).children.contains e then v "C09" "selfChild" [] s!"event {e}" else []) ++
      (match p with
       | .inst i =>
         let I := w.inst i
         let before := ((w.ev I.ev).getRes? I.bus I.hid).map (·.children.count e) |>.getD 0
         let after := ((w'.ev I.ev).getRes? I.bus I.hid).map (·.children.count e) |>.getD 0
         let want := if res == .ok && I.ev != e then before + 1 else before
         (if after != want then v "C09" "childCount" [] s!"event {e} under instance {i}: {after} ≠ {want}" else []) ++ late i
       | _ => [])
    (m, vs)
  | .peRecTrip _ b e =>
    -- a trip the model does not compute (no handler of the bus recurs in the event's ancestry) is not finding F2:
    -- the accepted event is dropped before any of its handlers sees it
    -- either way an event that dispatch() accepted is taken from the queue and dropped without a handler having seen it and
    -- without anything raised to the dispatcher (C14; the documented guard is finding F2)
    if recursionTrips w b e then ({ m with tripped := m.tripped ++ [(b, e)], ended := m.ended ++ [(b, e)] },
          v "C14" "droppedByGuard" ["F2"] s!"bus {b}: event {e} was accepted by dispatch() and is dropped by the recursion guard when it is taken for processing")
    else ({ m with ended := m.ended ++ [(b, e)] },
          v "C01" "spuriousRecursionTrip" [] s!"bus {b}: the recursion guard raised for event {e} although none of its handlers recurs in the event's ancestry; no handler of the accepted event runs" ++
          v "C14" "droppedByGuard" [] s!"bus {b}: event {e} was accepted by dispatch() and is dropped when it is taken for processing: the recursion guard raised although none of its handlers recurs in the event's ancestry")
  | .peAbort p b e =>
    -- C11: processing is abandoned only because its executor is being cancelled (a stop(), a cancelled run-loop task, a
    -- timeout further up). Abandoned without that, an exception of a handler has escaped process_event: the remaining
    -- handlers of the event do not run and, for a run loop, the bus stops processing (silent on a conforming history,
    -- whose guard demands the cancellation)
    let cancelled := match p with | .inst i => cancelDueAll w i | .rl b' => (w.bus b').cancelReq | .ext => false
    let vs := if cancelled then [] else
      v "C11" "errorAbortsProcessing" [] s!"bus {b}: processing of event {e} was abandoned although nobody cancelled its executor: a handler's exception escaped"
    -- (C18: an activation that is abandoned before the temporary handler of a pending expect() had its turn has not "processed"
    --  the event for that call: the event leaves the call's list of candidates, unless the call was already resolved with it)
    let since' : List (Nat × List EId) := m.expSince.map (fun (x, l) =>
      match w.waiter x with
      | .expecting b' _ _ _ got _ => if b' == b && got != some e then (x, l.erase e) else (x, l)
      | _ => (x, l))
    let m := { m with expSince := since' }
    -- (only a genuine cancellation files the activation under the recorded mechanisms stop-drop / F5)
    (match p, cancelled with
     | .rl _, true => ({ m with dropped := m.dropped ++ [(b, e)], ended := m.ended ++ [(b, e)] }, vs)   -- run loop cancelled by stop()
     | _, true => ({ m with aborted := m.aborted ++ [(b, e)], ended := m.ended ++ [(b, e)] }, vs)
     | _, false => ({ m with ended := m.ended ++ [(b, e)] }, vs))
  | .peBegin p b e =>
    -- position, in the bus's enqueue order, of the occurrence of `e` whose processing begins now
    let k := (m.begun.filter (· == (b, e))).length
    let pos : Option Nat := (((w.bus b).enq.zipIdx.filter (fun (x : EId × Nat) => x.1 == e)).map (fun (x : EId × Nat) => x.2))[k]?
    let top : Option Nat := (m.rlPos.find? (fun (x : BId × Nat) => x.1 == b)).map (fun (x : BId × Nat) => x.2)
    let outOfOrder : Bool := match p, pos, top with
      | .rl _, some n, some t => decide (n < t)
      | _, _, _ => false
    let m := match p, pos with
      | .rl _, some n => { m with rlPos := (m.rlPos.filter (fun (x : BId × Nat) => x.1 != b)) ++ [(b, max n (top.getD 0))] }
      | _, _ => m
    let ordinary : List HId := ((matching (w.bus b) (w.ev e).etype).filter fun r =>
      match r.kind with | .async | .sync => true | _ => false).map (·.hid)
    let m := match p with | .rl _ => { m with heldExtra := m.heldExtra.erase (b, e) } | _ => m
    ({ m with begun := m.begun ++ [(b, e)], selAt := m.selAt ++ [((b, e), ordinary)],
              expSince := m.expSince.map fun (x, l) =>
                match w.waiter x with
                | .expecting b' _ _ _ _ _ => if b' == b then (x, l ++ [e]) else (x, l)
                | _ => (x, l) },
     -- (C02-inv is the recorded case: the handler that drains bus `b` inline runs under ANOTHER bus's run loop, while `b`'s
     --  own run loop waits for the lock with the earlier event in hand. Under `b`'s own run loop it cannot happen on the
     --  unchanged code: that run loop would be processing, not holding a taken event.)
     (if !C02.beginOrder w p b e then
        v "C02" "beginOrder"
          (match p with
           | .inst i =>
             (match (execChain w (w.ni + 1) i).getLast? with
              | some j => (match (w.inst j).exec with | .rl b'' => if b'' != b then ["C02-inv"] else [] | _ => ["C02-inv"])
              | none => ["C02-inv"])
           | _ => ["C02-inv"])
          s!"bus {b}: {e} begins inline while the run loop holds an earlier event" else []) ++
     -- ... nor while the run loop of the bus has taken an earlier event it has not begun (beside the one it is processing)
     (match p with
      | .inst _ =>
        let posOf (x : EId) : Option Nat := (((w.bus b).enq.zipIdx.filter (fun (y : EId × Nat) => y.1 == x)).map (fun (y : EId × Nat) => y.2)).getLast?
        (match m.heldExtra.find? (fun (x : BId × EId) => x.1 == b && x.2 != e &&
                 (match posOf x.2, pos with | some a, some n => decide (a < n) | _, _ => false)) with
         | some x => if C02.permitted w e then [] else
             v "C02" "beginOrder" [] s!"bus {b}: {e} begins inline although the bus's run loop has taken the earlier event {x.2} and not begun it, and {e} is neither awaited nor a descendant of an awaited event"
         | none => [])
      | _ => []) ++
     -- the run loop(s) of a bus begin events in the order they were enqueued
     (if outOfOrder then v "C02" "runLoopOrder" [] s!"bus {b}: the run loop begins event {e} (enqueue position {pos}) after having begun position {top}" else []) ++
     -- (a cancelled run-loop task may still receive the item of its pending get(), but it never processes it)
     (match p with
      | .rl b' => if m.rlCancelledBy.contains b' then
          v "C16" "cancelIgnored" [] s!"run loop of bus {b'} begins processing event {e} after its task was cancelled: the cancellation did not terminate it"
        else []
      | _ => []))
  | .hSched _ i b e k =>
    (m, if !C01.once w b e k then v "C01" "twice" [] s!"instance {i}: handler {k} of bus {b} scheduled again for event {e}" else [])
  | .hStart j =>
    let vs5 := (insts w').filterMap fun i =>
      if i == j || C05.allowedDuring w' i (w'.inst j).bus (w'.inst j).ev then none else
        some ({ prop := "C05", clause := "intruder",
                -- F0 explains an inline intruder only while the awaited tree still has outstanding work; a tree that is
                -- stuck is explained by what made it stuck, if that is a recorded mechanism
                sigs := (match (w'.inst j).exec, awaitedOf (w'.inst i).st with
                         | .inst _, some c => if treeOutstanding w' c then ["F0"] else stuckSigs w' m c
                         | _, _ => []),
                detail := s!"instance {j} (event {(w'.inst j).ev}) starts while instance {i} awaits {repr (w'.inst i).st}" } : Vio)
    let vs6 := (insts w').filterMap fun i1 =>
      if i1 == j || C06.pairOk w' i1 j then none else
        some ({ prop := "C06", clause := "overlap",
                sigs := (if parDrainSig w' i1 j then ["par-drain"] else []),
                detail := s!"instance {j} starts while instance {i1} is executing" } : Vio)
    let vs2 := if !C02.serialNoOverlap w' j then
        v "C02" "serialOverlap"
          (if (insts w').any (fun i1 => i1 != j && (w'.inst i1).bus == (w'.inst j).bus && (w'.inst i1).st == .running &&
                 parDrainSig w' i1 j) then ["par-drain"] else [])
          s!"instance {j} starts on a serial bus while a handler of another event of that bus is executing" else []
    let vs16 := if m.stopped.contains (w'.inst j).bus then
        -- (stop-drain: the start is the work of a handler of another bus - or of code whose own executor chain leads to one -
        --  that drains the stopped bus's queue; a handler started by what the stopped bus itself was running is not)
        v "C16" "startAfterStop" (match (w'.inst j).exec with
                                  | .inst i => if rootExec w' 8 (.inst i) != .rl (w'.inst j).bus then ["stop-drain"] else []
                                  | _ => [])
          s!"instance {j} of bus {(w'.inst j).bus} starts after stop() of that bus returned" else []
    (m, vs5 ++ vs6 ++ vs2 ++ vs16)
  | .hEnd i out =>
    let m := match (w.inst i).kind with
      | .expect x pred =>
        if expectOpen w x (w.inst i).hid && expectMatch pred (w.inst i).ev == some true then
          let since := ((m.expSince.find? (·.1 == x)).map (·.2)).getD []
          let key := match w.waiter x with | .expecting _ key _ _ _ _ => key | _ => 0
          let earlier := since.takeWhile (· != (w.inst i).ev)
          let m := { m with expResolvedAt := (m.expResolvedAt.filter (·.1 != x)) ++ [(x, w.now)] }
          if earlier.any (fun e => (key == 0 || (w.ev e).etype == key) && expectMatch pred e == some true &&
                (m.ended.filter (· == ((w.inst i).bus, e))).length < (m.begun.filter (· == ((w.inst i).bus, e))).length)
          then { m with expNested := m.expNested ++ [x] } else m
        else m
      | _ => m
    (m, if out != .cancelled then late i else [])
  | .hFinish i r =>
    let I := w.inst i
    let m := if r == .errTimeout then
        { m with everTimeout := true, timedOut := m.timedOut ++ [((w.inst i).ev, m.aborted.length)] } else m
    let frame := (events w).all fun x =>
      if x == I.ev then
        ((w'.ev x).results.map fun y => if y.hid == I.hid && y.bus == I.bus then none else some y) ==
        ((w.ev x).results.map fun y => if y.hid == I.hid && y.bus == I.bus then none else some y)
      else (w'.ev x).results == (w.ev x).results
    let vs := (if (r == .errHandler || r == .errValidation || r == .completed) && !frame then
                 v "C11" "frame" [] s!"instance {i}: recording its outcome changed another result" else []) ++
              (if r == .errTimeout && (events w').any (fun c => c != I.ev && desc w' c I.ev &&
                    (w'.ev I.ev).children.contains c && (w'.ev c).results.any (·.status == .pending)) then
                 v "C10" "childPending" [] s!"instance {i}: a child result stays pending after the timeout" else [])
    (m, vs)
  | .peEnd p b e =>
    ({ m with ended := m.ended ++ [(b, e)] },
     (if !C13.bound w' b then v "C13" "bound" [] s!"bus {b} history {(w'.bus b).hist.length} after processing {e}" else []) ++
     (if (w.bus b).wal && (match w.act p with | some A => !A.walDone | none => true) then
        v "C17" "noWalLine" [] s!"bus {b} finished event {e} without attempting its WAL line" else []))
  | .awaitBegin i _ => ({ m with badYield := m.badYield.filter (· != i) }, late i)
  | .awaitEnd i c =>
    (m,
     -- an in-handler await does not give up on an event that is sitting in a queue: its polling passes take one event per
     -- bus and pass, so a queued event is reached long before the passes run out (C04); in particular an event that was
     -- evicted from every history while still pending can be awaited like any other (C13)
     (if !(w.ev c).signal && (buses w).any (fun b => (w.bus b).queue.contains c) then
        v "C04" "gaveUpWhileQueued" [] s!"instance {i}: the await on event {c} returned although the event is still queued" ++
        (if !inAnyHist w c then
           v "C13" "evictedNotAwaitable" [] s!"instance {i}: the await on event {c}, which was evicted from the history while pending, returned although the event is still queued"
         else [])
      else []) ++
     if !treeDone w c then
          v "C04" "incomplete"
            -- (F1 - the child was taken by its bus's run loop, which then waits for the lock - explains an await that looked
            --  for the child first; not one that suspended while the child was still queued)
            ((if f1Sig w i c && !m.badYield.contains i then ["F1"] else []) ++ (if parStealSig w i c then ["par-steal"] else []) ++
             (if (w.ev c).signal && f4Sig w c then ["F4"] else []) ++
             (if (w.ev c).signal && redoneSig w m.redone c then ["redispatch-done"] else []) ++
             (if (w.ev c).signal then [] else hangSigs w m c))
            s!"instance {i}: awaited event {c} returned incomplete" else [])
  | .xAwaitEnd e =>
    (m, if !treeDone w e then v "C03" "returnNotDone" ((if f4Sig w e then ["F4"] else []) ++
          (if redoneSig w m.redone e then ["redispatch-done"] else [])) s!"event {e}" else [])
  | .readBus i got =>
    (m, if got != some (w.inst i).bus then
          v "C09" "eventBus"
            (if (w.ev (w.inst i).ev).path.contains (w.inst i).bus && (w.ev (w.inst i).ev).path.getLast? != some (w.inst i).bus then ["F9"] else [])
            s!"instance {i} on bus {(w.inst i).bus} read event_bus = {got}" else [])
  | .wiBegin x b =>
    ({ m with wiAccepted := (m.wiAccepted.filter (·.1 != x)) ++ [(x, (m.accepted.filter (·.1 == b)).map (·.2))] }, [])
  | .wiEnd x =>
    match w.waiter x with
    | .check b =>
      let acc := ((m.wiAccepted.find? (·.1 == x)).map (·.2)).getD []
      let unfinished := acc.filter fun e =>
        (m.ended.filter (· == (b, e))).length < ((m.accepted.filter (· == (b, e))).length.min 1)
      (m,
       (if !unfinished.isEmpty then
          v "C15" "returnedBeforeAcceptedFinished" (busHangSigs w m b) s!"bus {b}: events {unfinished} accepted before the call have not finished there" else []) ++
       -- (redundant on a conforming history, where an ended activation has no live handler: it speaks on a history that is
       -- followed after the correspondence has broken)
       (let live := (insts w).filter fun i => (w.inst i).bus == b && (w.inst i).st != .finished && acc.contains (w.inst i).ev
        if !live.isEmpty then
          v "C15" "returnedWhileHandlerRunning" (busHangSigs w m b) s!"bus {b}: handler instances {live} of events accepted before the call are still unfinished" else []) ++
       (if !(w.bus b).queue.isEmpty then
          v "C15" "returnedWithQueued"
            (if (w.bus b).queue.all (fun e => (w.ev e).status == .completed) then ["fwd-queued"] else [])
            s!"bus {b}: wait_until_idle returned with {(w.bus b).queue} still queued" else []))
    | _ => (m, [])
  | .stopEnd x =>
    match w.waiter x with
    | .stopping b d _ =>
      ({ m with stopped := m.stopped ++ [b] },
       if w.now > d then v "C16" "stopLate" [] s!"stop() of bus {b} returned at {w.now}, after its grace deadline {d}" else [])
    | _ => (m, [])
  | .rlCreate b => ({ m with stopped := m.stopped.filter (· != b), rlCancelledBy := m.rlCancelledBy.filter (· != b) }, [])
  | .cancelRl b => ({ m with rlCancelledBy := m.rlCancelledBy ++ [b] }, [])
  | .take (.rl _) b e =>
    -- (the guard lets a run loop take an event only while it polls, with nothing in hand)
    (if (w.bus b).rl != .polling then { m with heldExtra := m.heldExtra ++ [(b, e)] } else m, [])
  | .take (.inst i) b e =>
    -- C05: the inline drain of an awaiting handler stops with the completion of the awaited event
    (m, match awaitedOf (w.inst i).st with
        | some c => if (w.ev c).signal then
            v "C05" "drainAfterCompletion" [] s!"instance {i} takes event {e} off bus {b} inline although the event {c} it awaits is already complete"
          else []
        | none => [])
  | .rlDropExit b | .rlCancelled b =>
    (match (w.bus b).rl with
     | .took e => ({ m with dropped := m.dropped ++ [(b, e)] }, [])
     | _ => (m, []))
  | .expectBegin x b _ _ _ _ =>
    ({ m with expNested := m.expNested.filter (· != x), expResolvedAt := m.expResolvedAt.filter (·.1 != x), expSince := (m.expSince.filter (·.1 != x)) ++ [(x, [])],
              expHandlers := (m.expHandlers.filter (·.1 != x)) ++ [(x, (w.bus b).handlers)] }, [])
  | .expectEnd x got =>
    match w.waiter x with
    | .expecting b key _ _ _ _ =>
      let since := ((m.expSince.find? (·.1 == x)).map (·.2)).getD []
      let pred := match (w.bus b).handlers.find? (fun r => match r.kind with | .expect x' _ => x' == x | _ => false) with
        | some r => (match r.kind with | .expect _ p => p | _ => 0)
        | none => 0
      let cands := since.filter fun e => (key == 0 || (w.ev e).etype == key) && expectMatch pred e == some true
      let before := ((m.expHandlers.find? (·.1 == x)).map (·.2)).getD []
      (m,
       (match got with
        | some e =>
          (if !((key == 0 || (w.ev e).etype == key) && expectMatch pred e == some true) then
             v "C18" "nonMatching" [] s!"expect() of task {x} returned event {e}, which does not match" else []) ++
          (if cands.head? != some e then
             v "C18" "notFirst" (if m.expNested.contains x then ["F0"] else [])
               s!"expect() of task {x} returned {e}; first match in processing order is {cands.head?}" else [])
        | none =>
          -- the call times out although its future was resolved with a match before the deadline
          (match w.waiter x with
           | .expecting _ _ _ (some d) (some e) _ =>
             (match m.expResolvedAt.find? (·.1 == x) with
              | some (_, t) => if t < d then v "C18" "timeoutDespiteMatch" [] s!"expect() of task {x} timed out although event {e} matched at {t}, before its deadline {d}" else []
              | none => [])
           | _ => [])) ++
       (let perm (l : List Reg) := l.filter fun r => match r.kind with | .expect _ _ => false | _ => true
        if perm (w'.bus b).handlers != perm before ||
           (w'.bus b).handlers.any (fun r => match r.kind with | .expect x' _ => x' == x | _ => false) then
          v "C18" "registryNotRestored" [] s!"bus {b}: after expect() of task {x} its temporary handler is still registered or other handlers changed" else []))
    | _ => (m, [])
  | .expectCancel x =>
    let got : Option EId := none
    match w.waiter x with
    | .expecting b key _ _ _ _ =>
      let since := ((m.expSince.find? (·.1 == x)).map (·.2)).getD []
      let pred := match (w.bus b).handlers.find? (fun r => match r.kind with | .expect x' _ => x' == x | _ => false) with
        | some r => (match r.kind with | .expect _ p => p | _ => 0)
        | none => 0
      let cands := since.filter fun e => (key == 0 || (w.ev e).etype == key) && expectMatch pred e == some true
      let before := ((m.expHandlers.find? (·.1 == x)).map (·.2)).getD []
      (m,
       (match got with
        | some e =>
          (if !((key == 0 || (w.ev e).etype == key) && expectMatch pred e == some true) then
             v "C18" "nonMatching" [] s!"expect() of task {x} returned event {e}, which does not match" else []) ++
          (if cands.head? != some e then
             v "C18" "notFirst" (if m.expNested.contains x then ["F0"] else [])
               s!"expect() of task {x} returned {e}; first match in processing order is {cands.head?}" else [])
        | none => []) ++
       (let perm (l : List Reg) := l.filter fun r => match r.kind with | .expect _ _ => false | _ => true
        if perm (w'.bus b).handlers != perm before ||
           (w'.bus b).handlers.any (fun r => match r.kind with | .expect x' _ => x' == x | _ => false) then
          v "C18" "registryNotRestored" [] s!"bus {b}: after expect() of task {x} its temporary handler is still registered or other handlers changed" else []))
    | _ => (m, [])
  -- a handler that was selected for the activation is passed over only when its result has been made terminal meanwhile by a
  -- recorded mechanism (the guard of hSkip demands it, so this fires on a history followed after the correspondence has broken)
  | .hSkip _ b e k =>
    (m,
     if (match (w.ev e).getRes? b k with | some r => r.terminal | none => false) then [] else
       v "C01" "passedOver" [] s!"bus {b} event {e}: selected handler {k} is passed over although nothing had ended its result" ++
       (match (w.bus b).handlers.find? (fun r => r.hid == k) with
        | some r => (match r.kind with
          | .expect x _ =>
            v "C18" "subscriberPassedOver" []
              s!"bus {b} event {e}: the temporary handler of the pending expect() of task {x} is passed over, the call never sees the event"
          | _ => [])
        | none => []))
  | .walWrite p b e ok =>
    (m, (if ok && (w'.bus b).walLines.getLast? != some e then v "C17" "walLine" [] s!"bus {b} event {e}" else []) ++
        -- the line is written after the event's handlers on that bus have finished (the guard of walWrite demands it, so this
        -- fires on a history followed after the correspondence has broken)
        (match (insts w).find? (fun i => (w.inst i).bus == b && (w.inst i).ev == e && (w.inst i).exec == p && (w.inst i).st != .finished) with
         | some i => v "C17" "lineBeforeHandlersFinished" [] s!"bus {b} event {e}: the WAL line is written while handler instance {i} of the event on that bus has not finished"
         | none =>
           (match w.act p with
            | some A => if A.bus == b && A.ev == e && !A.todo.isEmpty then
                v "C17" "lineBeforeHandlersFinished" [] s!"bus {b} event {e}: the WAL line is written while handlers {A.todo} selected for the event on that bus have not even started"
              else []
            | none => [])))
  -- the client registers / removes a handler while an expect() call is pending on that bus: the registry that call has to
  -- leave behind changes accordingly
  | .on b key k kind =>
    ({ m with expHandlers := m.expHandlers.map fun (x, l) =>
        match w.waiter x with
        | .expecting b' _ _ _ _ _ => if b' == b then (x, l ++ [{ key := key, hid := k, kind := kind }]) else (x, l)
        | _ => (x, l) }, [])
  | .off b key k =>
    ({ m with expHandlers := m.expHandlers.map fun (x, l) =>
        match w.waiter x with
        | .expecting b' _ _ _ _ _ => if b' == b then (x, l.eraseP fun r => r.key == key && r.hid == k) else (x, l)
        | _ => (x, l) }, [])
  | _ => (m, [])
  -- C08: completion is stable (status and signal are functions of the results and of monotone flags,
  -- so "nothing changes" is "the result list is the one seen at first completion")
  let redispatched : Option EId := match l with | .dispatch _ _ e .ok => some e | _ => none
  let snaps0 := m.snaps.filter fun (e, _) => some e != redispatched   -- a new accepted dispatch restarts the life cycle
  let changed := snaps0.filterMap fun (e, rs) =>
    if (w'.ev e).results == rs then none else
      some ({ prop := "C08", clause := "changed",
              -- F4: an event on several buses was declared complete (or an await on it returned) after the first bus; a later
              -- bus adds results, or finishes results that were in progress when the await returned
              sigs := (if (w'.ev e).path.length > 1 &&
                         ((w'.ev e).results.any (fun r => !rs.any (fun x => x.bus == r.bus && x.hid == r.hid)) ||
                          rs.any (fun x => !x.terminal)) then ["F4"] else []) ++
                      -- (redispatch-done: a handler without a result runs on the re-dispatched event and adds one; a result
                      -- that was terminal when the event was seen complete stays what it was)
                      (if m.redone.contains e && rs.all (fun x => !x.terminal || (w'.ev e).results.contains x)
                       then ["redispatch-done"] else []),
              detail := s!"event {e} changed after it was complete" } : Vio)
  -- a changed event is watched again from its next completion on
  let snaps := snaps0.filter fun (e, rs) => (w'.ev e).results == rs
  -- observed complete: status completed with the completion signalled, or an await on it has just returned on the signal
  let awaited : Option EId := match l with
    -- (the second disjunct cannot occur on a conforming history: an await that gives up has used up its polling passes)
    -- (... and an await that returns although its event is still sitting in a queue has not used them up on that event either)
    -- (... nor has one that gives up on an event for which none of the recorded mechanisms accounts - the same list that
    --  explains an incomplete return for C04)
    | .awaitEnd i c => if (w.ev c).signal || (w.inst i).iters < w.cfg.maxPoll ||
                          (buses w).any (fun b => (w.bus b).queue.contains c) ||
                          (!f1Sig w i c && !parStealSig w i c && (hangSigs w m c).isEmpty) then some c else none
    | .xAwaitEnd e => some e
    | _ => none
  let fresh := (events w').filterMap fun e =>
    if (((w'.ev e).signal && (w'.ev e).status == .completed) || awaited == some e) && !snaps.any (·.1 == e) && some e != redispatched
    then some (e, (w'.ev e).results) else none
  -- C05: the in-handler await scans the queues without suspending first. Right after `awaitBegin i` (and right after an inline
  -- activation of `i` has ended) the awaiting task is running; while its awaited event is unsignalled and some queue holds an
  -- event, its next step is to take one. A step of any other task in between means the await suspended before looking.
  let otherTask (i : IId) : Bool := match l with
    | .take (.rl _) _ _ => true
    | .take (.inst j) _ _ => j != i
    | .hStart _ => true
    | .peBegin p _ _ => p != .inst i
    | .dispatch p _ _ _ => p != .inst i
    | _ => false
  let scanV : List Vio := match m.scanning with
    | some i =>
      (match awaitedOf (w.inst i).st with
       | some c =>
         if otherTask i && !(w.ev c).signal && (w.act (.inst i)).isNone && (w.inst i).took.isNone && !(w.inst i).cancelling &&
            (buses w).any (fun b => !(w.bus b).removed && !(w.bus b).queue.isEmpty) then
           [{ prop := "C05", clause := "notImmediate", sigs := [],
              detail := s!"instance {i} awaits event {c} with events queued, but another task runs before it takes one" }]
         else []
       | none => [])
    | none => []
  -- ... and it suspends (`sleep(0)`) only after a pass over the queues that found every one of them empty
  let yieldV : List Vio := match l with
    | .pollYield i =>
      (match awaitedOf (w.inst i).st with
       | some c =>
         if !(w.ev c).signal && !(w.inst i).cancelling && (buses w).any (fun b => !(w.bus b).removed && !(w.bus b).queue.isEmpty) then
           [{ prop := "C05", clause := "notImmediate", sigs := [],
              detail := s!"instance {i} awaits event {c} with events queued, but it suspends instead of taking one" }]
         else []
       | none => [])
    | _ => []
  -- ... and it is bounded: after cfg.maxPoll passes the await gives up (the guard of pollYield demands it)
  let spinV : List Vio := match l with
    | .pollYield i =>
      if (w.inst i).yields >= w.cfg.maxPoll then
        [{ prop := "C04", clause := "pollsBeyondLimit", sigs := [],
           detail := s!"instance {i}: the polling loop of its await goes on after {w.cfg.maxPoll} passes: the await never gives up" },
         { prop := "C03", clause := "handlerPollsForEver", sigs := [],
           detail := s!"instance {i} polls for ever inside an await: its handler never returns, so its event never completes and awaiting it from ordinary code never returns" }]
      else []
    | _ => []
  let scanning : Option IId := match l with
    | .awaitBegin i _ => some i
    | .peEnd (.inst i) _ _ => some i
    | _ => none
  -- C10: a handler whose timeout (or cancellation) has been recorded has stopped executing: no further client action of that
  -- instance follows (the guards forbid these labels on a finished instance, so this only fires on a history that is
  -- followed after the correspondence has broken; it then is the concrete failing input)
  let actor : Option IId := match l with
    | .hEnd i _ => some i
    | .awaitBegin i _ => some i
    | .dispatch (.inst i) _ _ _ => some i
    | .readBus i _ => some i
    | _ => none
  let zombieV : List Vio := match actor with
    | some i =>
      let I := w.inst i
      if I.st == .finished &&
         (match (w.ev I.ev).getRes? I.bus I.hid with | some r => r.err == .timeout || r.err == .cancelled | none => false) then
        [{ prop := "C10", clause := "ranOnAfterTimeout", sigs := [],
           detail := s!"instance {i} still acts after its timeout / cancellation was recorded as its result" }]
      else []
    | none => []
  -- ... and neither does a handler it was running inline while it awaited a child event (on a serial bus the child's handlers
  -- run inside the awaiting handler's task: its cancellation reaches them before its own timeout is recorded)
  let timedOut (i : IId) : Bool :=
    (w.inst i).st == .finished &&
    (match (w.ev (w.inst i).ev).getRes? (w.inst i).bus (w.inst i).hid with
     | some r => r.err == .timeout || r.err == .cancelled | none => false)
  let rec timedOutAbove (fuel : Nat) (j : IId) : Option IId := match fuel with
    | 0 => none
    | fuel + 1 => match (w.inst j).exec with
      | .inst i => if (w.bus (w.inst j).bus).parallel then none else if timedOut i then some i else timedOutAbove fuel i
      | _ => none
  let runner : Option IId := match l with
    | .hStart j => some j
    | .hEnd j out => if out == .cancelled then none else some j
    | .awaitBegin j _ => some j
    | .dispatch (.inst j) _ _ _ => some j
    | _ => none
  let orphanV : List Vio := match runner with
    | some j =>
      (match timedOutAbove 8 j with
       | some i =>
         [{ prop := "C10", clause := "awaitedChildRanOn", sigs := [],
            detail := s!"instance {j}, run inside the await of instance {i}, still acts after the timeout / cancellation of instance {i} was recorded" }]
       | none => [])
    | none => []
  let badYield := match l with
    | .pollYield i => if yieldV.isEmpty then m.badYield else m.badYield ++ [i]
    | _ => m.badYield
  ({ m with snaps := snaps ++ fresh, scanning := scanning, badYield := badYield }, vs ++ changed ++ scanV ++ yieldV ++ spinV ++ zombieV ++ orphanV)

/-- is the model quiescent: nothing queued on a live bus, nothing in hand, no open activation, no live instance -/
def isRest (w : World) : Bool :=
  ((buses w).all fun b =>
    ((w.bus b).queue.isEmpty || !(w.bus b).running || (w.bus b).rl == .exited) &&
    ((w.bus b).rl == .polling || (w.bus b).rl == .none || (w.bus b).rl == .exited) &&
    (w.act (.rl b)).isNone) &&
  ((insts w).all fun i => (w.inst i).st == .finished || isAwaiting (w.inst i).st || (w.inst i).st == .running) &&
  w.lock.isNone

/-- why the model is not at rest (for the driver's rejection message) -/
def restWhy (w : World) : String :=
  let bs := (buses w).filterMap fun b =>
    if !(((w.bus b).queue.isEmpty || !(w.bus b).running || (w.bus b).rl == .exited)) then some s!"bus {b} has a queued event and a live run loop"
    else if !((w.bus b).rl == .polling || (w.bus b).rl == .none || (w.bus b).rl == .exited) then some s!"run loop {b} holds an event"
    else if (w.act (.rl b)).isSome then some s!"run loop {b} has an open activation" else none
  let is := (insts w).filterMap fun i =>
    if (w.inst i).st == .finished || isAwaiting (w.inst i).st || (w.inst i).st == .running then none else some s!"instance {i} is {repr (w.inst i).st}"
  "; ".intercalate (bs ++ is ++ (if w.lock.isNone then [] else ["the global lock is held"]))

/-- clauses evaluated in a quiescent state (no runnable work left) -/
def Mon.rest (m : Mon) (w : World) : List Vio :=
  let v (prop clause : String) (sigs : List String) (detail : String) : List Vio := [{ prop, clause, sigs, detail }]
  let acc := m.accepted.eraseDups
  -- events abandoned because their bus was stopped / its run loop cancelled are outside these clauses
  let stopRelated (l : List String) : Bool := l.contains "stop-drop" || l.contains "stopped-backlog"
  -- C14: an event accepted by a bus whose run loop had exited is processed all the same (the dispatch starts a new run
  -- loop); it does not sit in the queue of a bus that has no run loop
  (m.lateAccepted.eraseDups.flatMap fun (b, e) =>
    if (w.bus b).queue.contains e && ((w.bus b).rl == .exited || (w.bus b).rl == .none) then
      v "C14" "acceptedButNeverProcessed" [] s!"bus {b}: event {e} was accepted after the run loop had exited and is still queued, no run loop was started for it"
    else []) ++
  (acc.flatMap fun (b, e) =>
    let hs := hangSigs w m e
    let bs := busHangSigs w m b
    -- (an event of whose tree nothing was dropped by, or is stuck behind, a stopped run loop is held to the event-level
    --  clauses even if bus b was stopped later on; only the per-bus clause is waived for a stopped bus)
    if stopRelated hs then [] else
    -- every ordinary handler that was registered for a matching pattern when an activation of (b, e) began has a terminal
    -- result; an accepted event that was never begun is judged against the registry as it is now
    (let begunSel := (m.selAt.filter (·.1 == (b, e))).flatMap (·.2)
     -- (every accepted dispatch of (b, e) has led to an activation: otherwise the one that has not is judged as never begun)
     let ok := if m.begun.count (b, e) ≥ m.accepted.count (b, e) then
         begunSel.all fun k => match (w.ev e).getRes? b k with | some x => x.terminal | none => false
       else C01.noSkip w b e
     if !ok && !stopRelated bs then v "C01" "skipped" (hs ++ bs) s!"bus {b} event {e}" else []) ++
    -- C14: an accepted event that is no longer in the queue of the bus has been processed there (an activation began for every
    -- accepted dispatch) - unless the recursion guard (F2) or a stopped / cancelled run loop accounts for it
    (if m.begun.count (b, e) < m.accepted.count (b, e) && !(w.bus b).queue.contains e && !m.tripped.contains (b, e) &&
        !stopRelated bs && !m.dropped.contains (b, e) then
       v "C14" "takenNeverProcessed" (hs ++ bs) s!"bus {b} accepted event {e} and took it from its queue, but never processed it (activations begun {m.begun.count (b, e)}, accepted dispatches {m.accepted.count (b, e)})"
     else []) ++
    (if treeDone w e && !(w.ev e).signal then v "C03" "doneNotSignalled" hs s!"event {e}" else []) ++
    (if m.everTimeout && !((w.ev e).status == .completed && (w.ev e).signal) then
       v "C10" "notCompletedAfterTimeout" hs s!"event {e}" else []) ++
    (if !(w.ev e).signal && hs.isEmpty then v "C03" "neverCompleted" [] s!"event {e}" else []) ++
    -- C11: a handler's exception must not keep its event from completing (no other recorded mechanism being involved)
    (if !(w.ev e).signal && hs.isEmpty && (w.ev e).results.any (fun r => r.err == .handler) then
       v "C11" "errorBlocksCompletion" [] s!"event {e} has a handler error result and never completes" else [])) ++
  ((insts w).flatMap fun i =>
    if isAwaiting (w.inst i).st then v "C04" "deadlock" [] s!"instance {i} still awaiting at rest" else []) ++
  -- C10: a handler whose deadline has passed and whose task has been cancelled stops executing and gets its TimeoutError
  -- recorded - it is not still alive when nothing moves any more
  ((insts w).flatMap fun i =>
    if (w.inst i).cancelling && (w.inst i).st != .finished && (w.inst i).st != .ended && (w.inst i).deadline != 0 && (w.inst i).deadline ≤ w.now &&
       !stopRelated (hangSigs w m (w.inst i).ev ++ busHangSigs w m (w.inst i).bus) then
      v "C10" "timedOutHandlerNeverEnds" [] s!"instance {i} (bus {(w.inst i).bus} event {(w.inst i).ev}) was cancelled at its deadline {(w.inst i).deadline} and is still executing at rest: no TimeoutError was recorded for it, the remaining handlers of its event never run"
    else []) ++
  -- a handler body that has ended (returned or raised) has its outcome recorded
  ((insts w).flatMap fun i =>
    if (w.inst i).st == .ended && !stopRelated (hangSigs w m (w.inst i).ev ++ busHangSigs w m (w.inst i).bus) then
      (if (w.inst i).out == .raise then
         v "C11" "unrecorded" [] s!"instance {i} (bus {(w.inst i).bus} event {(w.inst i).ev} handler {(w.inst i).hid}) raised but no error result was ever recorded"
       else v "C08" "unrecorded" [] s!"instance {i}: body ended but its outcome was never recorded")
    else []) ++
  ((List.range w.nx).flatMap fun x =>
    match w.waiter x with
    | .join b _ _ | .idleWait b _ | .check b =>
      if stopRelated (busHangSigs w m b) then [] else
      v "C15" "hang" (busHangSigs w m b) s!"task {x}: wait_until_idle of bus {b} still blocked at rest"
    | .stopping b _ _ => v "C16" "stopHang" [] s!"task {x}: stop() of bus {b} still blocked at rest"
    | _ => []) ++
  ((buses w).flatMap fun b =>
    if (w.bus b).created && (w.bus b).unfinished != 0 && !stopRelated (busHangSigs w m b) then
      v "C15" "unfinishedAtRest" (busHangSigs w m b) s!"bus {b} unfinished {(w.bus b).unfinished}" else []) ++
  -- C07: each event's path is exactly the set of buses reachable through forwarding from its first bus, each begun once
  ((events w).flatMap fun e =>
    match (w.ev e).path with
    | [] => []
    | b0 :: _ =>
      if m.fwdRejected || (m.accepted.filter (·.2 == e)).length != (w.ev e).path.length then [] else
      let roots := ((m.entries.filter (·.1 == e)).map (·.2)).eraseDups
      let _ := b0
      let r := reach w (w.ev e).etype (w.nb * w.nb + 1) roots []
      let arrival := (m.accepted.filter (·.2 == e)).map (·.1)
      if stopRelated (hangSigs w m e) then [] else
      (if r.mergeSort != (w.ev e).path.mergeSort then
         v "C07" "pathNotReach" (hangSigs w m e) s!"event {e}: path {(w.ev e).path}, reachable {r}" else []) ++
      (if arrival != (w.ev e).path then v "C07" "pathNotArrivalOrder" [] s!"event {e}: path {(w.ev e).path}, arrivals {arrival}" else []) ++
      ((w.ev e).path.flatMap fun b =>
        if (m.begun.filter (· == (b, e))).length != 1 && !stopRelated (busHangSigs w m b) then
          v "C07" "notOncePerBus" (hangSigs w m e ++ busHangSigs w m b) s!"event {e} bus {b}: {(m.begun.filter (· == (b, e))).length} activations" else []))

end Bubus
