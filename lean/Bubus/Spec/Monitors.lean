/-
  Bubus.Spec.Monitors — the properties C01…C16 as executable step predicates over the model.

  `Mon.step m w l w'` is evaluated by the driver for every accepted step `w --l--> w'` of a REAL history, and the
  theorems in `Bubus/Proofs` are about the same clause functions (`C01.once`, `C13.bound`, …).
  A failing clause yields a `Vio` carrying the names of the known-finding signatures (narrow, executable
  descriptions of the recorded mechanisms) that match the failing situation; suppression of a violation is decided by
  those names and `/verif/known_findings.json` only.
-/
import Bubus.Model.Step
namespace Bubus

structure Vio where
  prop : String
  clause : String
  sigs : List String
  detail : String
  deriving Repr

/-- ghost state of the monitors (history facts that are not part of the library's state) -/
structure Mon where
  accepted : List (BId × EId) := []     -- accepted dispatches, in order
  begun : List (BId × EId) := []        -- activations begun, in order
  tripped : List (BId × EId) := []      -- activations that hit the recursion guard (F2)
  aborted : List (BId × EId) := []      -- inline activations that were abandoned (F5)
  snaps : List (EId × List Res) := []   -- results of an event when it was first complete and signalled
  entries : List (EId × BId) := []      -- accepted dispatches that are not forwards: (event, entry bus)
  fwdRejected : Bool := false
  everTimeout : Bool := false
  deriving Repr

def insts (w : World) : List IId := List.range w.ni
def events (w : World) : List EId := List.range w.ne
def buses (w : World) : List BId := List.range w.nb

def desc (w : World) (e c : EId) : Bool := isDesc w (w.ne + 1) e c

/-! ### clause functions (the objects of the theorems) -/

namespace C01
/-- no instance of (b, e, k) exists when one is scheduled -/
def once (w : World) (b : BId) (e : EId) (k : HId) : Bool :=
  !(insts w).any fun j => (w.inst j).bus == b && (w.inst j).ev == e && (w.inst j).hid == k
/-- at rest: every ordinary handler registered on `b` that matches `e` has a terminal result on `e` -/
def noSkip (w : World) (b : BId) (e : EId) : Bool :=
  (matching (w.bus b) (w.ev e).etype).all fun r =>
    match r.kind with
    | .async | .sync => (match (w.ev e).getRes? b r.hid with | some x => x.terminal | none => false)
    | _ => true
end C01

namespace C02
/-- an inline activation of `e` on bus `b` may overtake the event held by `b`'s run loop only if `e` is awaited
    (or a descendant of an awaited event) -/
def permitted (w : World) (e : EId) : Bool :=
  (insts w).any fun j => match (w.inst j).st with | .awaiting c => desc w e c | _ => false
def beginOrder (w : World) (p : Proc) (b : BId) (e : EId) : Bool :=
  match p, (w.bus b).rl with
  | .inst _, .took e1 => e1 == e || permitted w e
  | _, _ => true
/-- serial bus: no handler of another event of the same bus is executing un-suspended -/
def serialNoOverlap (w : World) (i : IId) : Bool :=
  let I := w.inst i
  (w.bus I.bus).parallel || !(insts w).any fun j =>
    j != i && (w.inst j).bus == I.bus && (w.inst j).ev != I.ev && (w.inst j).st == .running
end C02

namespace C05
/-- is a start of an instance for event `e` on bus `b` allowed while instance `i` awaits -/
def allowedDuring (w : World) (i : IId) (b : BId) (e : EId) : Bool :=
  match (w.inst i).st with
  | .awaiting c =>
    (w.ev c).signal || desc w e c ||
      ((w.inst i).ev == e && (w.inst i).bus == b && (w.bus b).parallel)
  | _ => true
def noIntruder (w : World) (j : IId) : Bool :=
  (insts w).all fun i => i == j || allowedDuring w i (w.inst j).bus (w.inst j).ev
end C05

namespace C06
def siblingAwaiting (w : World) (i1 : IId) : Bool :=
  (w.bus (w.inst i1).bus).parallel && (insts w).any fun i3 =>
    i3 != i1 && (w.inst i3).bus == (w.inst i1).bus && (w.inst i3).ev == (w.inst i1).ev && isAwaiting (w.inst i3).st
def pairOk (w : World) (i1 i2 : IId) : Bool :=
  (w.inst i1).st != .running ||
  ((w.inst i1).bus == (w.inst i2).bus && (w.inst i1).ev == (w.inst i2).ev && (w.bus (w.inst i1).bus).parallel) ||
  siblingAwaiting w i1
/-- when instance `i2` starts, every other executing instance is suspended in an await (or a permitted sibling) -/
def exclusive (w : World) (i2 : IId) : Bool :=
  (insts w).all fun i1 => i1 == i2 || pairOk w i1 i2
end C06

namespace C13
def bound (w : World) (b : BId) : Bool :=
  match (w.bus b).maxh with
  | some n => n == 0 || (w.bus b).hist.length ≤ n
  | none => true
end C13

namespace C14
/-- a rejected dispatch leaves queue, history and every child list as they were -/
def rejectFrame (w w' : World) (b : BId) : Bool :=
  (w'.bus b).queue == (w.bus b).queue && (w'.bus b).hist == (w.bus b).hist &&
  (w'.bus b).unfinished == (w.bus b).unfinished &&
  (events w).all fun x => ((w'.ev x).results.map (·.children)) == ((w.ev x).results.map (·.children))
end C14

/-! ### signatures of the recorded findings -/

/-- F4: some event of the tree was enqueued on several buses and is signalled although it (again) carries a
    result that is not terminal (or an incomplete child): completion was declared after the first bus,
    a later bus added results -/
def f4Sig (w : World) (e : EId) : Bool :=
  (events w).any fun d => desc w d e && (w.ev d).signal && (w.ev d).path.length > 1 && !treeDone w d

/-- F1: the polling loop ran out while a run loop, blocked on the global lock, holds the awaited event or a descendant -/
def f1Sig (w : World) (i : IId) (c : EId) : Bool :=
  !(w.ev c).signal && (w.inst i).iters ≥ w.cfg.maxPoll &&
  (buses w).any fun b => match (w.bus b).rl with | .took d => desc w d c | _ => false

/-- par-steal: another instance's inline activation holds the awaited event or a descendant -/
def parStealSig (w : World) (i : IId) (c : EId) : Bool :=
  (insts w).any fun j => j != i && match w.act (.inst j) with | some A => desc w A.ev c | none => false

def evicted (w : World) (m : Mon) (d : EId) : Bool :=
  !(w.ev d).signal && !inAnyHist w d && m.accepted.any (·.2 == d)

/-- names of the recorded hang mechanisms present in the tree of `e` -/
def hangSigs (w : World) (m : Mon) (e : EId) : List String :=
  (if m.tripped.any (fun d => desc w d.2 e) then ["F2"] else []) ++
  (if m.aborted.any (fun d => desc w d.2 e) then ["F5"] else []) ++
  (if (events w).any (fun d => desc w d e && evicted w m d) then ["F11"] else []) ++
  (if f4Sig w e then ["F4"] else [])

def busHangSigs (w : World) (m : Mon) (b : BId) : List String :=
  (if m.tripped.any (fun d => d.1 == b) then ["F2"] else []) ++
  (if m.aborted.any (fun d => d.1 == b) then ["F5"] else [])

/-- chain of executors of an instance up to the first instance that runs on a parallel bus -/
def parRoot (w : World) : Nat → IId → Option (BId × EId × IId)
  | 0, _ => none
  | fuel+1, i =>
    match (w.inst i).exec with
    | .inst j => if (w.bus (w.inst j).bus).parallel then some ((w.inst j).bus, (w.inst j).ev, j) else parRoot w fuel j
    | _ => none

def parDrainSig (w : World) (i1 i2 : IId) : Bool :=
  match parRoot w (w.ni + 1) i1, parRoot w (w.ni + 1) i2 with
  | some (b1, e1, j1), some (b2, e2, j2) => b1 == b2 && e1 == e2 && j1 != j2
  | _, _ => false

/-! ### C07: forwarding reachability (evaluated at rest) -/

def fwdTargets (w : World) (b : BId) (ty : Key) : List BId :=
  (matching (w.bus b) ty).filterMap fun r => match r.kind with | .forward t => some t | _ => none

def reach (w : World) (ty : Key) : Nat → List BId → List BId → List BId
  | 0, _, seen => seen
  | fuel+1, frontier, seen =>
    match frontier with
    | [] => seen
    | b :: rest =>
      let new := (fwdTargets w b ty).eraseDups.filter fun t => !seen.contains t && !rest.contains t && t != b
      reach w ty fuel (rest ++ new) (if seen.contains b then seen else seen ++ [b])

/-! ### the monitor step -/

def procInst : Proc → Option IId | .inst i => some i | _ => none

def Mon.step (m : Mon) (w : World) (l : Label) (w' : World) : Mon × List Vio :=
  let v (prop clause : String) (sigs : List String) (detail : String) : List Vio := [{ prop, clause, sigs, detail }]
  -- late client action of an instance past its deadline
  let late (i : IId) : List Vio :=
    if (w.inst i).deadline != 0 && (w.inst i).deadline < w.now then
      v "C10" "overrun" [] s!"instance {i} acts at {w.now}, deadline {(w.inst i).deadline}" else []
  let (m, vs) : Mon × List Vio := match l with
  | .dispatch p b e res =>
    let m := if res == .ok then { m with accepted := m.accepted ++ [(b, e)] } else m
    let isFwd := match p with | .inst i => (w.inst i).kind.isForward | _ => false
    let m := if isFwd && res != .ok then { m with fwdRejected := true } else m
    let m := if !isFwd && res == .ok then { m with entries := m.entries ++ [(e, b)] } else m
    let E := w.ev e; let E' := w'.ev e
    let vs :=
      (if res == .ok && !C13.bound w' b then v "C13" "bound" [] s!"bus {b} history {(w'.bus b).hist.length}" else []) ++
      (if res != .ok && !C14.rejectFrame w w' b then v "C14" "rejectFrame" [] s!"bus {b} event {e}" else []) ++
      (if E'.path.eraseDups.length != E'.path.length then v "C07" "pathDup" [] s!"event {e} path {E'.path}" else []) ++
      (match E.parent with
       | some x => if E'.parent != some x then v "C09" "parentOverwritten" [] s!"event {e}" else []
       | none => match p with
         | .inst i => if (w.inst i).ev != e && E'.parent != some (w.inst i).ev then v "C09" "wrongParent" [] s!"event {e}" else []
         | _ => if E'.parent.isSome then v "C09" "parentFromOrdinaryCode" [] s!"event {e}" else []) ++
      (if E'.parent == some e then v "C09" "selfParent" ["F8"] s!"event {e}" else []) ++
      (if (w'.ev e).children.contains e then v "C09" "selfChild" [] s!"event {e}" else []) ++
      (match p with
       | .inst i =>
         let I := w.inst i
         let before := ((w.ev I.ev).getRes? I.bus I.hid).map (·.children.count e) |>.getD 0
         let after := ((w'.ev I.ev).getRes? I.bus I.hid).map (·.children.count e) |>.getD 0
         let want := if res == .ok && I.ev != e then before + 1 else before
         (if after != want then v "C09" "childCount" [] s!"event {e} under instance {i}: {after} ≠ {want}" else []) ++ late i
       | _ => [])
    (m, vs)
  | .peRecTrip _ b e => ({ m with tripped := m.tripped ++ [(b, e)] }, [])
  | .peAbort _ b e => ({ m with aborted := m.aborted ++ [(b, e)] }, [])
  | .peBegin p b e =>
    ({ m with begun := m.begun ++ [(b, e)] },
     if !C02.beginOrder w p b e then v "C02" "beginOrder" ["C02-inv"] s!"bus {b}: {e} begins inline while the run loop holds an earlier event" else [])
  | .hSched _ i b e k =>
    (m, if !C01.once w b e k then v "C01" "twice" [] s!"instance {i}: handler {k} of bus {b} scheduled again for event {e}" else [])
  | .hStart j =>
    let vs5 := (insts w').filterMap fun i =>
      if i == j || C05.allowedDuring w' i (w'.inst j).bus (w'.inst j).ev then none else
        some ({ prop := "C05", clause := "intruder",
                sigs := (match (w'.inst j).exec with | .inst _ => ["F0"] | _ => []),
                detail := s!"instance {j} (event {(w'.inst j).ev}) starts while instance {i} awaits {repr (w'.inst i).st}" } : Vio)
    let vs6 := (insts w').filterMap fun i1 =>
      if i1 == j || C06.pairOk w' i1 j then none else
        some ({ prop := "C06", clause := "overlap",
                sigs := (if parDrainSig w' i1 j then ["par-drain"] else []),
                detail := s!"instance {j} starts while instance {i1} is executing" } : Vio)
    let vs2 := if !C02.serialNoOverlap w' j then
        v "C02" "serialOverlap"
          (if (insts w').any (fun i1 => i1 != j && (w'.inst i1).bus == (w'.inst j).bus && (w'.inst i1).st == .running &&
                 parDrainSig w' i1 j) then ["par-drain"] else [])
          s!"instance {j} starts on a serial bus while a handler of another event of that bus is executing" else []
    (m, vs5 ++ vs6 ++ vs2)
  | .hEnd i out => (m, if out != .cancelled then late i else [])
  | .hFinish i r =>
    let I := w.inst i
    let m := if r == .errTimeout then { m with everTimeout := true } else m
    let frame := (events w).all fun x =>
      if x == I.ev then
        ((w'.ev x).results.map fun y => if y.hid == I.hid && y.bus == I.bus then none else some y) ==
        ((w.ev x).results.map fun y => if y.hid == I.hid && y.bus == I.bus then none else some y)
      else (w'.ev x).results == (w.ev x).results
    let vs := (if (r == .errHandler || r == .errValidation || r == .completed) && !frame then
                 v "C11" "frame" [] s!"instance {i}: recording its outcome changed another result" else []) ++
              (if r == .errTimeout && (events w').any (fun c => c != I.ev && desc w' c I.ev &&
                    (w'.ev I.ev).children.contains c && (w'.ev c).results.any (·.status == .pending)) then
                 v "C10" "childPending" [] s!"instance {i}: a child result stays pending after the timeout" else [])
    (m, vs)
  | .peEnd _ b e =>
    (m, if !C13.bound w' b then v "C13" "bound" [] s!"bus {b} history {(w'.bus b).hist.length} after processing {e}" else [])
  | .awaitBegin i _ => (m, late i)
  | .awaitEnd i c =>
    (m, if !treeDone w c then
          v "C04" "incomplete"
            ((if f1Sig w i c then ["F1"] else []) ++ (if parStealSig w i c then ["par-steal"] else []) ++
             (if (w.ev c).signal && f4Sig w c then ["F4"] else []) ++
             (if (w.ev c).signal then [] else hangSigs w m c))
            s!"instance {i}: awaited event {c} returned incomplete" else [])
  | .xAwaitEnd e =>
    (m, if !treeDone w e then v "C03" "returnNotDone" (if f4Sig w e then ["F4"] else []) s!"event {e}" else [])
  | _ => (m, [])
  -- C08: completion is stable (status and signal are functions of the results and of monotone flags,
  -- so "nothing changes" is "the result list is the one seen at first completion")
  let redispatched : Option EId := match l with | .dispatch _ _ e .ok => some e | _ => none
  let snaps0 := m.snaps.filter fun (e, _) => some e != redispatched   -- a new accepted dispatch restarts the life cycle
  let changed := snaps0.filterMap fun (e, rs) =>
    if (w'.ev e).results == rs then none else
      some ({ prop := "C08", clause := "changed",
              sigs := (if (w'.ev e).path.length > 1 &&
                         (w'.ev e).results.any (fun r => !rs.any (fun x => x.bus == r.bus && x.hid == r.hid)) then ["F4"] else []),
              detail := s!"event {e} changed after it was complete" } : Vio)
  -- a changed event is watched again from its next completion on
  let snaps := snaps0.filter fun (e, rs) => (w'.ev e).results == rs
  let fresh := (events w').filterMap fun e =>
    if (w'.ev e).signal && (w'.ev e).status == .completed && !snaps.any (·.1 == e) && some e != redispatched
    then some (e, (w'.ev e).results) else none
  ({ m with snaps := snaps ++ fresh }, vs ++ changed)

/-- is the model quiescent: nothing queued on a live bus, nothing in hand, no open activation, no live instance -/
def isRest (w : World) : Bool :=
  ((buses w).all fun b =>
    ((w.bus b).queue.isEmpty || !(w.bus b).running || (w.bus b).rl == .exited) &&
    ((w.bus b).rl == .polling || (w.bus b).rl == .none || (w.bus b).rl == .exited) &&
    (w.act (.rl b)).isNone) &&
  ((insts w).all fun i => (w.inst i).st == .finished || isAwaiting (w.inst i).st || (w.inst i).st == .running) &&
  w.lock.isNone

/-- clauses evaluated in a quiescent state (no runnable work left) -/
def Mon.rest (m : Mon) (w : World) : List Vio :=
  let v (prop clause : String) (sigs : List String) (detail : String) : List Vio := [{ prop, clause, sigs, detail }]
  let acc := m.accepted.eraseDups
  (acc.flatMap fun (b, e) =>
    (if !C01.noSkip w b e then v "C01" "skipped" (hangSigs w m e ++ busHangSigs w m b) s!"bus {b} event {e}" else []) ++
    (if treeDone w e && !(w.ev e).signal then v "C03" "doneNotSignalled" (hangSigs w m e) s!"event {e}" else []) ++
    (if m.everTimeout && !((w.ev e).status == .completed && (w.ev e).signal) then
       v "C10" "notCompletedAfterTimeout" (hangSigs w m e) s!"event {e}" else []) ++
    (if !(w.ev e).signal && (hangSigs w m e).isEmpty then v "C03" "neverCompleted" [] s!"event {e}" else [])) ++
  ((insts w).flatMap fun i =>
    if isAwaiting (w.inst i).st then v "C04" "deadlock" [] s!"instance {i} still awaiting at rest" else []) ++
  ((buses w).flatMap fun b =>
    if (w.bus b).created && (w.bus b).unfinished != 0 then
      v "C15" "unfinishedAtRest" (busHangSigs w m b) s!"bus {b} unfinished {(w.bus b).unfinished}" else []) ++
  -- C07: each event's path is exactly the set of buses reachable through forwarding from its first bus, each begun once
  ((events w).flatMap fun e =>
    match (w.ev e).path with
    | [] => []
    | b0 :: _ =>
      if m.fwdRejected || (m.accepted.filter (·.2 == e)).length != (w.ev e).path.length then [] else
      let roots := ((m.entries.filter (·.1 == e)).map (·.2)).eraseDups
      let _ := b0
      let r := reach w (w.ev e).etype (w.nb * w.nb + 1) roots []
      let arrival := (m.accepted.filter (·.2 == e)).map (·.1)
      (if r.mergeSort != (w.ev e).path.mergeSort then
         v "C07" "pathNotReach" (hangSigs w m e) s!"event {e}: path {(w.ev e).path}, reachable {r}" else []) ++
      (if arrival != (w.ev e).path then v "C07" "pathNotArrivalOrder" [] s!"event {e}: path {(w.ev e).path}, arrivals {arrival}" else []) ++
      ((w.ev e).path.flatMap fun b =>
        if (m.begun.filter (· == (b, e))).length != 1 then
          v "C07" "notOncePerBus" (hangSigs w m e ++ busHangSigs w m b) s!"event {e} bus {b}: {(m.begun.filter (· == (b, e))).length} activations" else []))

end Bubus
