/-
  Bubus.Audit — lists every property theorem (constants in namespace `Bubus.Thm`) with the axioms it depends on
  and its statement.  Run by the checks: `lake env lean Bubus/Audit.lean`.
-/
import Lean
import Bubus
open Lean Elab Command Meta

run_cmd do
  let env ← getEnv
  let mut names : Array Name := #[]
  for (n, ci) in env.constants.toList do
    -- (equation lemmas `f.eq_1 …` that Lean generates for definitions made in this namespace are not property theorems)
    if (`Bubus.Thm).isPrefixOf n && !n.isInternal && !(n.getString!.startsWith "eq_") then
      match ci with
      | .thmInfo _ => names := names.push n
      | _ => pure ()
  let sorted := names.qsort (fun a b => a.toString < b.toString)
  for n in sorted do
    let axs ← liftCoreM (Lean.collectAxioms n)
    let axl := ",".intercalate (axs.toList.map toString)
    IO.println s!"AXIOMS {n} : {axl}"
    let some ci := env.find? n | pure ()
    let fmt ← liftTermElabM (ppExpr ci.type)
    let st := (toString fmt).replace "\n" " "
    IO.println s!"STMT {n} : {st}"
